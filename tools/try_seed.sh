#!/bin/sh
# try_seed.sh <worktree prop dir, e.g. C10> <patch number> <check ids...>
# Applies /tmp/mut/<dir>/out/patch<n>.diff in that scratch worktree, confirms the demo and the
# test suite, runs the given checks against the worktree (VERIF_REPO), restores the worktree.
dir=$1; n=$2; shift 2
wt=/tmp/mut/$dir
out=/tmp/mut/results/$dir-$n; mkdir -p "$out"
cd "$wt" || exit 2
git checkout -q -- . 
echo "== demo on clean code"; PYTHONPATH=$wt /venv/bin/python -B out/demo$n.py > "$out/demo_clean.txt" 2>&1; echo "exit $?" | tee -a "$out/demo_clean.txt"
git apply out/patch$n.diff || { echo "patch does not apply"; exit 2; }
echo "== demo on patched code"; PYTHONPATH=$wt /venv/bin/python -B out/demo$n.py > "$out/demo_patched.txt" 2>&1; echo "exit $?" | tee -a "$out/demo_patched.txt"
echo "== test suite on patched code"; env -u DISCOPY_VERIF PYTHONPATH=$wt /venv/bin/python -m pytest -q -p no:cacheprovider test 2>&1 | tail -1 | tee "$out/pytest.txt"
for c in "$@"; do
  echo "== check $c against patched worktree"
  ( cd /verif && VERIF_REPO=$wt VERIF_EVIDENCE_DIR=$out/evidence VERIF_REPLAYS_DIR=$out/replays ./check $c --quick > "$out/check_$c.txt" 2>&1; echo "exit $?" >> "$out/check_$c.txt" )
  grep -c "^VIOLATION" "$out/check_$c.txt" | sed "s/^/   VIOLATION lines: /"; grep "^VIOLATION" "$out/check_$c.txt" | head -2; tail -2 "$out/check_$c.txt"
done
cd "$wt" && git checkout -q -- . && git status --short | grep -v "^?? out/" | head
