import ast,sys
def strip(path):
    src=open(path).read()
    tree=ast.parse(src)
    for n in ast.walk(tree):
        if isinstance(n,(ast.FunctionDef,ast.ClassDef,ast.Module)):
            if n.body and isinstance(n.body[0],ast.Expr) and isinstance(getattr(n.body[0],'value',None),ast.Constant) and isinstance(n.body[0].value.value,str):
                n.body=n.body[1:] or [ast.Pass()]
    return ast.unparse(tree)
print(strip(sys.argv[1]))
