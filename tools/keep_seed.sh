#!/bin/sh
# keep_seed.sh <dir> <n> <seed id> "<what I ran / which checks caught it>"
dir=$1; n=$2; id=$3; ran=$4
dst=/verif/seeded/$id; mkdir -p "$dst"
cp /tmp/mut/$dir/out/patch$n.diff "$dst/patch.diff"; cp /tmp/mut/$dir/out/demo$n.py "$dst/demo.py"
python3 - "$dir" "$n" "$id" "$ran" <<'PY'
import json,sys,glob
d,n,i,ran=sys.argv[1:5]
m=json.load(open('/tmp/mut/%s/out/meta%s.json'%(d,n)))
res={}
for f in glob.glob('/tmp/mut/results/%s-%s/check_*.txt'%(d,n)):
    t=open(f).read()
    res[f.split('check_')[1][:-4]]={"violation_lines":t.count('\nVIOLATION')+ (1 if t.startswith('VIOLATION') else 0),"exit":t.strip().splitlines()[-1]}
m.update({"seed_id":i,"breaks_property":m.get("property"),"needs_to_manifest":m.get("needs"),
 "what_i_ran":ran,"demo_clean":open('/tmp/mut/results/%s-%s/demo_clean.txt'%(d,n)).read()[-200:],
 "demo_patched":open('/tmp/mut/results/%s-%s/demo_patched.txt'%(d,n)).read()[-400:],
 "pytest_patched":open('/tmp/mut/results/%s-%s/pytest.txt'%(d,n)).read().strip(),"checks":res})
json.dump(m,open('/verif/seeded/%s/meta.json'%i,'w'),indent=1)
print(i,res)
PY
