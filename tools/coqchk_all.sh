#!/bin/sh
# Re-check every Props/*.vo (and everything it depends on) with the independent checker coqchk
# and print the axioms each relies on.  Slow (about a minute per property); not part of the checks.
cd "$(dirname "$0")/../coq" || exit 1
for f in Props/C*.v; do
  m=$(basename "$f" .v)
  [ -f "Props/$m.vo" ] || continue
  echo "=== $m"
  timeout 1800 coqchk -silent -o -Q . DV DV.Props.$m 2>&1 | sed -n '/CONTEXT SUMMARY/,$p' | grep -v "^$" | grep -v "CONTEXT SUMMARY\|=====" 
done
