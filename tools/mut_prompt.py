"""Prints the prompt for a fresh mutation sub-agent for property <id> (property text only)."""
import json, sys
pid = sys.argv[1]
variant = len(sys.argv) > 2
third = len(sys.argv) > 2 and sys.argv[2] == 'y'
for l in open('/verif/properties.jsonl'):
    p = json.loads(l)
    if p['id'] == pid:
        break
extra = (" This is a second round: go for the less obvious sites - secondary subclasses that override or inherit the mechanism, rarely used keyword arguments and flags, helper functions shared by several features, boundary cases of sizes (empty, single, unequal), and interactions between two features - rather than the most central line of the main function." if variant else "")
if third:
    extra = " This is a third round (the obvious sites have been tried): pick sites that need TWO things to go wrong together or a long-range interaction - a cache, memo or default argument shared between calls; an `upgrade` / class-dispatch path taken only by subclasses (tensor, circuit, zx, biclosed, cartesian, Sum, Bubble, Swap / Cup / Cap boxes); `__eq__` / `__hash__` / `__repr__` helpers that other features rely on; arguments given as generators, tuples or numpy types instead of lists and ints; negative, zero or boolean values where ints are expected; an operation applied twice or to its own output - and entry points named in the property that are far from the main function."
print(f"""You are given a scratch git worktree of the open-source Python library DisCoPy (oxford-quantum-group/discopy, a toolbox for monoidal-category string diagrams) at /tmp/mut/{pid} (a checkout of the current main branch; python interpreter: /venv/bin/python, run things with `cd /tmp/mut/{pid} && PYTHONPATH=/tmp/mut/{pid} /venv/bin/python ...`; the test suite runs with `cd /tmp/mut/{pid} && PYTHONPATH=/tmp/mut/{pid} /venv/bin/python -m pytest -q -p no:cacheprovider test` — 219 tests pass and exactly these 10 fail for environment reasons and must be ignored: test_drawing::test_draw_eggs, test_drawing::test_pregroup_draw, test_tensor::test_Tensor_scalar and seven tests in test_zx.py about pyzx/circuit2zx). Work ONLY inside /tmp/mut/{pid}; do not read or touch /verif or /repo or any other directory; there is no network.

Here is a semantic property that the library is supposed to satisfy:

  Property {pid} — {p['title']}
  {p['statement']}
  (Quantifier: {p['quantifier']['text']})
  Relevant source files: {', '.join(p['anchors']['files'])}

Your task: produce TWO different, independent, realistic changes to the library source (each a small patch to files under discopy/, like a plausible refactoring slip, an off-by-one, a wrong branch condition, a forgotten case, a dropped update of a second data structure, ...) such that, for EACH change taken alone: (1) the library still imports and the existing test suite still passes exactly as before (the same 219 pass / 10 fail — run it and check); (2) the property above is violated; (3) the violation needs something specific to manifest — an unusual input, a particular multi-step sequence of operations, a specific combination of arguments, or two cooperating sites that each look fine alone — NOT something ordinary use would expose at once. Prefer changes deep inside the mechanisms that make the property hold.{extra}

For each change i in (1, 2) write: /tmp/mut/{pid}/out/patch{{i}}.diff (unified diff from `git diff` against the unmodified worktree, applying with `git apply` at the repository root), /tmp/mut/{pid}/out/demo{{i}}.py (a small stand-alone Python program that exits 0 and prints PASS on the UNMODIFIED code and exits 1 printing FAIL plus a short explanation on the modified code; it must import discopy from the current directory via PYTHONPATH), and /tmp/mut/{pid}/out/meta{{i}}.json with keys: property ("{pid}"), summary (one sentence: what the change is), needs (what specific input / sequence / combination is needed for the violation to manifest), files (list of changed files). Verify everything yourself: demo passes on clean code (save your change with `git diff > out/patchN.diff`, get clean code with `git checkout -- .`, re-apply with `git apply out/patchN.diff`; do NOT use `git stash`: the stash is shared with other worktrees of the same repository that other people use concurrently; the out/ directory is untracked and survives), fails with the patch applied, and the test suite result is unchanged with the patch applied. Leave the worktree CLEAN (no patch applied) at the end, with only the out/ directory added. Reply with a short summary of the two changes.""")
