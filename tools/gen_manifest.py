"""Regenerates MANIFEST.json from the table below (single source of truth)."""
import json, os
HERE = os.path.dirname(os.path.dirname(os.path.abspath(__file__)))
props = [json.loads(l) for l in open(os.path.join(HERE, "properties.jsonl"))]
ids = [p["id"] for p in props]

TB = ("Coq 8.16.1 kernel; hand-written Gallina model tied to /repo by the correspondence check "
      "(differential testing, bounded by generator quality); extraction with ExtrOcamlBasic only; "
      "OCaml runner/main.ml; Python harness. See DESIGN.md section 7.")

CLAIMED = {
 "C13": dict(
   text="35 theorems about a Gallina model of quantum/tk.py (to_tk main loop with the qubit / bit register lists, "
        "prepare_qubits / prepare_bits, measure_qubits, swaps, add_gate, post-selection dict and post-processing; from_tk "
        "with make_units_adjacent): for every prefix of every export run the qubit register list is the injective, "
        "increasing image of the live qubit wires (register invariant), the command list equals the relabelled "
        "wire-labelled trace of the circuit, rotation angles round-trip exactly (x2, mod 4, /2 = phase mod 2), "
        "prepare_bits renames the post-selection dict exactly as it renames bit indices; BIT ROUTING: outside the "
        "trigger predicates of the listed known findings (F30, F36, F37) every output bit and every post-selection "
        "constraint of the exported circuit has the provenance the circuit gives it (for every setting of the repair "
        "switches); IMPORT: from_tk always returns a well-typed circuit from Ty() to the post-processing codomain and, "
        "for well-formed commands, its wire-labelled trace is exactly the tket commands in order followed by the "
        "deferred post-selections (with the exact event order); the naive import-trace statement is refuted in Coq by "
        "the post-selection witness (finding F41); refutation witnesses for the pinned defects and soundness of the "
        "repairs on them.  Partial: the distribution statement itself (simulate . to_tk = mixed evaluation) needs "
        "matrix semantics and is decided per case by the numerical oracles (own exact tket simulator vs "
        "eval(mixed=True), mock backend, round trip); IMPORT BIT ROUTING is proved (every bit wire and every Bra of the "
        "imported circuit carries the outcome of the tket Measure that writes that bit, outside the F41 / F42 "
        "triggers, with the renumbering of deferred post-selections made explicit; the old statement is refuted); the "
        "round trip is proved conditionally (hypotheses on the exported circuit assumed, checked on every generated "
        "case).  Tie to /repo: exact comparison of exported tket circuits modulo commutation on disjoint units and "
        "of imported diagrams (incl. post-selected tket circuits).",
   design="6/C13", engine="coq-tk",
   technique="Coq proof (register / bit invariants, trace refinement, bit routing, import trace; induction over layers and commands) + exact correspondence vs pytket export/import + simulation oracles"),
 "C12": dict(
   text="33 theorems over the abstract *-ring (executed in Cyc32) about a Gallina model of cqmap.CQMap and cqmap.Functor: "
        "every well-typed pure circuit evaluates mixed to the doubled map conj(U) (x) U of its pure evaluation (per box and "
        "through CQMap.tensor); CQMap.measure has the Born closed form for every n, measuring a doubled state gives "
        "conj(a) a; discard is the trace / marginal; Encode = Measure-dagger and MixedState = Discard-dagger for all flag "
        "combinations with transposed types; box images have the images of the declared types; trace preservation is the "
        "discard law, holds for unitaries (C11), preparations, stochastic classical gates, Copy, destructive Measure, "
        "Discard, constructive Encode and swaps, is closed under tensor and then, hence for every well-typed circuit of "
        "such boxes, and get_counts entries sum to 1.  The swap network of CQMap.tensor as coded equals the Kronecker "
        "closed form on every sector, for all maps and type shapes; non-destructive Measure satisfies the discard law and "
        "the closure theorem holds for the semantic class of trace-preserving boxes (get_counts sums to 1 for any domain "
        "and codomain); Encode(constructive=False), Encode(reset_bits=True) and MixedState are proved NOT trace "
        "preserving; init_and_discard and the dagger preserve well-typedness; measure() of a pure circuit, with or "
        "without a final Measure, is the Born distribution of its pure evaluation.  Partial (superseded items kept for "
        "the record): non-destructive Measure trace preservation and non-negativity by oracle.  Tie to /repo: "
        "exact Cyc32 vs eval(mixed=True) at 1e-9, doubling / Born / counts / adjointness oracles.",
   design="6/C12", engine="coq-cq",
   technique="Coq proof (abstract *-ring, induction on layers) + correspondence vs mixed evaluation + Born-rule oracles"),
 "C16": dict(
   text="15 theorems: for every supported box and every phase (abstractly: every PhaseAlg over a *-ring, instantiated by "
        "the k/16 grid in Cyc32 and by the phase units of any *-ring) the ZX diagram produced by gate2zx is well-typed "
        "with the box's arity and its standard interpretation equals an explicit unit scalar times the box's evaluation; "
        "circuit2zx of a well-typed circuit denotes the circuit's evaluation up to one unit factor (induction over the "
        "functor loop); arity preserved; the dagger of every well-typed ZX diagram denotes the conjugate transpose; X and "
        "Y spiders are the Hadamard / basis-change conjugates of Z spiders; refutation witnesses for the pinned (pre-fix) "
        "controlled-rotation decompositions and soundness of the repair.  Tie to /repo: exact syntactic comparison of "
        "circuit2zx output (rational phases), numeric standard interpretation vs Circuit.eval() up to one non-zero factor, "
        "dagger oracle.",
   design="6/C16", engine="coq-zx",
   technique="Coq proof (ring identities per gate, functor induction) + exact syntactic correspondence + numeric interpretation oracle"),
 "C15": dict(
   text="22 theorems about a Gallina model of grad / jacobian (product rule over layers exactly as tensor.Diagram.grad "
        "recurses, per-box rules for rotations pure and parameter-shift, controlled rotations, scalars, tensor boxes as "
        "bubbles, bubbles, zx spiders): formal differentiation of phase polynomials is correct (against dual numbers); in "
        "a differential *-ring the pure rule and the parameter-shift rule of every rotation entry and the controlled "
        "rotation rules are the derivatives; grad of a composite evaluates to the derivative in every additive monoidal "
        "semantics whose box denotations satisfy the box rules (induction over layers); constants give the empty sum; "
        "the jacobian stacks gradients in order.  Partial: no concrete matrix/CQ-map model over smooth functions is "
        "built, so the concrete headline statement is a Definition and is covered by the sympy derivative oracle; "
        "F12 (pure scalars under mixed gradients) is a known finding with a _refuted witness.  Tie to /repo: exact "
        "syntactic comparison of the returned formal sums; sympy derivative of eval() at rational points.",
   design="6/C15", engine="coq-grad",
   technique="Coq proof (differential ring, product rule; concrete semantics partial) + exact syntactic correspondence + sympy derivative oracle"),
 "C09": dict(
   text="16 theorems about a Gallina model of tensor.Functor.__call__ (object map with winding handling, box / dagger / "
        "Cup / Cap branches, and the single-pass loop: one moveaxis per Swap, tensordot + moveaxis per box) on top of the "
        "C08 numpy/Tensor model: functor_call_compositional - for every well-typed diagram and every interpretation the "
        "single-pass result equals the layer-by-layer composite Id(F left) (x) F(box) (x) Id(F right) (boxes, daggered boxes, "
        "swaps, cups, caps, scalars, object images of any length); well-formed tensors are an instance of the abstract "
        "monoidal_model, hence evaluation is invariant under interchange and normal_form (from C05/C06); eval = identity "
        "functor; sums, bubbles, daggers; F(x.l) = F(x).l.  Tie to /repo: exact Gaussian-integer correspondence, "
        "independent einsum / layer-composite / invariance oracles.",
   design="6/C09", engine="coq-tfun",
   technique="Coq proof (loop invariant over a numpy model) + exact correspondence + einsum oracle"),
 "C11": dict(
   text="20 theorems over an abstract commutative *-ring with phase units (instantiated by the exact ring Cyc32 = "
        "Q[x]/(x^16+1)): every exported gate's array equals the tket/textbook matrix (H S T X Y Z, Rx Ry Rz CU1 CRz CRx "
        "for every phase, CZ, SWAP, Controlled(g) incl. daggered targets, Ket/Bra, scalars); rotations, gates and "
        "well-typed circuits of gates are unitary; a circuit evaluates to the ordered product of its whiskered gates; "
        "then = product, tensor = Kronecker; dagger evaluates to the conjugate transpose for every circuit; the "
        "adjacent-swap network of Diagram.permutation evaluates to the index-permutation matrix for every permutation; "
        "rewire of any well-typed two-qubit circuit onto any a != b < n, every n, evaluates to the circuit acting on "
        "qubits a and b (and its refusals).  Tie to /repo: reference table vs pytket's Op.get_unitary(), exact Cyc32 results vs Circuit.eval() "
        "at 1e-9 on grid phases, unitarity / dagger / statevector / rewire oracles.",
   design="6/C11", engine="coq-quantum",
   technique="Coq proof (abstract *-ring, exact cyclotomic instance) + correspondence vs eval and pytket"),
 "C14": dict(
   text="54 theorems about a Gallina model of subs / lambdify / free_symbols on parametrised boxes and diagrams of the "
        "tensor, circuit and zx classes (phases as canonical multivariate polynomials over Q): substitution preserves dom, "
        "cod, kinds and flags; free symbols are exactly those of the boxes; substituting all symbols closes the diagram; "
        "subs commutes with any evaluation that depends on parameters through their values; lambdify agrees with subs "
        "semantically AND syntactically on canonical data (every operation of the expression model returns canonical "
        "forms, canonical forms are unique - identity theorem for multivariate polynomials over Q with an explicit "
        "non-vanishing point - and everything decoded from the wire is canonical); free_symbols of an expression is "
        "exact in both directions (a reported symbol really changes the value somewhere); plus _refuted witnesses for the five remaining known findings F11a,e,f,g,k.  Tie to /repo: exact "
        "syntactic comparison of subs / lambdify results and free symbols, sympy-based evaluation oracle.",
   design="6/C14", engine="coq-param",
   technique="Coq proof (polynomial canonical forms, uniqueness by the identity theorem) + exact syntactic correspondence + sympy evaluation oracle"),
 "C17": dict(
   text="30 theorems about a Gallina model of zx.Diagram.to_pyzx / from_pyzx (graph = vertices, typed edges, ordered "
        "inputs/outputs): the exported graph has one vertex per boundary wire and spider, one edge per wire, Hadamard "
        "flag = parity of H boxes on the wire (against an independent wire-tracing specification), inputs/outputs in "
        "wire order; every imported diagram is well-typed with the graph's numbers of inputs and outputs; bad "
        "boundaries are refused; EXPORT SOUNDNESS: for every well-typed diagram of Z / X spiders of any arity and phase, "
        "Hadamards, swaps and scalars, the meaning of the exported graph (sum over edge labellings of the product of the "
        "vertex tensors, Hadamard-edge convention, accumulated scalar) equals the layer-by-layer meaning of the diagram, "
        "every entry, in every commutative semiring with -1, 1/sqrt2, phase units and a complex embedding (hence in "
        "every StarRing and in the executable ring Cyc8, whose laws are proved) - by a loop invariant over the export "
        "(one-vertex extension = contraction-order independence); IMPORT SOUNDNESS for the code as it is: for every "
        "well-formed graph in scope (distinct vertices, boundaries and edge ends are vertices) the imported diagram "
        "denotes the graph, every entry; importing then exporting is accepted and gives the graph back up to "
        "presentation; the round trip to_pyzx / from_pyzx preserves the meaning; in-scope graphs are balanced (double "
        "counting) and, when their vertex list is sorted, always imported (totality; the unsorted statement is refuted "
        "by a witness, as is soundness without well-formedness).  Tie to /repo (through a documented adapter "
        "for pyzx 0.10.6): exact comparison of graphs and imported diagrams, pyzx's own to_matrix() against a numpy "
        "standard-interpretation evaluator in both directions.",
   design="6/C17", engine="coq-pyzx",
   technique="Coq proof (shape theorems; export and import soundness, totality over abstract semirings) + exact graph correspondence + pyzx to_matrix oracle"),
 "C18": dict(
   text="20 theorems about Gallina models of pregroup.eager_parse / brute_force, CFG.generate (random.shuffle as an "
        "explicit oracle), ccg.cat2ty / tree2diagram and the biclosed -> rigid translation: parses have empty domain, "
        "the target as codomain, the words in order then only cups on adjacent (t, t.r), always contracting the leftmost "
        "pair, failing only with NotImplementedError; every generated sentence is a derivation of the start symbol from "
        "the given productions for every shuffle oracle; biclosed2rigid is type-preserving and never refused for FA, BA "
        "(any left argument), FC, BC, FX, BX and Curry (any n_wires) over arbitrarily nested slash types, and for every "
        "diagram the public constructors accept, including those built from CCG trees.  Tie to /repo: exact comparison "
        "of returned diagrams with recorded shuffles replayed into the model; image / grammaticality oracles.",
   design="6/C18", engine="coq-grammar",
   technique="Coq proof (induction on slash types, parser loop invariants) + extracted-model correspondence + oracles"),
 "C07": dict(
   text="26 theorems about a Gallina model of rewriting.snake_removal (follow_wire, find_snake, unsnake with its "
        "index bookkeeping, the outer loop, then monoidal normalize): every yielded step of every prefix of the trace "
        "and the normal form are well-typed with the input's domain and codomain; follow_wire returns the consumer of "
        "the wire and the passed boxes; find_snake returns None iff no cap leg runs straight into the opposite leg of a "
        "matching cup; whatever it selects satisfies a snake equation (types match), with or without obstructions; each "
        "unsnake removes exactly two boxes so the outer loop terminates; the twisted snake is left in place; SEMANTIC "
        "SOUNDNESS: in every strict monoidal category with cups and caps satisfying the two snake equations (typed "
        "record, and the untyped rigid_laws formulation) one unsnake call, every prefix of the snake-removal trace and "
        "the rigid normal form denote the same morphism as the input, for arbitrary obstructions (wire-following "
        "invariant preserved by every interchange; cap and cup end adjacent at offsets +-1; the deletion is never "
        "refused), with non-trivial instances (qubit tensors over Z[i], counting model); TOTALITY: for arbitrary "
        "obstructions every interchange requested by the loops of unsnake is legal (the followed wire separates the "
        "boxes being exchanged), so snake removal never raises and the rigid normal form only ever fails with "
        "NotImplementedError (or the model's fuel bound).  The check adds exception classes and exact integer "
        "tensor functors on every yielded step of the implementation.  Tie to /repo: whole traces compared with the "
        "extracted model.",
   design="6/C07", engine="coq-snake",
   technique="Coq proof (typing, wire-following invariant, totality, semantic soundness in every rigid category) + trace correspondence + exact tensor-semantics oracle"),
 "C04": dict(
   text="9 theorems about the Gallina model of monoidal.Functor/rigid.Functor application (finite object and box "
        "tables; Swap, Cup, Cap and daggered boxes mapped as the code does): images are well-typed from F(dom) to "
        "F(cod); F(Id) = Id; F(a >> b) = F(a) >> F(b) and F(a @ b) = F(a) @ F(b) as equalities of values for all "
        "well-typed diagrams and all functors defined on them (object images of any length incl. empty); the object "
        "map is a monoid homomorphism sending .l/.r to .l/.r for every winding number; the dagger law F(d[::-1]) = "
        "F(d)[::-1] for diagrams of plain (possibly daggered) boxes.  Partial: the dagger law is false as == for "
        "composite swaps (known finding F19), so its unrestricted form is only stated; slices and sums are covered by "
        "the check only.  Tie to /repo: random functors given as dicts and as callables, six laws per case decided by "
        "the implementation's ==, both sides compared with the extracted model.",
   design="6/C04", engine="coq-core",
   technique="Coq proof (layer-by-layer functor semantics) + extracted-model correspondence + == oracle"),
 "C03": dict(
   text="19 theorems about a Gallina model of __eq__/__hash__/__repr__ in the monoidal and rigid classes: equality is "
        "an equivalence and holds iff dom, cod, boxes, offsets agree; on well-typed values that is identity of the whole "
        "value (layer view and codomain are determined by dom, boxes, offsets); a box equals its wrapping one-box diagram through "
        "both dispatch paths; equal values print identically, hence hash identically for every hash function of the "
        "repr; a Gallina recursive-descent parser of the printed constructor syntax round-trips every type, object, box, "
        "well-typed diagram and sum (repr_roundtrip), hence repr is injective.  Tie to /repo: repr strings compared "
        "verbatim, ==/hash compared on all pairs within buckets of values built by different routes, oracles for "
        "equivalence laws, dict lookups and eval(repr(v)) == v.  Known finding F14 (numeric tower).",
   design="6/C03", engine="coq-repr",
   technique="Coq proof (printer/parser round trip, structural equality) + verbatim repr correspondence + eval oracle"),
 "C05": dict(
   text="9 theorems: interchange keeps the boundary and well-typedness; exact description of an adjacent exchange "
        "(boxes trade places, exactly one offset changes by the other box's arity difference); a move of box i past "
        "n boxes puts it n places later with all other boxes in order; the result has the same denotation in EVERY "
        "strict monoidal category under every type-respecting interpretation (record of axioms, generalised "
        "interchange law); refusal with InterchangerError iff the boxes overlap where they meet (adjacent) / iff some "
        "step on the way meets an overlapping box (general); IndexError for out-of-range indices.  Partial: refusal "
        "characterised through the ORIGINAL diagram's wiring is only stated.  Tie to /repo: every (i, j, left) on "
        "small-scope and random diagrams against the extracted model, plus wiring / box-order / exact integer tensor "
        "semantics oracles.",
   design="6/C05", engine="coq-core",
   technique="Coq proof (list surgery + abstract monoidal category) + extracted-model correspondence + wiring/semantic oracles"),
 "C06": dict(
   text="12 theorems: every step yielded by normalize is well-typed, is a legal single interchange of the previous "
        "diagram (the trace is a path of guarded adjacent exchanges), permutes the boxes and keeps the denotation in "
        "every strict monoidal category; the result and every yielded step lie in the input's interchanger-equivalence "
        "class (reachable by interchanges alone); canonicity is reduced to uniqueness of normal diagrams inside one class; normal_form is well-typed, normal (no move left), a fixed point for any "
        "positive fuel, and NotImplementedError only arises from a repeated diagram in the trace.  PARTIAL: canonicity "
        "and termination on connected diagrams are stated (Definitions) but not proved - no confluence proof of the "
        "interchanger system; the check stands in with an exhaustive BFS of each connected diagram's interchanger class "
        "on the implementation (a test).",
   design="6/C06", engine="coq-core",
   technique="Coq proof (path invariants, partial) + trace correspondence + exhaustive interchanger-class search"),
 "C19": dict(
   text="11 theorems about a Gallina model of discopy.cartesian (tuplify/untuplify, Function call/then/tensor/id, "
        "Box, Diagram call through the functor, Swap/Copy/Discard): calling a diagram = sequentially splicing each "
        "box's outputs at its offset (for arbitrary box functions, arities 0..n), swap/copy/discard act on their "
        "inputs as a whole at every width, and the three naturality axioms hold on all inputs.  Tie to /repo: a "
        "26-function library defined on both sides, exhaustive small diagrams x input tuples, random layered diagrams, "
        "malformed calls; independent list-splicing oracle.",
   design="6/C19", engine="coq-cart",
   technique="Coq proof (fold/splice induction) + extracted-model correspondence + list-splicing oracle"),
 "C20": dict(
   text="9 theorems about a Gallina model of drawing.diagram2nx over Q (make_space with both padding rules, add_box): "
        "node set and count, edges = planar wiring, open wires strictly increasing with gap >= 1 after every prefix and "
        "in the final positions, wires vertical, edges downward, boxes at distance >= 1 from neighbouring wires, "
        "totality on well-formed diagrams, nx2diagram reads the offsets back; by a loop invariant and a monotone-"
        "expansion lemma.  Tie to /repo: exact Fraction comparison of nodes/edges/positions, geometric oracle, "
        "matplotlib and TikZ smoke test (a test), diagramize round trips.",
   design="6/C20", engine="coq-draw",
   technique="Coq proof (loop invariant over Q) + exact layout correspondence + geometric oracle"),
 "C02": dict(
   text="21 theorems: associativity and units of >> and @, a @ b = a @ Id >> Id @ b, dagger involutive / "
        "identity-on-objects / contravariant, d[:i] >> d[i:] = d at every depth, box = one-box diagram, and for "
        "formal sums left-distributivity of >> and @, dagger-distributivity, units, right-distributivity for a "
        "single-term left factor (exact) and up to the order of terms in general, all as Leibniz equalities of "
        "the model's returned values for all (well-typed) diagrams; sum_then_distributes_right_refuted is the "
        "vm_compute witness of known finding F20.  Tie to /repo: each law instance is run through the "
        "implementation's == and both sides are compared with the extracted model.",
   design="6/C02", engine="coq-core",
   technique="Coq proof (algebraic laws on the hand model) + extracted-model correspondence + == oracle"),
 "C08": dict(
   text="16 theorems about a Gallina model of tensor.Tensor on top of a model of the numpy primitives it calls "
        "(reshape, tensordot, moveaxis with numpy's insertion algorithm, identity, conjugate) over Gaussian "
        "integers: composition = matrix product, tensor = Kronecker product, dagger = conjugate transpose and "
        "involutive, identity matrices, swaps = block permutation matrices, interchange law, swap naturality, "
        "closed form of the entries of multi-wire cups and caps (nested pairing), both snake equations for every "
        "list of dimensions (empty, repeated, unequal, 1s), refusals; for all dimension lists and arrays.  "
        "Tie to /repo: numpy-primitive suite against the installed numpy plus Tensor DSL programs against "
        "discopy.tensor.Tensor, exact integer comparison, independent numpy kron/matmul oracle.",
   design="6/C08", engine="coq-tensor",
   technique="Coq proof (index arithmetic on a numpy model) + extracted-model correspondence + numpy oracle"),
 "C01": dict(
   text="Closure theorem api_program_wf: every value returned by any term of public-API calls "
        "(constructor, >>, @, dagger, forward/reversed slices, indexing, interchange, each yielded "
        "normalisation step, normal_form, every yielded foliation step, the slices of foliation(), swap, "
        "permutation, cups, caps, transpose, functor application) "
        "is well-typed (layer view chains from dom to cod, boxes/offsets agree with it), by induction on "
        "the program, plus constructor_accepts_iff_well_typed and refusal iff theorems; foliation: the slices "
        "compose from dom to cod (so d.foliation() is well-typed), flattening gives the last yielded step back, "
        "every slice is one non-empty layer of side-by-side boxes, foliate never fails on a well-typed diagram, "
        "depth is bounded by the number of boxes, the denotation is unchanged in every strict monoidal category "
        "(12 theorems), all about the "
        "Gallina model; the model is tied to /repo by differential testing of ~19k programs (quick) in the "
        "monoidal and rigid classes comparing full outcomes incl. layers, an independent range-checked "
        "re-scan oracle on every returned diagram, independent foliation / flatten / depth oracles, an oracle-only "
        "tour of the other classes (tensor, circuit, zx, cat, biclosed near-misses, operands of different type "
        "families); the DISCOPY_VERIF hook re-scans diagrams built inside the library.",
   design="6/C01", technique="Coq proof (induction over API programs) + extracted-model correspondence + re-scan oracle"),
 "C10": dict(
   text="Theorems about the Gallina model of monoidal.Diagram.swap/permutation (wire map of the "
        "returned swap network, codomain, adjacent swaps only, refusal of non-permutations) for all "
        "types and permutations, re-checked by coqc on every run; the model is tied to the five "
        "implementing classes by exhaustive small-scope correspondence plus a wire-tracing oracle on "
        "the implementation.",
   design="6/C10", technique="Coq proof over hand model + extracted-model correspondence + wire-tracing oracle"),
}
NA_REASON = "machinery for this property is not built yet (work in progress; see DESIGN.md section 11)"

checks, na = [], []
for i in ids:
    if i in CLAIMED:
        c = CLAIMED[i]
        checks.append({
            "property_id": i,
            "quick_cmd": "./check %s --quick" % i,
            "thorough_cmd": "./check %s --thorough" % i,
            "evidence_file": "/verif/evidence/%s.json" % i,
            "replay_cmd_template": "./check %s --replay {path}" % i,
            "engine": c.get("engine", "coq-core"),
            "level_claimed": {"category": "proof", "text": c["text"], "design_ref": c["design"]},
            "level_note": c.get("note", TB),
            "technique": c["technique"],
        })
    else:
        na.append({"property_id": i, "reason": NA_REASON})
man = {
 "version": 1,
 "setup_cmd": "./setup.sh",
 "hooks": {"guard": "DISCOPY_VERIF", "enable": "export DISCOPY_VERIF=1 (set by ./check); no build step, discopy is imported from /repo's working tree",
           "baseline_off_cmd": "cd /repo && env -u DISCOPY_VERIF /venv/bin/python -m pytest -ra -q -p no:cacheprovider --timeout=900 --continue-on-collection-errors",
           "source_commits": ["94fb4a3"], "add_only": True},
 "engines": [{"name": e, "path": pth, "serves_properties": sorted(k for k, v in CLAIMED.items() if v.get("engine", "coq-core") == e),
              "kind_free_text": txt} for e, pth, txt in [
   ("coq-core", "coq/Core", "Gallina model of the structural core of DisCoPy (types, boxes, diagrams with layers, then/tensor/dagger/slices, interchange, normalize, swaps, permutations, cups/caps, functors, sums) + Coq theorems + extracted OCaml runners (core, sums) for differential testing against /repo"),
   ("coq-repr", "coq/Repr", "Gallina printer/parser model of repr/eq/hash + Coq theorems + extracted runner"),
   ("coq-cart", "coq/Cart", "Gallina model of discopy.cartesian + Coq theorems + extracted runner"),
   ("coq-draw", "coq/Draw", "Gallina model of drawing.diagram2nx over Q + Coq theorems + extracted runner"),
   ("coq-snake", "coq/Snake", "Gallina model of rewriting.snake_removal on top of the core model + Coq theorems + extracted runner"),
   ("coq-pyzx", "coq/PyZX", "Gallina model of the pyzx export/import of ZX diagrams + Coq theorems + extracted runner"),
   ("coq-grammar", "coq/Grammar", "Gallina models of the pregroup parser, CFG generation, CCG trees and biclosed->rigid translation + Coq theorems + extracted runner"),
   ("coq-tfun", "coq/TFun", "Gallina model of tensor.Functor.__call__ on the numpy/Tensor model + Coq theorems + extracted runner"),
   ("coq-quantum", "coq/Quantum", "abstract *-ring, exact ring Cyc32, bit-indexed matrices, gate tables and pure circuit evaluation + Coq theorems + extracted runner"),
   ("coq-param", "coq/Param", "Gallina model of parametrised boxes (polynomial phases), subs / lambdify / free_symbols + Coq theorems + extracted runner"),
   ("coq-grad", "coq/Grad", "Gallina model of diagrammatic gradients on the Param model + Coq theorems + extracted runner"),
   ("coq-cq", "coq/CQ", "Gallina model of classical-quantum maps and mixed circuit evaluation over the abstract *-ring + Coq theorems + extracted runner"),
   ("coq-tk", "coq/Tk", "Gallina model of the tket export / import (register bookkeeping, post-selection, post-processing, make_units_adjacent) + Coq theorems + extracted runner"),
   ("coq-zx", "coq/ZX", "Gallina model of gate2zx / circuit2zx and the standard ZX interpretation over the abstract *-ring + Coq theorems + extracted runner"),
   ("coq-tensor", "coq/Tensor", "Gallina model of numpy primitives and discopy.tensor.Tensor over Gaussian integers + Coq theorems + extracted runner"),
 ]],
 "checks": checks,
 "not_applicable": na,
 "notes": "All checks import discopy from /repo's working tree at run time. See DESIGN.md.",
}
json.dump(man, open(os.path.join(HERE, "MANIFEST.json"), "w"), indent=1)
print("claimed:", sorted(CLAIMED))
