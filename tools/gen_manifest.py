"""Regenerates MANIFEST.json from the table below (single source of truth)."""
import json, os
HERE = os.path.dirname(os.path.dirname(os.path.abspath(__file__)))
props = [json.loads(l) for l in open(os.path.join(HERE, "properties.jsonl"))]
ids = [p["id"] for p in props]

TB = ("Coq 8.16.1 kernel; hand-written Gallina model tied to /repo by the correspondence check "
      "(differential testing, bounded by generator quality); extraction with ExtrOcamlBasic only; "
      "OCaml runner/main.ml; Python harness. See DESIGN.md section 7.")

CLAIMED = {
 "C01": dict(
   text="Closure theorem api_program_wf: every value returned by any term of public-API calls "
        "(constructor, >>, @, dagger, forward/reversed slices, indexing, interchange, each yielded "
        "normalisation step, normal_form, swap, permutation, cups, caps, transpose, functor application) "
        "is well-typed (layer view chains from dom to cod, boxes/offsets agree with it), by induction on "
        "the program, plus constructor_accepts_iff_well_typed and refusal iff theorems, all about the "
        "Gallina model; the model is tied to /repo by differential testing of ~16k programs (quick) in the "
        "monoidal and rigid classes comparing full outcomes incl. layers, and an independent range-checked "
        "re-scan oracle on every returned diagram; the DISCOPY_VERIF hook re-scans diagrams built inside "
        "the library.",
   design="6/C01", technique="Coq proof (induction over API programs) + extracted-model correspondence + re-scan oracle"),
 "C10": dict(
   text="Theorems about the Gallina model of monoidal.Diagram.swap/permutation (wire map of the "
        "returned swap network, codomain, adjacent swaps only, refusal of non-permutations) for all "
        "types and permutations, re-checked by coqc on every run; the model is tied to the five "
        "implementing classes by exhaustive small-scope correspondence plus a wire-tracing oracle on "
        "the implementation.",
   design="6/C10", technique="Coq proof over hand model + extracted-model correspondence + wire-tracing oracle"),
}
NA_REASON = "machinery for this property is not built yet (work in progress; see DESIGN.md section 11)"

checks, na = [], []
for i in ids:
    if i in CLAIMED:
        c = CLAIMED[i]
        checks.append({
            "property_id": i,
            "quick_cmd": "./check %s --quick" % i,
            "thorough_cmd": "./check %s --thorough" % i,
            "evidence_file": "/verif/evidence/%s.json" % i,
            "replay_cmd_template": "./check %s --replay {path}" % i,
            "engine": c.get("engine", "coq-core"),
            "level_claimed": {"category": "proof", "text": c["text"], "design_ref": c["design"]},
            "level_note": c.get("note", TB),
            "technique": c["technique"],
        })
    else:
        na.append({"property_id": i, "reason": NA_REASON})
man = {
 "version": 1,
 "setup_cmd": "./setup.sh",
 "hooks": {"guard": "DISCOPY_VERIF", "enable": "export DISCOPY_VERIF=1 (set by ./check); no build step, discopy is imported from /repo's working tree",
           "baseline_off_cmd": "cd /repo && env -u DISCOPY_VERIF /venv/bin/python -m pytest -ra -q -p no:cacheprovider --timeout=900 --continue-on-collection-errors",
           "source_commits": ["94fb4a3"], "add_only": True},
 "engines": [{"name": "coq-core", "path": "coq/Core", "serves_properties": sorted(CLAIMED),
              "kind_free_text": "Gallina model of the structural core of DisCoPy + Coq theorems + extracted OCaml runner for differential testing against /repo"}],
 "checks": checks,
 "not_applicable": na,
 "notes": "All checks import discopy from /repo's working tree at run time. See DESIGN.md.",
}
json.dump(man, open(os.path.join(HERE, "MANIFEST.json"), "w"), indent=1)
print("claimed:", sorted(CLAIMED))
