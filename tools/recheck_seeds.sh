#!/bin/sh
# recheck_seeds.sh [jobs]: re-run, for every kept seed, the check of the property it breaks against
# a scratch worktree of /repo's HEAD with the seed applied; prints one line per seed.  Scratch
# worktrees live under /tmp/seedcheck and are removed at the end.  Not part of the registered checks.
jobs=${1:-4}
root=/tmp/seedcheck; rm -rf "$root"; mkdir -p "$root"
git -C /repo worktree prune
i=0
while [ $i -lt $jobs ]; do git -C /repo worktree add --detach "$root/w$i" HEAD >/dev/null 2>&1; i=$((i+1)); done
ls /verif/seeded > "$root/list.txt"
one() {
  id=$1; slot=$2; wt=$root/w$slot
  prop=$(echo "$id" | cut -c1-3)
  cd "$wt" && git checkout -q -- . && git apply "/verif/seeded/$id/patch.diff" 2>/dev/null || { echo "$id DOES-NOT-APPLY"; return; }
  out=$root/out/$id; mkdir -p "$out"
  ( cd /verif && VERIF_REPO=$wt VERIF_EVIDENCE_DIR=$out/ev VERIF_REPLAYS_DIR=$out/rp ./check $prop --quick > "$out/check.txt" 2>&1 )
  v=$(grep -c "^VIOLATION" "$out/check.txt"); nf=$(grep -c "no-failing-input-found" "$out/check.txt")
  echo "$id $prop violations=$v of-which-no-failing-input=$nf"
  cd "$wt" && git checkout -q -- .
}
export root
n=0
for id in $(cat "$root/list.txt"); do
  slot=$((n % jobs))
  echo "$id $slot" >> "$root/assign.$slot"
  n=$((n+1))
done
s=0
while [ $s -lt $jobs ]; do
  ( while read id slot; do one "$id" "$slot"; done < "$root/assign.$s" ) >> "$root/results.txt" 2>&1 &
  s=$((s+1))
done
wait
sort "$root/results.txt"
i=0
while [ $i -lt $jobs ]; do git -C /repo worktree remove --force "$root/w$i" >/dev/null 2>&1; i=$((i+1)); done
