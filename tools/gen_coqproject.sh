#!/bin/sh
# _CoqProject = the .v files matched by the patterns of coq/included.txt
# (Extract/*.v are compiled separately by runner/build.sh)
cd "$(dirname "$0")/../coq" || exit 1
tmp=_CoqProject.new.$$
{ echo "-Q . DV"; for pat in $(cat included.txt); do ls $pat 2>/dev/null; done | LC_ALL=C sort -u; } > "$tmp"
if cmp -s "$tmp" _CoqProject; then rm -f "$tmp"; else mv -f "$tmp" _CoqProject; rm -f Makefile; fi
exit 0
