#!/bin/sh
# _CoqProject = the .v files matched by the patterns of coq/included.txt
# (Extract/*.v are compiled separately by runner/build.sh)
cd "$(dirname "$0")/../coq"
{ echo "-Q . DV"; for pat in $(cat included.txt); do ls $pat 2>/dev/null; done | LC_ALL=C sort -u; } > _CoqProject.new
if cmp -s _CoqProject.new _CoqProject; then rm _CoqProject.new; else mv _CoqProject.new _CoqProject; rm -f Makefile; fi
