"""Interpreter of the structural program DSL (coq/Core/Prog.v) over the *real*
DisCoPy imported from /repo, and canonical observation of its results in the
model's own wire encoding (so that outcomes can be compared for equality)."""
import itertools

from common import import_repo, with_timeout, CaseTimeout

discopy = import_repo()
from discopy import cat, monoidal, rigid, rewriting  # noqa: E402

# opcodes (must match dec_prog in coq/Core/Prog.v)
(ID, BOX, MK, THEN, TENSOR, DAGGER, SLICE, SLICEREV, GETITEM, INTERCHANGE,
 NORMALIZE, NORMALFORM, SWAP, PERMUTATION, PERMUTE, CUPS, CAPS, TRANSPOSE,
 FUNCTOR, FOLIATE, FOLIATION) = range(21)
OPNAMES = ["Id", "Box", "Mk", "Then", "Tensor", "Dagger", "Slice", "SliceRev",
           "GetItem", "Interchange", "Normalize", "NormalForm", "Swap",
           "Permutation", "Permute", "Cups", "Caps", "Transpose", "Functor",
           "Foliate", "Foliation"]
KBOX, KSWAP, KCUP, KCAP = 0, 1, 2, 3
TRACE_LIMIT = 60

ERR = {"AxiomError": 1, "InterchangerError": 2, "IndexError": 3, "ValueError": 4,
       "TypeError": 5, "NotImplementedError": 6, "OutOfFuel": 7, "BadProgram": 8,
       "AttributeError": 9}


class Cls:
    """One diagram class = the module-level names the DSL needs."""

    def __init__(self, name):
        self.name = name
        if name == "monoidal":
            self.Ty, self.Box, self.Id, self.Diagram = (
                monoidal.Ty, monoidal.Box, monoidal.Id, monoidal.Diagram)
            self.Swap, self.Functor = monoidal.Swap, monoidal.Functor
            self.mkob = lambda n, z: cat.Ob("n%d" % n)
        elif name == "rigid":
            self.Ty, self.Box, self.Id, self.Diagram = (
                rigid.Ty, rigid.Box, rigid.Id, rigid.Diagram)
            self.Swap, self.Functor = rigid.Swap, rigid.Functor
            self.mkob = lambda n, z: rigid.Ob("n%d" % n, z)
        elif name == "tensor":
            from discopy import tensor
            self.Ty, self.Box, self.Id, self.Diagram = (
                tensor.Dim, None, tensor.Id, tensor.Diagram)
            self.Swap, self.Functor = tensor.Swap, None
            self.mkob = lambda n, z: n + 1            # name k <-> Dim(k + 1)
        elif name == "circuit":
            from discopy.quantum import circuit
            self.Ty, self.Box, self.Id, self.Diagram = (
                circuit.Ty, None, circuit.Id, circuit.Circuit)
            self.Swap, self.Functor = circuit.Swap, None
            self.mkob = lambda n, z: {1: circuit.Qudit(2), 2: circuit.Digit(2)}[n]
        elif name == "zx":
            from discopy.quantum import zx
            self.Ty, self.Box, self.Id, self.Diagram = (
                None, None, zx.Id, zx.Diagram)
            self.Swap, self.Functor = zx.Swap, None
            self.mkob = None
        else:
            raise ValueError(name)

    def ty(self, t):
        if self.name == "zx":
            assert all(n == 1 and z == 0 for n, z in t)
            return rigid.PRO(len(t))
        return self.Ty(*[self.mkob(n, z) for n, z in t])

    def box(self, b):
        kind, name, dom, cod, dag, data = b
        if kind == KSWAP:
            return self.Swap(self.ty(dom[:1]), self.ty(dom[1:]))
        if kind == KCUP:
            return rigid.Cup(self.ty(dom[:1]), self.ty(dom[1:]))
        if kind == KCAP:
            return rigid.Cap(self.ty(cod[:1]), self.ty(cod[1:]))
        params = {}
        if data:
            params["data"] = data[0]
        if dag:
            params["_dagger"] = True
        if self.name == "rigid" and name >= 200 and all(z == 0 for _, z in dom + cod):
            # a plain monoidal box (plain cat.Ob wires) used inside a rigid diagram
            plain = lambda t: monoidal.Ty(*[cat.Ob("n%d" % n) for n, _ in t])   # noqa: E731
            return monoidal.Box("n%d" % name, plain(dom), plain(cod), **params)
        return self.Box("n%d" % name, self.ty(dom), self.ty(cod), **params)


def opt(o):
    return o[0] if o else None


def canon_ob(x):
    name = x.name
    if isinstance(name, int):          # tensor.Dim (k <-> k - 1) and PRO (1 <-> 1)
        return [name - 1 if name > 1 else 1, getattr(x, "z", 0)]
    if name in ("qubit", "bit"):
        return [1 if name == "qubit" else 2, 0]
    if not (isinstance(name, str) and name[:1] == "n" and name[1:].lstrip("-").isdigit()):
        raise AssertionError("non-interned object name %r" % (name,))
    return [int(name[1:]), getattr(x, "z", 0)]


def canon_ty(t):
    return [canon_ob(x) for x in t.objects]


def canon_box(b):
    if isinstance(b, rigid.Cup):
        kind, name = KCUP, -2
    elif isinstance(b, rigid.Cap):
        kind, name = KCAP, -3
    elif isinstance(b, monoidal.Swap):
        kind, name = KSWAP, -1
    else:
        kind = KBOX
        if not (isinstance(b, cat.Box) and isinstance(b.name, str) and b.name[:1] == "n"):
            raise AssertionError("unexpected box %r" % (b,))
        name = int(b.name[1:])
    data = [] if b.data is None else [int(b.data)]
    return [kind, name, canon_ty(b.dom), canon_ty(b.cod), 1 if b.is_dagger else 0, data]


def canon_diagram(d):
    layers = d.layers
    return [canon_ty(d.dom), canon_ty(d.cod), [canon_box(b) for b in d.boxes],
            [int(o) for o in d.offsets],
            [canon_ty(layers.dom), canon_ty(layers.cod),
             [[canon_ty(left), canon_box(box), canon_ty(right)]
              for left, box, right in layers.boxes]]]


def err_code(exc):
    if isinstance(exc, rewriting.InterchangerError):
        return ERR["InterchangerError"]
    if isinstance(exc, cat.AxiomError):
        return ERR["AxiomError"]
    for name in ("IndexError", "ValueError", "TypeError", "NotImplementedError",
                 "AttributeError"):
        if type(exc).__name__ == name:
            return ERR[name]
    return 100   # Other


class OutOfFuel(Exception):
    pass


class PurityError(Exception):
    """An operation changed one of its arguments (set CHECK_PURITY to look for this)."""


CHECK_PURITY = False


def _snap(x):
    if isinstance(x, cat.Sum):
        return ("sum", repr(canon_sum(x)))
    if hasattr(x, "layers"):
        return ("diagram", repr(canon_diagram(x)))
    return ("value", repr(x))


def _pure(op_name, operands, thunk):
    """Run thunk(); with CHECK_PURITY on, the operands (diagrams, sums, lists) must read the
    same afterwards - whether thunk returned or raised."""
    if not CHECK_PURITY:
        return thunk()
    before = [_snap(x) for x in operands]
    try:
        return thunk()
    finally:
        for k, (x, b) in enumerate(zip(operands, before)):
            if _snap(x) != b:
                raise PurityError("%s changed its argument #%d: %s -> %s" % (op_name, k, b[1][:200], _snap(x)[1][:200]))


def interp(c, p):
    """Evaluate program p in class c through the public API.  Returns a diagram
    or a list of diagrams."""
    op = p[0]
    if op == ID:
        return c.Id(c.ty(p[1]))
    if op == BOX:
        return c.box(p[1])
    if op == MK:
        return c.Diagram(c.ty(p[1]), c.ty(p[2]), [c.box(b) for b in p[3]], list(p[4]))
    if op == THEN:
        a = interp(c, p[1])
        b = interp(c, p[2])
        return _pure("then", [a, b], lambda: a >> b)
    if op == TENSOR:
        a = interp(c, p[1])
        b = interp(c, p[2])
        return _pure("tensor", [a, b], lambda: a @ b)
    if op == DAGGER:
        a = interp(c, p[1])
        return _pure("dagger", [a], lambda: a[::-1])
    if op == SLICE:
        return interp(c, p[1])[opt(p[2]):opt(p[3])]
    if op == SLICEREV:
        return interp(c, p[1])[opt(p[2]):opt(p[3]):-1]
    if op == GETITEM:
        return interp(c, p[1])[p[2]]
    if op == INTERCHANGE:
        a = interp(c, p[1])
        return _pure("interchange", [a], lambda: a.interchange(p[2], p[3], left=bool(p[4])))
    if op == NORMALIZE:
        d = interp(c, p[1])
        steps = list(itertools.islice(
            monoidal.Diagram.normalize(d, left=bool(p[2])), TRACE_LIMIT + 1))
        if len(steps) > TRACE_LIMIT:
            raise OutOfFuel()
        return steps
    if op == NORMALFORM:
        d = interp(c, p[1])
        return monoidal.Diagram.normal_form(
            d, normalizer=bounded(monoidal.Diagram.normalize), left=bool(p[2]))
    if op == SWAP:
        return c.Diagram.swap(c.ty(p[1]), c.ty(p[2]))
    if op == PERMUTATION:
        perm = list(p[1])
        return _pure("permutation", [perm], lambda: c.Diagram.permutation(perm, c.ty(p[2])))
    if op == PERMUTE:
        a = interp(c, p[1])
        return _pure("permute", [a], lambda: a.permute(*p[2]))
    if op == CUPS:
        return c.Diagram.cups(c.ty(p[1]), c.ty(p[2]))
    if op == CAPS:
        return c.Diagram.caps(c.ty(p[1]), c.ty(p[2]))
    if op == TRANSPOSE:
        return interp(c, p[1]).transpose(left=bool(p[2]))
    if op == FUNCTOR:
        d = interp(c, p[3])
        F = make_functor(c, p[1], p[2])
        return _pure("functor application", [d], lambda: F(d))
    if op == FOLIATE:
        return list(interp(c, p[1]).foliate())
    if op == FOLIATION:
        return foliation_slices(interp(c, p[1]))
    raise AssertionError("bad opcode %r" % (op,))


class FoliationError(Exception):
    """d.foliation() is not a diagram of slices from d.dom to d.cod at offsets 0."""


def foliation_slices(d):
    """The boxes of d.foliation() (diagrams), after checking the outer diagram's shape."""
    fol = d.foliation()
    if fol.dom != d.dom or fol.cod != d.cod or list(fol.offsets) != len(fol.boxes) * [0]:
        raise FoliationError("foliation() has dom %r, cod %r, offsets %r" % (fol.dom, fol.cod, fol.offsets))
    return list(fol.boxes)


CALLABLE_FUNCTORS = False


def make_functor(c, obs, ars):
    """The functor of a FUNCTOR program: mappings given as dicts or, when
    CALLABLE_FUNCTORS is set, as plain callables."""
    ob = {c.ty([[n, 0]]): c.ty(t) for n, t in obs}
    ar = {c.box(b): interp(c, img) for b, img in ars}
    if CALLABLE_FUNCTORS:
        # a TOTAL callable, as user code would write it: it answers for any box it is handed
        # (building an image from the box's name and types), so that a library that wrongly
        # hands it a daggered box gets an answer that differs from F(box).dagger()
        types = c.Functor(lambda x: ob[x], {})

        def arf(f):
            if f in ar:
                return ar[f]
            return c.Box("n999", types(f.dom), types(f.cod))
        return c.Functor(lambda x: ob[x], arf)
    return c.Functor(ob, ar)


def bounded(normalizer):
    """normal_form's default normalizer, cut off after TRACE_LIMIT * passes worth
    of steps so that a non-terminating normalisation becomes OutOfFuel."""
    def wrapped(diagram, **params):
        count = 0
        for step in normalizer(diagram, **params):
            count += 1
            if count > 20000:
                raise OutOfFuel()
            yield step
    return wrapped


def observe(c, p, seconds=10.0):
    """Outcome of program p on the implementation, in the model's encoding."""
    try:
        v = with_timeout(seconds, interp, c, p)
    except OutOfFuel:
        return [1, ERR["OutOfFuel"]]
    except CaseTimeout:
        return [1, 101]
    except monoidal.VerifHookError:
        return [1, 102]
    except AssertionError:
        raise
    except Exception as exc:   # noqa: the class is the observation
        return [1, err_code(exc)]
    if isinstance(v, list):
        return [0, [1, [canon_diagram(d) for d in v]]]
    return [0, [0, canon_diagram(v)]]


def pretty(p):
    """Human-readable form of a program for samples and replays."""
    if not isinstance(p, list) or not p or not isinstance(p[0], int) or p[0] >= len(OPNAMES):
        return p
    return [OPNAMES[p[0]]] + [pretty(x) if isinstance(x, list) and x and isinstance(x[0], int)
                              and i in (0, 1, 2) and p[0] in (THEN, TENSOR, DAGGER, SLICE, SLICEREV,
                                                              GETITEM, INTERCHANGE, NORMALIZE, NORMALFORM,
                                                              PERMUTE, TRANSPOSE, FOLIATE, FOLIATION) and i == 0
                              else (pretty(x) if p[0] in (THEN, TENSOR) and i == 1 else x)
                              for i, x in enumerate(p[1:])]


# ---------------------------------------------------------------- formal sums
SOF, SADD, STHEN, STENSOR, SDAGGER = range(5)


def interp_sum(c, sp):
    op = sp[0]
    if op == SOF:
        terms = [interp(c, p) for p in sp[1]]
        dom = c.ty(sp[2][0]) if sp[2] else None
        cod = c.ty(sp[3][0]) if sp[3] else None
        return monoidal.Sum(terms, dom, cod)
    if op == SADD:
        a = interp_sum(c, sp[1])
        b = interp_sum(c, sp[2])
        return _pure("sum +", [a, b], lambda: a + b)
    if op == STHEN:
        a = interp_sum(c, sp[1])
        b = interp_sum(c, sp[2])
        return _pure("sum >>", [a, b], lambda: a >> b)
    if op == STENSOR:
        a = interp_sum(c, sp[1])
        b = interp_sum(c, sp[2])
        return _pure("sum @", [a, b], lambda: a @ b)
    if op == SDAGGER:
        a = interp_sum(c, sp[1])
        return _pure("sum dagger", [a], lambda: a[::-1])
    raise AssertionError("bad sum opcode %r" % (op,))


def canon_sum(s):
    if not isinstance(s, cat.Sum):
        raise AssertionError("expected a Sum, got %r" % (s,))
    return [[canon_diagram(t) for t in s.terms], canon_ty(s.dom), canon_ty(s.cod)]


def interp2(c, tagged):
    return interp(c, tagged[1]) if tagged[0] == 0 else interp_sum(c, tagged[1])


def observe2(c, tagged, seconds=10.0):
    """Outcome of a tagged program ([0, diagram program] | [1, sum program])."""
    if tagged[0] == 0:
        return observe(c, tagged[1], seconds)
    try:
        v = with_timeout(seconds, interp_sum, c, tagged[1])
    except CaseTimeout:
        return [1, 101]
    except monoidal.VerifHookError:
        return [1, 102]
    except AssertionError:
        raise
    except Exception as exc:   # noqa
        return [1, err_code(exc)]
    return [0, [2, canon_sum(v)]]
