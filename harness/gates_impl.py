"""Interpreter of the C11 program DSL (coq/Quantum/GatesProg.v) over the *real*
discopy.quantum imported from /repo, canonical observation of Circuit.eval(),
and -- written without any use of discopy -- the syntactic flattening of a
program into (offset, box) layers, the pytket reference matrix of every box
and the independent reference evaluation (ordered product of whiskered boxes).

Programs (nested int lists); a phase integer k is the DisCoPy phase k/16:
  gate1  [0, g, dag]  g = 0..5 for H S T X Y Z, dag = 1: the object G.dagger()
         [1, r, k]    r = 0..2 for Rx Ry Rz
  box    gate1 | [2] CZ | [3, gate1] Controlled(gate1) ([3,[0,3,0]] is the CX object)
         | [4, r, k] r = 0..2 for CU1 CRz CRx | [5] SWAP | [6, bits] Ket | [7, bits] Bra
         | [8, [n0..n15], d] scalar(sum_j n_j/d exp(i pi j/16)) | [9, k] sqrt(2 ** k)
  prog   [0, n, [[off, box], ...]]  Circuit(qubit ** n, qubit ** cod, boxes, offsets)
         [1, p] p.dagger() | [2, p, q] p >> q | [3, p, q] p @ q
         [4, p, a, b, []] rewire(p, a, b) | [4, p, a, b, [n]] rewire(p, a, b, dom=qubit ** n)
         [5, code, k]  (model only) the reference table Std at tket op `code`, phase k
Outcomes: [0, [dom, cod, flat complex ndarray]] (axes [in..., out...]) | [1, code]."""
import cmath
import json
import math

from common import import_repo, with_timeout, CaseTimeout

discopy = import_repo()
import numpy  # noqa: E402
from discopy.cat import AxiomError  # noqa: E402
from discopy.tensor import Tensor  # noqa: E402
from discopy.quantum.circuit import Circuit, qubit  # noqa: E402
from discopy.quantum import gates as _g  # noqa: E402

(CIRC, DAGGER, THEN, TENSOR, REWIRE, STD) = range(6)
(B_NAMED, B_ROT, B_CZ, B_CTRL, B_ROT2, B_SWAP, B_KET, B_BRA, B_SCALAR, B_SQRT) = range(10)
NAMED = ["H", "S", "T", "X", "Y", "Z"]
ROT1 = ["Rx", "Ry", "Rz"]
ROT2 = ["CU1", "CRz", "CRx"]
KIND = {B_NAMED: "named", B_ROT: "rot1", B_CZ: "CZ", B_CTRL: "controlled", B_ROT2: "rot2",
        B_SWAP: "SWAP", B_KET: "ket", B_BRA: "bra", B_SCALAR: "scalar", B_SQRT: "sqrt"}

# error codes of coq/Common/Base.v err_code
ERR = {"AxiomError": 1, "InterchangerError": 2, "IndexError": 3, "ValueError": 4,
       "TypeError": 5, "NotImplementedError": 6, "OutOfFuel": 7, "BadProgram": 8,
       "AttributeError": 9}
BAD_SHAPE = 96           # eval() array does not have 2 ** (dom + cod) entries
NOT_A_TENSOR = 97        # eval() returned something that is not a Tensor
TIMEOUT = 99
OTHER = 100              # 100 + index in UNKNOWN_CLASSES
UNKNOWN_CLASSES = []
COUNTS = {"timeout": 0, "unknown_exception": 0, "not_a_tensor": 0, "bad_shape": 0}
ATOL = 1e-9


def err_code(exc):
    """Exception *class* -> code."""
    if isinstance(exc, AxiomError):
        return ERR["AxiomError"]
    for cls, name in ((NotImplementedError, "NotImplementedError"), (ValueError, "ValueError"),
                      (IndexError, "IndexError"), (TypeError, "TypeError"),
                      (AttributeError, "AttributeError")):
        if isinstance(exc, cls):
            return ERR[name]
    name = type(exc).__name__
    if name not in UNKNOWN_CLASSES:
        UNKNOWN_CLASSES.append(name)
    COUNTS["unknown_exception"] += 1
    return OTHER + UNKNOWN_CLASSES.index(name)


def err_name(code):
    for name, c in ERR.items():
        if c == code:
            return name
    if code >= OTHER and code - OTHER < len(UNKNOWN_CLASSES):
        return UNKNOWN_CLASSES[code - OTHER]
    return {BAD_SHAPE: "bad-shape", NOT_A_TENSOR: "not-a-Tensor",
            TIMEOUT: "timeout"}.get(code, "code%d" % code)


# ------------------------------------------------------------------ numbers
def zeta(j):
    """exp(i*pi*j/16)"""
    return cmath.exp(1j * math.pi * (j % 32) / 16)


def scalar_value(nums, d):
    """sum_j n_j/d * exp(i*pi*j/16) as a Python complex."""
    return complex(sum((n / d) * zeta(j) for j, n in enumerate(nums) if n))


def phase(k):
    """DisCoPy phase (full turns) of the grid integer k: exact in binary."""
    return k / 16


def pow2(k):
    return 2 ** k if k >= 0 else 2.0 ** k


# ------------------------------------------------------------------ syntax (no discopy)
def box_dom(b):
    t = b[0]
    if t in (B_NAMED, B_ROT):
        return 1
    if t in (B_CZ, B_CTRL, B_ROT2, B_SWAP):
        return 2
    if t == B_BRA:
        return len(b[1])
    return 0


def box_cod(b):
    t = b[0]
    if t in (B_NAMED, B_ROT):
        return 1
    if t in (B_CZ, B_CTRL, B_ROT2, B_SWAP):
        return 2
    if t == B_KET:
        return len(b[1])
    return 0


def is_gate(b):
    """a unitary gate or SWAP (no Ket / Bra / scalar / sqrt)"""
    return b[0] in (B_NAMED, B_ROT, B_CZ, B_CTRL, B_ROT2, B_SWAP)


def gate1_dagger(g):
    if g[0] == B_NAMED:
        return [0, g[1], 1 - g[2]] if g[1] in (1, 2, 4) else list(g)
    return [1, g[1], -g[2]]


def box_dagger(b):
    """The box b.dagger() *should* be, written syntactically."""
    t = b[0]
    if t in (B_NAMED, B_ROT):
        return gate1_dagger(b)
    if t == B_CTRL:
        return [B_CTRL, gate1_dagger(b[1])]
    if t == B_ROT2:
        return [B_ROT2, b[1], -b[2]]
    if t == B_KET:
        return [B_BRA, list(b[1])]
    if t == B_BRA:
        return [B_KET, list(b[1])]
    if t == B_SCALAR:
        nums = list(b[1]) + [0] * (16 - len(b[1]))
        out = [0] * 16
        out[0] = nums[0]
        for j in range(1, 16):          # conj(zeta^j) = zeta^(32-j) = -zeta^(16-j)
            out[16 - j] = -nums[j]
        return [B_SCALAR, out, b[2]]
    return list(b)                      # CZ, SWAP, sqrt


def _width_after(n, layers):
    w = n
    for _, b in layers:
        w = max(w - box_dom(b), 0) + box_cod(b)
    return w


def _flat(p):
    """(dom, cod, [(off, box), ...]) of the circuit a program denotes, or None
    when the program contains a rewire (not flattened)."""
    op = p[0]
    if op == CIRC:
        layers = [(off, b) for off, b in p[2]]
        return p[1], _width_after(p[1], layers), layers
    if op == DAGGER:
        f = _flat(p[1])
        if f is None:
            return None
        dom, cod, layers = f
        return cod, dom, [(off, box_dagger(b)) for off, b in reversed(layers)]
    if op in (THEN, TENSOR):
        f, g = _flat(p[1]), _flat(p[2])
        if f is None or g is None:
            return None
        if op == THEN:
            return f[0], g[1], f[2] + g[2]
        return f[0] + g[0], f[1] + g[1], f[2] + [(f[1] + off, b) for off, b in g[2]]
    return None


def flatten(p):
    """Purely syntactic list of (offset, box) of the circuit p denotes (None with rewire)."""
    f = _flat(p)
    return None if f is None else f[2]


def flat_dom(p):
    f = _flat(p)
    return None if f is None else f[0]


def all_boxes(p):
    """Every box occurring in a program, as written."""
    if p[0] == CIRC:
        return [b for _, b in p[2]]
    if p[0] in (DAGGER, REWIRE):
        return all_boxes(p[1])
    if p[0] in (THEN, TENSOR):
        return all_boxes(p[1]) + all_boxes(p[2])
    return []


def has_rewire(p):
    if p[0] == REWIRE:
        return True
    if p[0] == DAGGER:
        return has_rewire(p[1])
    if p[0] in (THEN, TENSOR):
        return has_rewire(p[1]) or has_rewire(p[2])
    return False


# ------------------------------------------------------------------ pytket reference (no discopy)
from pytket.circuit import Op, OpType  # noqa: E402

# code -> (tket OpType name, parametrised, qubits): the rows of coq/Quantum/Std.v
STD_CODES = [("H", 0, 1), ("S", 0, 1), ("T", 0, 1), ("X", 0, 1), ("Y", 0, 1), ("Z", 0, 1),
             ("Sdg", 0, 1), ("Tdg", 0, 1), ("Rx", 1, 1), ("Ry", 1, 1), ("Rz", 1, 1),
             ("CX", 0, 2), ("CY", 0, 2), ("CZ", 0, 2), ("CH", 0, 2), ("CS", 0, 2),
             ("CSdg", 0, 2), ("SWAP", 0, 2), ("CU1", 1, 2), ("CRz", 1, 2), ("CRx", 1, 2),
             ("CRy", 1, 2)]


def tk_op(name, k=None):
    """pytket's own unitary of the op `name` ([out, in], qubit 0 most significant);
    tket counts half-turns: DisCoPy phase k/16 full turns = parameter k/8."""
    ty = getattr(OpType, name)
    op = Op.create(ty) if k is None else Op.create(ty, [k / 8])
    return numpy.array(op.get_unitary(), dtype=complex)


def std_unitary(code, k):
    name, par, _ = STD_CODES[code]
    return tk_op(name, k if par else None)


def tk_gate1(g):
    if g[0] == B_NAMED:
        name = NAMED[g[1]]
        if g[2] and name in ("S", "T"):
            name += "dg"
        return tk_op(name)
    return tk_op(ROT1[g[1]], g[2])


def tk_unitary(b):
    """Reference [out, in] matrix of a box (rectangular for Ket / Bra)."""
    t = b[0]
    if t in (B_NAMED, B_ROT):
        return tk_gate1(b)
    if t == B_CZ:
        return tk_op("CZ")
    if t == B_CTRL:                      # the definition: controlled version of its target
        u = numpy.zeros((4, 4), dtype=complex)
        u[0, 0] = u[1, 1] = 1
        u[2:, 2:] = tk_gate1(b[1])
        return u
    if t == B_ROT2:
        return tk_op(ROT2[b[1]], b[2])
    if t == B_SWAP:
        return tk_op("SWAP")
    if t in (B_KET, B_BRA):
        bits = b[1]
        idx = 0
        for x in bits:
            idx = 2 * idx + x
        v = numpy.zeros(2 ** len(bits), dtype=complex)
        v[idx] = 1
        return v.reshape((-1, 1)) if t == B_KET else v.reshape((1, -1))
    if t == B_SCALAR:
        return numpy.array([[scalar_value(b[1], b[2])]], dtype=complex)
    if t == B_SQRT:
        return numpy.array([[math.sqrt(2.0 ** b[1])]], dtype=complex)
    raise AssertionError("bad box %r" % (b,))


def controlled_selftest():
    """block_diag(1, U) against tket's own controlled ops, where they exist."""
    bad = []
    pairs = [([0, 3, 0], "CX", None), ([0, 4, 0], "CY", None), ([0, 5, 0], "CZ", None),
             ([0, 0, 0], "CH", None), ([0, 1, 0], "CS", None), ([0, 1, 1], "CSdg", None)]
    for k in range(-8, 40):
        pairs += [([1, 0, k], "CRx", k), ([1, 1, k], "CRy", k), ([1, 2, k], "CRz", k)]
    for g, name, k in pairs:
        if not numpy.allclose(tk_unitary([B_CTRL, g]), tk_op(name, k), atol=ATOL, rtol=0):
            bad.append((g, name))
    if not numpy.allclose(tk_unitary([B_CZ]), tk_unitary([B_CTRL, [0, 5, 0]]), atol=ATOL, rtol=0):
        bad.append(("CZ", "Controlled(Z)"))
    return len(pairs) + 1, bad


def reference(flat_boxes, n):
    """Independent evaluation: the ordered product of kron(I_left, U, I_right) over
    the layers, as a [out, in] matrix (2 ** cod x 2 ** n)."""
    m = numpy.eye(2 ** n, dtype=complex)
    w = n
    for off, b in flat_boxes:
        d, c = box_dom(b), box_cod(b)
        if off < 0 or off + d > w:
            raise ValueError("layer (%d, %r) does not fit on %d wires" % (off, b, w))
        layer = numpy.kron(numpy.kron(numpy.eye(2 ** off), tk_unitary(b)),
                           numpy.eye(2 ** (w - off - d)))
        m = layer @ m
        w = w - d + c
    return m


def act_on(g, a, b, n):
    """The 2**n x 2**n [out, in] matrix of the two-qubit matrix g ([out, in], 4x4)
    acting on qubits a (its first wire) and b (its second wire), identity elsewhere."""
    size = 2 ** n
    m = numpy.zeros((size, size), dtype=complex)
    for o in range(size):
        ob = [(o >> (n - 1 - q)) & 1 for q in range(n)]
        for i in range(size):
            ib = [(i >> (n - 1 - q)) & 1 for q in range(n)]
            if any(ob[q] != ib[q] for q in range(n) if q not in (a, b)):
                continue
            m[o, i] = g[2 * ob[a] + ob[b], 2 * ib[a] + ib[b]]
    return m


# ------------------------------------------------------------------ the implementation
_NAMED_OBJ = [_g.H, _g.S, _g.T, _g.X, _g.Y, _g.Z]
_ROT1_OBJ = [_g.Rx, _g.Ry, _g.Rz]
_ROT2_OBJ = [_g.CU1, _g.CRz, _g.CRx]


def mk_gate1(g):
    if g[0] == B_NAMED:
        obj = _NAMED_OBJ[g[1]]
        return obj.dagger() if g[2] else obj
    if g[0] == B_ROT:
        return _ROT1_OBJ[g[1]](phase(g[2]))
    raise AssertionError("bad gate1 %r" % (g,))


def mk_box(b):
    t = b[0]
    if t in (B_NAMED, B_ROT):
        return mk_gate1(b)
    if t == B_CZ:
        return _g.CZ
    if t == B_CTRL:
        if list(b[1]) == [0, 3, 0]:
            return _g.CX
        return _g.Controlled(mk_gate1(b[1]))
    if t == B_ROT2:
        return _ROT2_OBJ[b[1]](phase(b[2]))
    if t == B_SWAP:
        return _g.SWAP
    if t == B_KET:
        return _g.Ket(*b[1])
    if t == B_BRA:
        return _g.Bra(*b[1])
    if t == B_SCALAR:
        return _g.scalar(scalar_value(b[1], b[2]))
    if t == B_SQRT:
        return _g.sqrt(pow2(b[1]))
    raise AssertionError("bad box %r" % (b,))


def build(p):
    """The DisCoPy circuit of a program, through the public API, in Python's evaluation order."""
    op = p[0]
    if op == CIRC:
        n, layers = p[1], p[2]
        boxes = [mk_box(b) for _, b in layers]
        offsets = [off for off, _ in layers]
        cod = _width_after(n, [(off, b) for off, b in layers])
        return Circuit(qubit ** n, qubit ** cod, boxes, offsets)
    if op == DAGGER:
        return build(p[1]).dagger()
    if op == THEN:
        a = build(p[1])
        b = build(p[2])
        return a >> b
    if op == TENSOR:
        a = build(p[1])
        b = build(p[2])
        return a @ b
    if op == REWIRE:
        c = build(p[1])
        if p[4]:
            return _g.rewire(c, p[2], p[3], dom=qubit ** p[4][0])
        return _g.rewire(c, p[2], p[3])
    raise AssertionError("bad opcode %r" % (op,))


class _Odd(Exception):
    def __init__(self, code):
        Exception.__init__(self, code)
        self.code = code


def canon(c):
    """[dom, cod, flat complex array] of Circuit.eval() of the circuit c."""
    t = c.eval()
    if not isinstance(t, Tensor):
        COUNTS["not_a_tensor"] += 1
        raise _Odd(NOT_A_TENSOR)
    dom, cod = len(c.dom), len(c.cod)
    arr = numpy.asarray(t.array, dtype=complex)
    want = (2,) * (dom + cod) or (1,)
    if tuple(arr.shape) != want or len(t.dom) != dom or len(t.cod) != cod:
        COUNTS["bad_shape"] += 1
        raise _Odd(BAD_SHAPE)
    return [dom, cod, arr.flatten()]


def _guard(func, *args, seconds=10.0):
    try:
        return [0, with_timeout(seconds, func, *args)]
    except CaseTimeout:
        COUNTS["timeout"] += 1
        return [1, TIMEOUT]
    except AssertionError:
        raise
    except _Odd as exc:
        return [1, exc.code]
    except Exception as exc:   # noqa: the class is the observation
        return [1, err_code(exc)]


def observe(p, seconds=10.0):
    """Outcome of a program on the implementation."""
    return _guard(lambda: canon(build(p)), seconds=seconds)


def observe_with_dagger(p, seconds=10.0):
    """(outcome of p, outcome of build(p).dagger() or None when p fails)."""
    got = _guard(build, p, seconds=seconds)
    if got[0] == 1:
        return got, None
    c = got[1]
    out = _guard(canon, c, seconds=seconds)
    if out[0] == 1:
        return out, None
    return out, _guard(lambda: canon(c.dagger()), seconds=seconds)


# ------------------------------------------------------------------ outcomes
def model_to_complex(answer):
    """Model answer -> same shape as observe's outcome, entries as complex."""
    if answer[0] != 0:
        return [1, answer[1]]
    dom, cod, entries = answer[1]
    arr = numpy.zeros(len(entries), dtype=complex)
    for i, e in enumerate(entries):
        d = e[0]
        arr[i] = sum(((n / d) * zeta(j) for j, n in e[1:]), 0j)
    return [0, [dom, cod, arr]]


def same_outcome(a, b, atol=ATOL):
    if a[0] != b[0]:
        return False
    if a[0] == 1:
        return a[1] == b[1]
    (d1, c1, x), (d2, c2, y) = a[1], b[1]
    return d1 == d2 and c1 == c2 and x.shape == y.shape \
        and bool(numpy.allclose(x, y, atol=atol, rtol=0))


def out_in(outcome):
    """[out, in] matrix of a value outcome (the array has axes [in..., out...])."""
    dom, cod, arr = outcome[1]
    return arr.reshape((2 ** dom, 2 ** cod)).T


def jsonable(outcome):
    if outcome is None:
        return None
    if outcome[0] == 1:
        return [1, outcome[1], err_name(outcome[1])]
    dom, cod, arr = outcome[1]
    return [0, [dom, cod, [[round(float(z.real), 12), round(float(z.imag), 12)] for z in arr]]]


# ------------------------------------------------------------------ printing / replays
def _num(z):
    z = complex(z)
    if z.imag == 0:
        return repr(z.real)
    return repr(z)


def pretty_gate1(g):
    if g[0] == B_NAMED:
        return NAMED[g[1]] + (".dagger()" if g[2] else "")
    return "%s(%r)" % (ROT1[g[1]], phase(g[2]))


def pretty_box(b):
    t = b[0]
    if t in (B_NAMED, B_ROT):
        return pretty_gate1(b)
    if t == B_CZ:
        return "CZ"
    if t == B_CTRL:
        return "CX" if list(b[1]) == [0, 3, 0] else "Controlled(%s)" % pretty_gate1(b[1])
    if t == B_ROT2:
        return "%s(%r)" % (ROT2[b[1]], phase(b[2]))
    if t == B_SWAP:
        return "SWAP"
    if t in (B_KET, B_BRA):
        return "%s(%s)" % ("Ket" if t == B_KET else "Bra", ", ".join(str(x) for x in b[1]))
    if t == B_SCALAR:
        return "scalar(%s)" % _num(scalar_value(b[1], b[2]))
    if t == B_SQRT:
        return "sqrt(%r)" % (pow2(b[1]),)
    return "<bad box %r>" % (b,)


def pretty(p):
    """A Python expression over discopy.quantum for samples and replays."""
    op = p[0]
    if op == CIRC:
        layers = [(off, b) for off, b in p[2]]
        if not layers:
            return "Id(%d)" % p[1]
        if len(layers) == 1 and layers[0][0] == 0 and box_dom(layers[0][1]) == p[1]:
            return pretty_box(layers[0][1])
        return "Circuit(qubit ** %d, qubit ** %d, [%s], [%s])" % (
            p[1], _width_after(p[1], layers), ", ".join(pretty_box(b) for _, b in layers),
            ", ".join(str(off) for off, _ in layers))
    if op == DAGGER:
        return "%s.dagger()" % pretty(p[1])
    if op == THEN:
        return "(%s >> %s)" % (pretty(p[1]), pretty(p[2]))
    if op == TENSOR:
        return "(%s @ %s)" % (pretty(p[1]), pretty(p[2]))
    if op == REWIRE:
        return "rewire(%s, %d, %d%s)" % (pretty(p[1]), p[2], p[3],
                                          ", dom=qubit ** %d" % p[4][0] if p[4] else "")
    if op == STD:
        return "Std[%s, k=%d]" % (STD_CODES[p[1]][0], p[2])
    return "<bad program %r>" % (p,)


def show(p):
    """pretty form, outcome, and (when flattenable) the independent reference."""
    numpy.set_printoptions(precision=6, suppress=True, linewidth=160)
    print(pretty(p))
    out, dag = observe_with_dagger(p)
    if out[0] == 1:
        print("  -> raises", err_name(out[1]))
        return
    print("  eval [out, in] =\n", out_in(out))
    flat = flatten(p)
    if flat is not None:
        print("  reference (pytket matrices, ordered product) =\n", reference(flat, flat_dom(p)))
    if dag is not None and dag[0] == 0:
        print("  eval of .dagger() [out, in] =\n", out_in(dag))


def snippet(p):
    """Stand-alone shell command replaying one program against /repo."""
    return ("cd /verif/harness && PYTHONPATH=/repo /venv/bin/python -B -c \"import gates_impl as gi; "
            "print(gi.observe(%s))\"" % json.dumps(p, separators=(",", ":")))


def snippet_show(p):
    return ("cd /verif/harness && PYTHONPATH=/repo /venv/bin/python -B -c \"import gates_impl as gi; "
            "gi.show(%s)\"" % json.dumps(p, separators=(",", ":")))
