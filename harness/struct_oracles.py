"""Independent oracles on real DisCoPy diagrams shared by the C05 / C06 / C07
checks: wire identities, connectivity, exact tensor semantics, interchanger
classes."""
import itertools

import numpy


def wire_ids(d):
    """Follow wire identities: returns (consumed, produced, scans) where
    consumed[k] / produced[k] are the ids box k eats / emits and scans[k] is the
    list of ids on the open wires just before box k."""
    scan = [(-1, p) for p in range(len(d.dom))]
    consumed, produced, scans = [], [], []
    for k, (box, off) in enumerate(zip(d.boxes, d.offsets)):
        n = len(box.dom)
        scans.append(list(scan))
        consumed.append(scan[off:off + n])
        out = [(k, p) for p in range(len(box.cod))]
        produced.append(out)
        scan = scan[:off] + out + scan[off + n:]
    scans.append(list(scan))
    return consumed, produced, scans


def connected(d):
    """All boxes linked to one another through wires (boxes only; a diagram with
    fewer than two boxes is connected)."""
    n = len(d.boxes)
    if n < 2:
        return True
    consumed, _, _ = wire_ids(d)
    adj = {k: set() for k in range(n)}
    for j, ws in enumerate(consumed):
        for (i, _) in ws:
            if i >= 0:
                adj[i].add(j)
                adj[j].add(i)
    seen, todo = {0}, [0]
    while todo:
        k = todo.pop()
        for m in adj[k]:
            if m not in seen:
                seen.add(m)
                todo.append(m)
    return len(seen) == n


def adjacent_conflict(d, i):
    """Do boxes i and i+1 obstruct each other?  True when box i+1 consumes a wire
    produced by box i, or when one of them has no wire on the relevant side and
    sits strictly inside the other's span (planar obstruction)."""
    consumed, produced, scans = wire_ids(d)
    b0, b1 = d.boxes[i], d.boxes[i + 1]
    if set(produced[i]) & set(consumed[i + 1]):
        return True
    level = scans[i + 1]                     # open wires between the two boxes
    o0, o1 = d.offsets[i], d.offsets[i + 1]
    n0, n1 = len(b0.cod), len(b1.dom)
    if n0 and n1:
        return False                         # both have wires here and share none
    if not n0 and not n1:
        return False
    if not n0:                               # box i emits nothing: a gap position o0
        return o1 < o0 < o1 + n1
    return o0 < o1 < o0 + n0                 # box i+1 eats nothing: a gap position o1


def random_tensor_functor(rng, d, dims=(1, 2, 3)):
    """An integer interpretation of the objects and boxes of d (rigid-compatible:
    all windings of an object get the same dimension)."""
    from discopy import tensor, monoidal, rigid
    names = {}
    for t in [d.dom, d.cod] + [b.dom for b in d.boxes] + [b.cod for b in d.boxes]:
        for ob in t.objects:
            names.setdefault(ob.name, rng.choice(dims))
    arrays = {}

    def ob(t):
        return tensor.Dim(*[names[o.name] for o in t.objects]) if len(t) else tensor.Dim(1)

    class Ob(dict):
        def __getitem__(self, key):
            return ob(key)

    def ar(box):
        base = box.dagger() if box.is_dagger else box
        key = (base.name, tuple(o.name for o in base.dom.objects), tuple(o.name for o in base.cod.objects),
               repr(base.data))
        if key not in arrays:
            shape = [names[o.name] for o in base.dom.objects] + [names[o.name] for o in base.cod.objects]
            size = int(numpy.prod(shape)) if shape else 1
            arrays[key] = numpy.array([rng.randint(-2, 2) for _ in range(size)], dtype=object)
        return arrays[key]
    return tensor.Functor(Ob(), ar)


def semantics(functor, d):
    t = functor(d)
    return (tuple(t.dom), tuple(t.cod), tuple(int(x) for x in numpy.array(t.array).flatten()))


def interchanger_class(d, limit=400):
    """All diagrams reachable from d by legal adjacent interchanges (either flag)."""
    from discopy.rewriting import InterchangerError
    seen, todo = {repr(d): d}, [d]
    while todo and len(seen) <= limit:
        cur = todo.pop()
        for i in range(len(cur) - 1):
            for left in (False, True):
                try:
                    nxt = cur.interchange(i, i + 1, left=left)
                except InterchangerError:
                    continue
                key = repr(nxt)
                if key not in seen:
                    seen[key] = nxt
                    todo.append(nxt)
    return list(seen.values()), len(seen) > limit
