"""Interpreter of the C09 program DSL (coq/TFun/TFun.v, `fprog`) over the *real*
discopy.tensor imported from /repo, and canonical observation of the results
in the model's own wire encoding.

A case is {"prog": P, "style": S}.  P = [mode, obs, env, terms, main] is what the
model sees (request [30, P]):
  mode   0: F(main) for F = tensor.Functor(ob, ar) on rigid diagrams
         1: main.eval() on tensor diagrams (objects named by their dimension)
  obs    [[name, ints], ...]      image of the atomic type 'n<name>': the ints handed
                                  to Dim(...), or [k] for the int k
  env    [[box, def], ...]        def = [0, data] a literal array ([[re, im], ...])
                                        [1, n_in, n_out, dim] a tensor.Spider
                                        [2, j] the Bubble / Sum built from term j
  terms  [term, ...]              [0, dom, cod, boxes, offsets]  Diagram(...)
                                  [1, box]                       a single box
                                  [2, func, j]                   tensor.Bubble(term j, FUNCS[func])
                                  [3, [j, ...], dom, cod]        Sum([terms], dom, cod)
  main   index of the term evaluated
Types and boxes are in Core's encoding ([[name, z], ...], [kind, name, dom, cod,
dagger, []]).  S (invisible to the model, which only sees the function) says how
the interpretation is handed over: {"int_obs": [names given as a Python int],
"call_ob": bool, "call_ar": bool} (dict or callable).
Outcomes: [0, [dom, cod, [shape, data]]] / [1, code]."""
import json

from common import with_timeout, CaseTimeout, freeze
import tensor_impl as ti   # canonical arrays, exact-integer check; imports discopy from /repo (once)

discopy = ti.discopy
import numpy  # noqa: E402
from discopy import monoidal, rigid, tensor  # noqa: E402
from discopy.cat import AxiomError  # noqa: E402
from discopy.rewriting import InterchangerError  # noqa: E402
from discopy.tensor import Tensor, Dim  # noqa: E402

KBOX, KSWAP, KCUP, KCAP = 0, 1, 2, 3
DLIT, DSPIDER, DTERM = 0, 1, 2
TDIAG, TBOX, TBUBBLE, TSUM = 0, 1, 2, 3
ERR = ti.ERR
NOT_A_TENSOR, NON_INTEGER, TIMEOUT, OTHER = 97, 98, 99, 100
FUNCS = {0: (lambda x: int(not x)), 1: (lambda x: x * x), 2: (lambda x: x + 1)}
FUNC_SRC = {0: "lambda x: int(not x)", 1: "lambda x: x * x", 2: "lambda x: x + 1"}
COUNTS = {"non_integer": 0, "timeout": 0, "other_exception": {}}


def err_code(exc):
    if isinstance(exc, AxiomError):
        return ERR["AxiomError"]
    for cls, name in ((ValueError, "ValueError"), (IndexError, "IndexError"),
                      (TypeError, "TypeError"), (NotImplementedError, "NotImplementedError"),
                      (AttributeError, "AttributeError")):
        if isinstance(exc, cls):
            return ERR[name]
    name = type(exc).__name__
    COUNTS["other_exception"][name] = COUNTS["other_exception"].get(name, 0) + 1
    return OTHER


def err_name(code):
    for name, c in ERR.items():
        if c == code:
            return name
    return {NOT_A_TENSOR: "not-a-Tensor", NON_INTEGER: "non-integer-entry",
            TIMEOUT: "timeout", OTHER: "other(KeyError...)"}.get(code, "code%d" % code)


class Build:
    """The real objects denoted by a program."""

    def __init__(self, prog, style=None):
        self.mode, self.obs, self.env, self.terms, self.main = prog
        self.style = style or {}
        self.envmap = {freeze(b): d for b, d in self.env}
        self.cache = {}

    # ---- types and boxes
    def ty(self, t):
        if self.mode == 1:
            return Dim(*[n for n, _ in t])
        return rigid.Ty(*[rigid.Ob("n%d" % n, z) for n, z in t])

    def box(self, b):
        kind, name, dom, cod, dag, _ = b
        if kind == KSWAP:
            cls = tensor.Swap if self.mode == 1 else rigid.Swap
            return cls(self.ty(dom[:1]), self.ty(dom[1:]))
        if kind == KCUP:
            return rigid.Cup(self.ty(dom[:1]), self.ty(dom[1:]))
        if kind == KCAP:
            return rigid.Cap(self.ty(cod[:1]), self.ty(cod[1:]))
        if self.mode == 0:
            return rigid.Box("n%d" % name, self.ty(dom), self.ty(cod), _dagger=bool(dag))
        key = freeze([kind, name, cod, dom, 0, []] if dag else b)   # the array lives with the undaggered box
        d = self.envmap[key]
        if d[0] == DLIT:
            return tensor.Box("n%d" % name, self.ty(dom), self.ty(cod), ti.py_data(d[1]),
                              _dagger=bool(dag))
        if d[0] == DSPIDER:
            return tensor.Spider(d[1], d[2], d[3])
        return self.term(d[1])

    # ---- terms
    def term(self, j):
        if j not in self.cache:
            self.cache[j] = self._term(self.terms[j])
        return self.cache[j]

    def _term(self, t):
        if t[0] == TDIAG:
            cls = tensor.Diagram if self.mode == 1 else rigid.Diagram
            return cls(self.ty(t[1]), self.ty(t[2]), [self.box(b) for b in t[3]], list(t[4]))
        if t[0] == TBOX:
            return self.box(t[1])
        if t[0] == TBUBBLE:
            return tensor.Bubble(self.term(t[2]), FUNCS[t[1]])
        if t[0] == TSUM:
            cls = tensor.Sum if self.mode == 1 else monoidal.Sum
            return cls([self.term(j) for j in t[1]], self.ty(t[2]), self.ty(t[3]))
        raise AssertionError("bad term %r" % (t,))

    # ---- the interpretation (mode 0)
    def functor(self):
        ints = set(self.style.get("int_obs", []))
        ob = {}
        for name, img in self.obs:
            key = rigid.Ty("n%d" % name)
            if key not in ob:
                ob[key] = img[0] if (name in ints and len(img) == 1) else Dim(*img)
        ar = {}
        for b, d in self.env:
            if d[0] != DLIT:
                continue
            key = self.box(b)
            if key not in ar:
                ar[key] = ti.py_data(d[1])
        fob = (lambda t: ob[t]) if self.style.get("call_ob") else ob
        far = (lambda f: ar[f]) if self.style.get("call_ar") else ar
        return tensor.Functor(fob, far)

    def identity_functor(self):
        return tensor.Functor(ob=lambda x: x, ar=lambda f: f.array)

    def run(self):
        main = self.term(self.main)
        if self.mode == 0:
            return self.functor()(main)
        if isinstance(main, monoidal.Sum):
            # Sum.eval() starts Python's sum() from the int 0 (an empty Sum evaluates to 0,
            # not to a Tensor); the Functor branch starts from Tensor.zeros
            return self.identity_functor()(main)
        return main.eval()


def run_case(case):
    return Build(case["prog"], case.get("style")).run()


def canon_result(v):
    if not isinstance(v, Tensor):
        raise NotATensor()
    return ti.canon_tensor(v)


class NotATensor(Exception):
    pass


def observe_value(case, seconds=20.0):
    """(outcome, Tensor or None) of a case on the implementation."""
    try:
        v = with_timeout(seconds, run_case, case)
    except CaseTimeout:
        COUNTS["timeout"] += 1
        return [1, TIMEOUT], None
    except AssertionError:
        raise
    except Exception as exc:   # noqa: the class is the observation
        return [1, err_code(exc)], None
    try:
        return [0, canon_result(v)], v
    except NotATensor:
        return [1, NOT_A_TENSOR], None
    except ti.NonInteger:
        COUNTS["non_integer"] += 1
        return [1, NON_INTEGER], v


def observe(case, seconds=20.0):
    return observe_value(case, seconds)[0]


def numpy_observe(q, seconds=10.0):
    """[20, a, b, axes_a, axes_b] on the installed numpy."""
    def go(q):
        return numpy.tensordot(ti.np_array(q[1]), ti.np_array(q[2]), (list(q[3]), list(q[4])))
    try:
        v = with_timeout(seconds, go, q)
    except CaseTimeout:
        return [1, TIMEOUT]
    except Exception as exc:   # noqa
        return [1, err_code(exc)]
    try:
        return [0, ti.canon_array(v)]
    except ti.NonInteger:
        return [1, NON_INTEGER]


def request(case):
    """What is sent to runner/bin/tfun for a case."""
    return [30, case["prog"]]


# ------------------------------------------------------------------ replays
def show(case):
    print(json.dumps(case))
    if isinstance(case, list):
        print("  ->", numpy_observe(case))
        return
    try:
        print("  main =", Build(case["prog"], case.get("style")).term(case["prog"][4]))
    except Exception as exc:   # noqa
        print("  (construction raised %s)" % type(exc).__name__)
    print("  ->", observe(case))


def snippet(case, repo="/repo"):
    return ("cd /verif/harness && PYTHONPATH=%s /venv/bin/python -B -c 'import json, tfun_impl as t; "
            "t.show(json.loads(\"\"\"%s\"\"\"))'" % (repo, json.dumps(case, separators=(",", ":"))))
