import pyzx
from fractions import Fraction
_RealGraph = pyzx.Graph
class GraphAdapter:
    """gives list-valued inputs/outputs to the installed pyzx graph"""
    def __init__(self, g=None):
        object.__setattr__(self, '_g', g if g is not None else _RealGraph())
        object.__setattr__(self, 'inputs', list(self._g.inputs()))
        object.__setattr__(self, 'outputs', list(self._g.outputs()))
    def __getattr__(self, name):
        return getattr(self._g, name)
    def __setattr__(self, name, value):
        if name in ('inputs','outputs'): object.__setattr__(self, name, list(value))
        else: setattr(self._g, name, value)
    def add_vertex(self, ty=pyzx.VertexType.BOUNDARY, phase=None, **kw):
        if phase is not None and not isinstance(phase,(int,Fraction)):
            phase=Fraction(phase).limit_denominator(1<<20)
        return self._g.add_vertex(ty, phase=phase, **kw)
    def sync(self):
        self._g.set_inputs(tuple(self.inputs)); self._g.set_outputs(tuple(self.outputs)); return self._g
    def to_matrix(self):
        return self.sync().to_matrix()
def install():
    pyzx.Graph = lambda *a, **k: GraphAdapter()
