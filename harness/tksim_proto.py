import numpy as np, itertools
def simulate(tkc):
    """exact branching simulation: returns dict bits(tuple over all bits, index order)->prob"""
    nq=tkc.n_qubits; nb=len(tkc.bits)
    qidx={q:i for i,q in enumerate(sorted(tkc.qubits, key=lambda q:(q.reg_name,q.index)))}
    bidx={b:i for i,b in enumerate(sorted(tkc.bits, key=lambda b:(b.reg_name,b.index)))}
    st=np.zeros([2]*nq or [1],dtype=complex); st[(0,)*nq if nq else 0]=1
    branches=[(st,(0,)*nb)]
    for cmd in tkc.get_commands():
        name=cmd.op.type.name
        if name=='Measure':
            q=qidx[cmd.qubits[0]]; b=bidx[cmd.bits[0]]
            new=[]
            for st,bits in branches:
                for v in (0,1):
                    proj=np.zeros_like(st)
                    sl=[slice(None)]*nq; sl[q]=v
                    proj[tuple(sl)]=st[tuple(sl)]
                    if np.vdot(proj,proj).real>1e-15:
                        nbits=list(bits); nbits[b]=v
                        new.append((proj,tuple(nbits)))
            branches=new
        else:
            U=cmd.op.get_unitary(); k=len(cmd.qubits)
            U=U.reshape([2]*(2*k))  # out..., in...
            qs=[qidx[q] for q in cmd.qubits]
            new=[]
            for st,bits in branches:
                s=np.tensordot(U,st,(list(range(k,2*k)),qs))
                s=np.moveaxis(s,list(range(k)),qs)
                new.append((s,bits))
            branches=new
    dist={}
    for st,bits in branches:
        p=np.vdot(st,st).real
        dist[bits]=dist.get(bits,0)+p
    return dist
