"""Entry point: ./check Cxx --quick|--thorough"""
import importlib
import os
import sys


def main(argv):
    if not argv:
        print("usage: check <property> [--quick|--thorough]")
        return 2
    prop = argv[0].upper()
    tier = os.environ.get("VERIF_TIER", "quick")
    if "--thorough" in argv:
        tier = "thorough"
    if "--quick" in argv:
        tier = "quick"
    seed = int(os.environ.get("VERIF_SEED", "20260928"))
    if "--replay" in argv:
        path = argv[argv.index("--replay") + 1]
        import json
        with open(path) as fh:
            data = json.load(fh)
        print(data.get("what"))
        print(data.get("replay", "(no stand-alone snippet; see file)"))
        return 0
    # the thorough tiers keep hundreds of thousands of results alive; with the default thresholds
    # the full (generation-2) collections over that heap take seconds each and ran several times
    # inside a single fast case, which then looked like a watchdog timeout
    import gc
    gc.set_threshold(50000, 50, 200)
    mod = importlib.import_module("props." + prop.lower())
    try:
        return mod.run(tier, seed)
    except Exception:   # noqa: the machinery itself broke on this tree
        # a crash of the harness is not evidence that the property holds: report it as a
        # violation without a failing input, with the traceback as the replay, never as a pass
        import hashlib
        import json
        import traceback
        import common
        tb = traceback.format_exc()
        os.makedirs(common.REPLAYS, exist_ok=True)
        path = os.path.join(common.REPLAYS, "%s-crash-%s.json" % (
            prop, hashlib.sha1(tb.encode()).hexdigest()[:12]))
        with open(path, "w") as fh:
            json.dump({"property": prop, "what": "the check of %s crashed before it could decide the property; "
                       "the correspondence / oracles that no longer run are named in the traceback" % prop,
                       "failing_input_found": False, "traceback": tb.splitlines()[-40:]}, fh, indent=1)
        sys.stderr.write(tb)
        print("VIOLATION property=%s replay=%s no-failing-input-found" % (prop, path))
        return 1


if __name__ == "__main__":
    sys.exit(main(sys.argv[1:]))
