"""Entry point: ./check Cxx --quick|--thorough"""
import importlib
import os
import sys


def main(argv):
    if not argv:
        print("usage: check <property> [--quick|--thorough]")
        return 2
    prop = argv[0].upper()
    tier = os.environ.get("VERIF_TIER", "quick")
    if "--thorough" in argv:
        tier = "thorough"
    if "--quick" in argv:
        tier = "quick"
    seed = int(os.environ.get("VERIF_SEED", "20260928"))
    if "--replay" in argv:
        path = argv[argv.index("--replay") + 1]
        import json
        with open(path) as fh:
            data = json.load(fh)
        print(data.get("what"))
        print(data.get("replay", "(no stand-alone snippet; see file)"))
        return 0
    mod = importlib.import_module("props." + prop.lower())
    return mod.run(tier, seed)


if __name__ == "__main__":
    sys.exit(main(sys.argv[1:]))
