"""Oracle-only exercise of the diagram classes that have no structural model of
their own in Core (tensor, circuit, zx, biclosed, cartesian, cat): build random
values through the public API of each class, apply the generic operations, and
hand every diagram that comes back to a checker (C01's re-scan)."""
import itertools


def _ops(rng, d, others, check, note):
    """Generic operations on a diagram d; `others` supplies partners."""
    n = len(d)
    out = [("dagger", lambda: d[::-1]), ("dagger2", lambda: d[::-1][::-1]),
           ("slice", lambda: d[rng.randint(0, n):]), ("slice2", lambda: d[:rng.randint(0, n)]),
           ("revslice", lambda: d[rng.randint(0, max(n - 1, 0)):rng.randint(-1, n) if n else None:-1]),
           ("stride2", lambda: d[::2]), ("stride3", lambda: d[rng.randint(0, n)::3]),
           ("stride-2", lambda: d[::-2]), ("stride2-bounded", lambda: d[rng.randint(0, n):rng.randint(0, n):2]),
           ("tensor", lambda: d @ rng.choice(others)), ("tensor2", lambda: rng.choice(others) @ d)]
    if n:
        out.append(("getitem", lambda: d[rng.randrange(n)]))
    if n >= 2:
        i, j = rng.randrange(n), rng.randrange(n)
        out.append(("interchange", lambda: d.interchange(i, j, left=bool(rng.randint(0, 1)))))
        out.append(("normal_form", lambda: d.normal_form()))
        out.append(("foliation", lambda: d.foliation()))
        out.append(("flatten", lambda: d.foliation().flatten()))
        out.append(("depth", lambda: d.depth()))
    for name, f in out:
        try:
            r = f()
        except Exception as exc:   # noqa: refusals are fine here; the hook error is not
            if type(exc).__name__ == "VerifHookError":
                check(name, None, exc)
            note("refused:" + type(exc).__name__)
            continue
        if hasattr(r, "layers"):
            check(name, r, None)
            note("ok:" + name)


def tour(rng, n_cases, check, note):
    from discopy import cat, monoidal, rigid, tensor, biclosed, cartesian
    from discopy.quantum import circuit, gates, zx
    import sympy  # noqa
    # ---- tensor diagrams
    def tdiag():
        dims = [rng.choice([2, 3]) for _ in range(rng.randint(0, 3))]
        d = tensor.Id(tensor.Dim(*dims))
        for _ in range(rng.randint(0, 4)):
            scan = [x.name for x in d.cod.objects]
            k = rng.randint(0, min(2, len(scan)))
            off = rng.randint(0, len(scan) - k)
            r = rng.random()
            if r < 0.25 and k == 2:
                layer = tensor.Swap(tensor.Dim(scan[off]), tensor.Dim(scan[off + 1]))
            elif r < 0.4 and k == 2 and scan[off] == scan[off + 1]:
                layer = tensor.Diagram.cups(tensor.Dim(scan[off]), tensor.Dim(scan[off + 1]))
            elif r < 0.5:
                x = rng.choice([2, 3])
                layer = tensor.Diagram.caps(tensor.Dim(x), tensor.Dim(x))
                k = 0
            elif r < 0.6 and k >= 1:
                layer = tensor.Spider(k, rng.randint(0, 2), tensor.Dim(scan[off])) \
                    if len(set(scan[off:off + k])) == 1 else tensor.Id(tensor.Dim(*scan[off:off + k]))
            else:
                cod = [rng.choice([2, 3]) for _ in range(rng.randint(0, 2))]
                size = 1
                for x in scan[off:off + k] + cod:
                    size *= x
                layer = tensor.Box("b%d" % rng.randint(0, 3), tensor.Dim(*scan[off:off + k]), tensor.Dim(*cod),
                                   [rng.randint(-1, 2) for _ in range(size)])
            d = d >> tensor.Id(tensor.Dim(*scan[:off])) @ layer @ tensor.Id(tensor.Dim(*scan[off + k:]))
        return d
    # ---- circuits
    pool = [gates.H, gates.X, gates.Y, gates.Z, gates.S, gates.T, gates.CX, gates.CZ, gates.SWAP,
            gates.Rx(0.25), gates.Rz(0.5), gates.CRz(0.125), gates.Ket(0), gates.Ket(1, 0), gates.Bra(1),
            gates.Bits(1), circuit.Measure(), circuit.Discard(), circuit.Encode(), gates.Copy(), gates.Match(),
            gates.scalar(0.5), gates.sqrt(2),
            circuit.Measure(override_bits=True), circuit.Measure(destructive=False), circuit.Measure(2),
            circuit.Measure(destructive=False, override_bits=True),
            circuit.Encode(reset_bits=True), circuit.Encode(constructive=False),
            circuit.Encode(constructive=False, reset_bits=True), circuit.MixedState(), circuit.Discard(circuit.bit),
            circuit.Discard(circuit.qubit @ circuit.bit)]

    def cdiag():
        d = circuit.Id(circuit.qubit ** rng.randint(0, 2) @ circuit.bit ** rng.randint(0, 1))
        for _ in range(rng.randint(0, 5)):
            scan = d.cod
            g = rng.choice(pool)
            places = [i for i in range(len(scan) - len(g.dom) + 1) if scan[i:i + len(g.dom)] == g.dom]
            if not places:
                continue
            off = rng.choice(places)
            d = d >> circuit.Id(scan[:off]) @ g @ circuit.Id(scan[off + len(g.dom):])
        return d
    # ---- zx
    def zdiag():
        d = zx.Id(rng.randint(0, 3))
        for _ in range(rng.randint(0, 5)):
            w = len(d.cod)
            k = rng.randint(0, min(2, w))
            off = rng.randint(0, w - k)
            r = rng.random()
            if r < 0.2 and k == 2:
                g = zx.SWAP
            elif r < 0.35 and k == 1:
                g = zx.H
            elif r < 0.45:
                g, k = zx.scalar(0.5), 0
            else:
                g = rng.choice([zx.Z, zx.X])(k, rng.randint(0, 2), rng.choice([0, 0.25, 0.5]))
            d = d >> zx.Id(off) @ g @ zx.Id(w - off - k)
        return d
    # ---- cat arrows
    def adiag():
        obs = [cat.Ob("o%d" % i) for i in range(3)]
        cur = rng.choice(obs)
        d = cat.Id(cur)
        for _ in range(rng.randint(0, 4)):
            nxt = rng.choice(obs)
            d = d >> cat.Box("a%d" % rng.randint(0, 2), cur, nxt, **({"_dagger": True} if rng.random() < 0.2 else {}))
            cur = nxt
        return d
    makers = {"tensor": tdiag, "circuit": cdiag, "zx": zdiag}
    for cname, mk in makers.items():
        pool_d = [mk() for _ in range(8)]
        for k in range(n_cases):
            d = mk()
            check("build:" + cname, d, None)
            _ops(rng, d, pool_d, lambda nm, r, exc, c=cname: check(c + ":" + nm, r, exc), note)
    # circuit / zx / tensor specific constructions
    for _ in range(n_cases):
        n = rng.randint(0, 3)
        perm = list(range(n))
        rng.shuffle(perm)
        for name, f in [("Circuit.permutation", lambda: circuit.Circuit.permutation(perm)),
                        ("Circuit.cups", lambda: circuit.Circuit.cups(circuit.qubit ** n, circuit.qubit ** n)),
                        ("Circuit.caps", lambda: circuit.Circuit.caps(circuit.bit ** n, circuit.bit ** n)),
                        ("zx.permutation", lambda: zx.Diagram.permutation(perm)),
                        ("zx.cups", lambda: zx.Diagram.cups(rigid.PRO(n), rigid.PRO(n))),
                        ("zx.caps", lambda: zx.Diagram.caps(rigid.PRO(n), rigid.PRO(n))),
                        ("tensor.transpose", lambda: tdiag().transpose(left=bool(rng.randint(0, 1)))),
                        ("circuit2zx", lambda: zx.circuit2zx(cdiag_pure(rng, gates, circuit)))]:
            try:
                r = f()
            except Exception as exc:   # noqa
                if type(exc).__name__ == "VerifHookError":
                    check(name, None, exc)
                note("refused:" + type(exc).__name__)
                continue
            check(name, r, None)
            note("ok:" + name)
    # ---- operands whose wire types come from different families (named rigid / monoidal
    # types, PRO, Dim, bit / qubit): every combination is either refused or well-typed
    def mixers():
        x, y = rigid.Ty('x'), rigid.Ty('y')
        mx, my = monoidal.Ty('x'), monoidal.Ty('y')
        n = rng.randint(0, 2)
        makers_ = [lambda: rigid.Box('f', x, y), lambda: rigid.Box('f2', x @ y, x), lambda: rigid.Id(x),
                   lambda: rigid.Cup(x, x.r), lambda: rigid.Cap(x.r, x),
                   lambda: rigid.Box('g', rigid.PRO(1), rigid.PRO(1)), lambda: rigid.Box('g2', rigid.PRO(2), rigid.PRO(1)),
                   lambda: rigid.Id(rigid.PRO(n)), lambda: rigid.Box('h', rigid.PRO(1), y),
                   lambda: rigid.Box('h2', x, rigid.PRO(1)),
                   lambda: monoidal.Box('m', mx, my), lambda: monoidal.Id(mx), lambda: monoidal.Id(monoidal.PRO(n)),
                   lambda: monoidal.Box('p', monoidal.PRO(1), monoidal.PRO(2)),
                   lambda: monoidal.Box('q', monoidal.PRO(1), my),
                   zdiag, lambda: zx.Z(1, 2), lambda: zx.X(2, 1, 0.5), lambda: zx.Id(n), lambda: zx.H,
                   tdiag, lambda: tensor.Id(tensor.Dim(2)),
                   lambda: tensor.Box('t', tensor.Dim(2), tensor.Dim(2, 2), [1, 0, 0, 0, 0, 0, 0, 1]),
                   cdiag, lambda: circuit.Id(circuit.qubit), lambda: gates.H, lambda: gates.Ket(0),
                   lambda: circuit.Id(circuit.bit)]
        out = []
        for mk_ in makers_:
            try:
                out.append(mk_())
            except Exception as exc:   # noqa: a constructor may refuse mixed types
                note("refused:" + type(exc).__name__)
        return out
    t_box = tensor.Box('t', tensor.Dim(2), tensor.Dim(2, 2), [1, 0, 0, 0, 0, 0, 0, 1])
    corpus = [(t_box, monoidal.Box('p', monoidal.PRO(1), monoidal.PRO(2)), tensor.Id(tensor.Dim(2, 2))),   # F40
              (tensor.Id(tensor.Dim(2)), zx.X(2, 1, 0.5), tensor.Id(tensor.Dim(2))),
              (rigid.Id(rigid.PRO(1)), rigid.Box('f', rigid.Ty('x'), rigid.Ty('y')), rigid.Id(rigid.Ty('y'))),
              (zx.Z(1, 2), rigid.Box('f', rigid.Ty('x'), rigid.Ty('y')), zx.Id(2))]
    for k in range(6 * n_cases):
        a, b, c = corpus[k] if k < len(corpus) else (rng.choice(mixers()) for _ in range(3))
        for name, f in [("mix:tensor", lambda: a @ b), ("mix:tensor3", lambda: a @ b @ c),
                        ("mix:tensor-then", lambda: (a @ b) >> c), ("mix:then-tensor", lambda: (a >> b) @ c),
                        ("mix:then", lambda: a >> b), ("mix:tensor-dagger", lambda: (a @ b)[::-1]),
                        ("mix:tensor-then-swap", lambda: (a @ b) >> type(b).swap(b.cod[:1], a.cod[:1])
                         if hasattr(type(b), "swap") else None)]:
            try:
                r = f()
            except Exception as exc:   # noqa: refusals are fine
                if type(exc).__name__ == "VerifHookError":
                    check(name, None, exc)
                note("refused:" + type(exc).__name__)
                continue
            if hasattr(r, "layers"):
                check(name, r, None)
                note("ok:" + name)
    # ---- biclosed: applications and compositions fed with matching and nearly matching types
    # (one side of one slash changed): refused or well-typed
    def bty(depth):
        if depth == 0 or rng.random() < 0.35:
            return biclosed.Ty(rng.choice(["x", "y", "z"]))
        l, r = bty(depth - 1), bty(depth - 1)
        return (l << r) if rng.random() < 0.5 else (l >> r)

    def perturb(t, depth=2):
        if isinstance(t, (biclosed.Over, biclosed.Under)) and rng.random() < 0.8:
            side = rng.random() < 0.5
            l = perturb(t.left, depth - 1) if side else t.left
            r = t.right if side else perturb(t.right, depth - 1)
            return type(t)(l, r)
        return bty(1)
    for _ in range(6 * n_cases):
        a, b, c = bty(2), bty(2), bty(1)
        kind = rng.choice(["fa", "ba", "fc", "bc"])
        if kind == "fa":
            want, rule = [a << b, b], lambda: biclosed.FA(a << b)
        elif kind == "ba":
            want, rule = [a, a >> b], lambda: biclosed.BA(a >> b)
        elif kind == "fc":
            want, rule = [a << b, b << c], lambda: biclosed.FC(a << b, b << c)
        else:
            want, rule = [a >> b, b >> c], lambda: biclosed.BC(a >> b, b >> c)
        fed = list(want)
        if rng.random() < 0.7:
            k = rng.randrange(2)
            fed[k] = perturb(fed[k])
        w0, w1 = biclosed.Box('w0', biclosed.Ty(), fed[0]), biclosed.Box('w1', biclosed.Ty(), fed[1])
        for name, f in [("biclosed:apply", lambda: w0 @ w1 >> rule()),
                        ("biclosed:apply-id", lambda: biclosed.Id(fed[0] @ fed[1]) >> rule()),
                        ("biclosed:apply-dagger", lambda: (w0 @ w1 >> rule())[::-1]),
                        ("biclosed:mk", lambda: biclosed.Diagram(fed[0] @ fed[1], rule().cod, [rule()], [0]))]:
            try:
                r = f()
            except Exception as exc:   # noqa
                if type(exc).__name__ == "VerifHookError":
                    check(name, None, exc)
                note("refused:" + type(exc).__name__)
                continue
            if hasattr(r, "layers"):
                check(name, r, None)
                note("ok:" + name)
    # cat arrows built directly: the constructor refuses boxes that do not chain from dom to cod,
    # the empty list of boxes included
    for _ in range(n_cases):
        obs = [cat.Ob("o%d" % i) for i in range(3)]
        a, b, c = (rng.choice(obs) for _ in range(3))
        f, g = cat.Box("a0", a, b), cat.Box("a1", b, c)
        for name, args, ok in [("cat.Arrow(x, y, [])", (a, b, []), a == b), ("cat.Arrow(a, c, [f, g])", (a, c, [f, g]), True),
                               ("cat.Arrow(a, b, [f, g])", (a, b, [f, g]), b == c),
                               ("cat.Arrow(b, c, [f, g])", (b, c, [f, g]), a == b)]:
            try:
                r = cat.Arrow(*args)
            except Exception:   # noqa
                note("refused:" + name)
                continue
            if not ok:
                check(name, "cat-arrow-ill-typed: %s accepted although the boxes do not chain from dom to cod" % name, None)
            note("ok:" + name)
    # cat arrows: typing of plain arrows (no layers): dom/cod chain
    for _ in range(n_cases):
        d = adiag()
        for name, f in [("cat.build", lambda: d), ("cat.dagger", lambda: d[::-1]),
                        ("cat.slice", lambda: d[rng.randint(0, len(d)):]),
                        ("cat.revslice", lambda: d[rng.randint(0, max(len(d) - 1, 0))::-1])]:
            try:
                r = f()
            except Exception:   # noqa
                continue
            scan = r.dom
            ok = True
            for b in r.boxes:
                ok = ok and b.dom == scan
                scan = b.cod
            if not ok or scan != r.cod:
                check(name, "cat-arrow-ill-typed:%r" % (r,), None)
            note("ok:" + name)


def cdiag_pure(rng, gates, circuit):
    pool = [gates.H, gates.X, gates.Z, gates.CX, gates.CZ, gates.Rz(0.25), gates.Rx(0.5), gates.Ket(0), gates.Bra(0)]
    d = circuit.Id(circuit.qubit ** rng.randint(1, 2))
    for _ in range(rng.randint(0, 4)):
        scan = d.cod
        g = rng.choice(pool)
        places = [i for i in range(len(scan) - len(g.dom) + 1) if scan[i:i + len(g.dom)] == g.dom]
        if not places:
            continue
        off = rng.choice(places)
        d = d >> circuit.Id(scan[:off]) @ g @ circuit.Id(scan[off + len(g.dom):])
    return d
