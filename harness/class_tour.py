"""Oracle-only exercise of the diagram classes that have no structural model of
their own in Core (tensor, circuit, zx, biclosed, cartesian, cat): build random
values through the public API of each class, apply the generic operations, and
hand every diagram that comes back to a checker (C01's re-scan)."""
import itertools


def _ops(rng, d, others, check, note):
    """Generic operations on a diagram d; `others` supplies partners."""
    n = len(d)
    out = [("dagger", lambda: d[::-1]), ("dagger2", lambda: d[::-1][::-1]),
           ("slice", lambda: d[rng.randint(0, n):]), ("slice2", lambda: d[:rng.randint(0, n)]),
           ("revslice", lambda: d[rng.randint(0, max(n - 1, 0)):rng.randint(-1, n) if n else None:-1]),
           ("tensor", lambda: d @ rng.choice(others)), ("tensor2", lambda: rng.choice(others) @ d)]
    if n:
        out.append(("getitem", lambda: d[rng.randrange(n)]))
    if n >= 2:
        i, j = rng.randrange(n), rng.randrange(n)
        out.append(("interchange", lambda: d.interchange(i, j, left=bool(rng.randint(0, 1)))))
        out.append(("normal_form", lambda: d.normal_form()))
        out.append(("foliation", lambda: d.foliation()))
        out.append(("flatten", lambda: d.foliation().flatten()))
        out.append(("depth", lambda: d.depth()))
    for name, f in out:
        try:
            r = f()
        except Exception as exc:   # noqa: refusals are fine here; the hook error is not
            if type(exc).__name__ == "VerifHookError":
                check(name, None, exc)
            note("refused:" + type(exc).__name__)
            continue
        if hasattr(r, "layers"):
            check(name, r, None)
            note("ok:" + name)


def tour(rng, n_cases, check, note):
    from discopy import cat, monoidal, rigid, tensor, biclosed, cartesian
    from discopy.quantum import circuit, gates, zx
    import sympy  # noqa
    # ---- tensor diagrams
    def tdiag():
        dims = [rng.choice([2, 3]) for _ in range(rng.randint(0, 3))]
        d = tensor.Id(tensor.Dim(*dims))
        for _ in range(rng.randint(0, 4)):
            scan = [x.name for x in d.cod.objects]
            k = rng.randint(0, min(2, len(scan)))
            off = rng.randint(0, len(scan) - k)
            r = rng.random()
            if r < 0.25 and k == 2:
                layer = tensor.Swap(tensor.Dim(scan[off]), tensor.Dim(scan[off + 1]))
            elif r < 0.4 and k == 2 and scan[off] == scan[off + 1]:
                layer = tensor.Diagram.cups(tensor.Dim(scan[off]), tensor.Dim(scan[off + 1]))
            elif r < 0.5:
                x = rng.choice([2, 3])
                layer = tensor.Diagram.caps(tensor.Dim(x), tensor.Dim(x))
                k = 0
            elif r < 0.6 and k >= 1:
                layer = tensor.Spider(k, rng.randint(0, 2), tensor.Dim(scan[off])) \
                    if len(set(scan[off:off + k])) == 1 else tensor.Id(tensor.Dim(*scan[off:off + k]))
            else:
                cod = [rng.choice([2, 3]) for _ in range(rng.randint(0, 2))]
                size = 1
                for x in scan[off:off + k] + cod:
                    size *= x
                layer = tensor.Box("b%d" % rng.randint(0, 3), tensor.Dim(*scan[off:off + k]), tensor.Dim(*cod),
                                   [rng.randint(-1, 2) for _ in range(size)])
            d = d >> tensor.Id(tensor.Dim(*scan[:off])) @ layer @ tensor.Id(tensor.Dim(*scan[off + k:]))
        return d
    # ---- circuits
    pool = [gates.H, gates.X, gates.Y, gates.Z, gates.S, gates.T, gates.CX, gates.CZ, gates.SWAP,
            gates.Rx(0.25), gates.Rz(0.5), gates.CRz(0.125), gates.Ket(0), gates.Ket(1, 0), gates.Bra(1),
            gates.Bits(1), circuit.Measure(), circuit.Discard(), circuit.Encode(), gates.Copy(), gates.Match(),
            gates.scalar(0.5), gates.sqrt(2)]

    def cdiag():
        d = circuit.Id(circuit.qubit ** rng.randint(0, 2) @ circuit.bit ** rng.randint(0, 1))
        for _ in range(rng.randint(0, 5)):
            scan = d.cod
            g = rng.choice(pool)
            places = [i for i in range(len(scan) - len(g.dom) + 1) if scan[i:i + len(g.dom)] == g.dom]
            if not places:
                continue
            off = rng.choice(places)
            d = d >> circuit.Id(scan[:off]) @ g @ circuit.Id(scan[off + len(g.dom):])
        return d
    # ---- zx
    def zdiag():
        d = zx.Id(rng.randint(0, 3))
        for _ in range(rng.randint(0, 5)):
            w = len(d.cod)
            k = rng.randint(0, min(2, w))
            off = rng.randint(0, w - k)
            r = rng.random()
            if r < 0.2 and k == 2:
                g = zx.SWAP
            elif r < 0.35 and k == 1:
                g = zx.H
            elif r < 0.45:
                g, k = zx.scalar(0.5), 0
            else:
                g = rng.choice([zx.Z, zx.X])(k, rng.randint(0, 2), rng.choice([0, 0.25, 0.5]))
            d = d >> zx.Id(off) @ g @ zx.Id(w - off - k)
        return d
    # ---- cat arrows
    def adiag():
        obs = [cat.Ob("o%d" % i) for i in range(3)]
        cur = rng.choice(obs)
        d = cat.Id(cur)
        for _ in range(rng.randint(0, 4)):
            nxt = rng.choice(obs)
            d = d >> cat.Box("a%d" % rng.randint(0, 2), cur, nxt, **({"_dagger": True} if rng.random() < 0.2 else {}))
            cur = nxt
        return d
    makers = {"tensor": tdiag, "circuit": cdiag, "zx": zdiag}
    for cname, mk in makers.items():
        pool_d = [mk() for _ in range(8)]
        for k in range(n_cases):
            d = mk()
            check("build:" + cname, d, None)
            _ops(rng, d, pool_d, lambda nm, r, exc, c=cname: check(c + ":" + nm, r, exc), note)
    # circuit / zx / tensor specific constructions
    for _ in range(n_cases):
        n = rng.randint(0, 3)
        perm = list(range(n))
        rng.shuffle(perm)
        for name, f in [("Circuit.permutation", lambda: circuit.Circuit.permutation(perm)),
                        ("Circuit.cups", lambda: circuit.Circuit.cups(circuit.qubit ** n, circuit.qubit ** n)),
                        ("Circuit.caps", lambda: circuit.Circuit.caps(circuit.bit ** n, circuit.bit ** n)),
                        ("zx.permutation", lambda: zx.Diagram.permutation(perm)),
                        ("zx.cups", lambda: zx.Diagram.cups(rigid.PRO(n), rigid.PRO(n))),
                        ("zx.caps", lambda: zx.Diagram.caps(rigid.PRO(n), rigid.PRO(n))),
                        ("tensor.transpose", lambda: tdiag().transpose(left=bool(rng.randint(0, 1)))),
                        ("circuit2zx", lambda: zx.circuit2zx(cdiag_pure(rng, gates, circuit)))]:
            try:
                r = f()
            except Exception as exc:   # noqa
                if type(exc).__name__ == "VerifHookError":
                    check(name, None, exc)
                note("refused:" + type(exc).__name__)
                continue
            check(name, r, None)
            note("ok:" + name)
    # cat arrows: typing of plain arrows (no layers): dom/cod chain
    for _ in range(n_cases):
        d = adiag()
        for name, f in [("cat.build", lambda: d), ("cat.dagger", lambda: d[::-1]),
                        ("cat.slice", lambda: d[rng.randint(0, len(d)):]),
                        ("cat.revslice", lambda: d[rng.randint(0, max(len(d) - 1, 0))::-1])]:
            try:
                r = f()
            except Exception:   # noqa
                continue
            scan = r.dom
            ok = True
            for b in r.boxes:
                ok = ok and b.dom == scan
                scan = b.cod
            if not ok or scan != r.cod:
                check(name, "cat-arrow-ill-typed:%r" % (r,), None)
            note("ok:" + name)


def cdiag_pure(rng, gates, circuit):
    pool = [gates.H, gates.X, gates.Z, gates.CX, gates.CZ, gates.Rz(0.25), gates.Rx(0.5), gates.Ket(0), gates.Bra(0)]
    d = circuit.Id(circuit.qubit ** rng.randint(1, 2))
    for _ in range(rng.randint(0, 4)):
        scan = d.cod
        g = rng.choice(pool)
        places = [i for i in range(len(scan) - len(g.dom) + 1) if scan[i:i + len(g.dom)] == g.dom]
        if not places:
            continue
        off = rng.choice(places)
        d = d >> circuit.Id(scan[:off]) @ g @ circuit.Id(scan[off + len(g.dom):])
    return d
