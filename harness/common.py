"""Shared plumbing of the verification harness: wire format, model runners,
Coq build / assumption audit, evidence files, violation and known-finding
reporting.  Nothing in here knows about a particular property."""
import hashlib
import json
import os
import re
import signal
import subprocess
import sys
import time

VERIF = os.path.dirname(os.path.dirname(os.path.abspath(__file__)))
REPO = os.environ.get("VERIF_REPO", "/repo")
COQ = os.path.join(VERIF, "coq")
RUNNER_BIN = os.path.join(VERIF, "runner", "bin")
EVIDENCE = os.environ.get("VERIF_EVIDENCE_DIR", os.path.join(VERIF, "evidence"))
REPLAYS = os.environ.get("VERIF_REPLAYS_DIR", os.path.join(VERIF, "replays"))
HOOK_ENV = "DISCOPY_VERIF"


def import_repo():
    """Import discopy from /repo's *current working tree* (never a cached copy)."""
    os.environ[HOOK_ENV] = "1"
    sys.dont_write_bytecode = True
    if REPO not in sys.path:
        sys.path.insert(0, REPO)
    for name in list(sys.modules):
        if name == "discopy" or name.startswith("discopy."):
            del sys.modules[name]
    import discopy  # noqa
    path = os.path.dirname(os.path.abspath(discopy.__file__))
    assert path.startswith(os.path.abspath(REPO)), \
        "discopy imported from %s, not from %s" % (path, REPO)
    return discopy


# ------------------------------------------------------------------ wire format
def to_sexp(x):
    if isinstance(x, bool):
        return "1" if x else "0"
    if isinstance(x, int):
        return str(x)
    return "(" + " ".join(to_sexp(y) for y in x) + ")"


_TOK = re.compile(r"\(|\)|-?\d+")


def from_sexp(s):
    stack, cur = [], None
    for tok in _TOK.findall(s):
        if tok == "(":
            stack.append(cur)
            cur = []
        elif tok == ")":
            done, cur = cur, stack.pop()
            if cur is None:
                return done
            cur.append(done)
        else:
            if cur is None:
                return int(tok)
            cur.append(int(tok))
    raise ValueError("unbalanced: " + s[:80])


def freeze(x):
    return tuple(freeze(y) for y in x) if isinstance(x, (list, tuple)) else x


_FRESH = set()
_BUILD_LOCK = __import__("threading").RLock()
_FLOCK = {"fd": None, "depth": 0}


class build_lock:
    """Cross-process lock around everything that writes or reads .vo files and runner binaries
    (make, coqc on generated cases, runner/build.sh): checks started in parallel would otherwise
    compile the same dependency, or replace a runner another check is about to execute, at the
    same time.  Re-entrant within the process."""

    def __enter__(self):
        import fcntl
        _BUILD_LOCK.acquire()
        if _FLOCK["depth"] == 0:
            fd = os.open(os.path.join(COQ, ".build.lock"), os.O_CREAT | os.O_RDWR, 0o666)
            fcntl.flock(fd, fcntl.LOCK_EX)
            _FLOCK["fd"] = fd
        _FLOCK["depth"] += 1
        return self

    def __exit__(self, *exc):
        import fcntl
        _FLOCK["depth"] -= 1
        if _FLOCK["depth"] == 0:
            fcntl.flock(_FLOCK["fd"], fcntl.LOCK_UN)
            os.close(_FLOCK["fd"])
            _FLOCK["fd"] = None
        _BUILD_LOCK.release()
        return False


def model_entry(name):
    with open(os.path.join(VERIF, "runner", "models.txt")) as fh:
        for ln in fh:
            parts = ln.strip().split(":")
            if parts and parts[0] == name:
                return parts
    raise RuntimeError("no entry for %s in runner/models.txt" % name)


def ensure_runner(name):
    """Rebuild runner/bin/<name> when any model source is newer than it."""
    exe = os.path.join(RUNNER_BIN, name)
    if name in _FRESH:
        return exe
    with build_lock():
        if name in _FRESH:
            return exe
        entry = model_entry(name)
        vfile, target = entry[1], entry[2]
        extra = entry[3:4]
        newest = 0
        for root, _, files in os.walk(COQ):
            for f in files:
                if f.endswith(".v"):
                    newest = max(newest, os.path.getmtime(os.path.join(root, f)))
        newest = max(newest, os.path.getmtime(os.path.join(VERIF, "runner", "main.ml")))
        if not os.path.exists(exe) or os.path.getmtime(exe) < newest:
            ok, log = coq_build([target])
            if not ok:
                raise RuntimeError("coq build failed:\n" + "\n".join(log.splitlines()[-20:]))
            subprocess.run([os.path.join(VERIF, "runner", "build.sh"), name, vfile] + extra, check=True)
        _FRESH.add(name)
    return exe


def run_model(name, programs, timeout=1800):
    """Feed programs (nested int lists) to runner/bin/<name>; one answer each."""
    exe = ensure_runner(name)
    data = "\n".join(to_sexp(p) for p in programs) + "\n"
    out = subprocess.run(
        ["/bin/sh", "-c", "ulimit -s unlimited 2>/dev/null; exec " + exe],
        input=data.encode(), stdout=subprocess.PIPE, timeout=timeout, check=True)
    lines = out.stdout.decode().splitlines()
    if len(lines) != len(programs):
        raise RuntimeError("runner %s answered %d of %d programs"
                           % (name, len(lines), len(programs)))
    return [from_sexp(line) for line in lines]


def run_model_parallel(name, programs, jobs=8):
    if len(programs) < 2000 or jobs <= 1:
        return run_model(name, programs)
    from concurrent.futures import ThreadPoolExecutor
    size = (len(programs) + jobs - 1) // jobs
    chunks = [programs[i:i + size] for i in range(0, len(programs), size)]
    with ThreadPoolExecutor(jobs) as ex:
        parts = list(ex.map(lambda c: run_model(name, c), chunks))
    return [x for p in parts for x in p]


# ------------------------------------------------------------------ watchdog
class CaseTimeout(Exception):
    pass


_ARMED = [0]


def _alarm(signum, frame):
    if _ARMED[0]:
        raise CaseTimeout()


def with_timeout(seconds, func, *args):
    """Per-case watchdog.  The budget is CPU time of this process (ITIMER_PROF), not wall
    time, so that a loaded machine cannot turn a fast case into a spurious Timeout; a
    generous wall-clock alarm (20x) backs it up against a case that blocks without
    consuming CPU.  Both timers keep firing (every 0.1 s) after the first expiry: library code
    that swallows the exception (`except Exception: pass` inside a search loop) is interrupted
    again instead of running on unwatched.  The handler is disarmed before the timers are
    cancelled, so a late signal cannot turn a finished case into a timeout.
    A timeout during which the calling thread itself used less than half of the budget (the
    process time went to other threads, or the wall-clock backstop fired on a starved machine)
    is not an observation of the code under test: the case is run once more under a wall-clock
    budget of 60x before the timeout is reported."""
    t_thread, t_wall = time.thread_time(), time.time()
    try:
        return _with_timeout(seconds, 20 * seconds, func, *args)
    except CaseTimeout:
        used = time.thread_time() - t_thread
        if used >= 0.5 * seconds:
            raise
        SPURIOUS_TIMEOUTS.append((round(used, 2), round(time.time() - t_wall, 2), seconds))
        return _with_timeout(60 * seconds, 60 * seconds, func, *args)


SPURIOUS_TIMEOUTS = []


def _with_timeout(cpu_seconds, wall_seconds, func, *args):
    old_p = signal.signal(signal.SIGPROF, _alarm)
    old_a = signal.signal(signal.SIGALRM, _alarm)
    _ARMED[0] += 1
    signal.setitimer(signal.ITIMER_PROF, cpu_seconds, 0.1)
    signal.setitimer(signal.ITIMER_REAL, wall_seconds, 0.1)
    try:
        return func(*args)
    finally:
        _ARMED[0] -= 1
        armed = _ARMED[0]
        _ARMED[0] = 0
        signal.setitimer(signal.ITIMER_PROF, 0)
        signal.setitimer(signal.ITIMER_REAL, 0)
        signal.signal(signal.SIGPROF, old_p)
        signal.signal(signal.SIGALRM, old_a)
        _ARMED[0] = armed


# ------------------------------------------------------------------ Coq side
FORBIDDEN = re.compile(
    r"\b(Admitted|admit|Axiom|Axioms|Parameter|Parameters|Conjecture|Conjectures|"
    r"Admit Obligations|bypass_check|Unset Guard Checking|Unset Positivity Checking|"
    r"Unset Universe Checking|type-in-type|impredicative-set)\b")
# axioms of the standard library that a Props file may legitimately depend on
ALLOWED_AXIOMS = {
    "Coq.Logic.FunctionalExtensionality.functional_extensionality_dep",
    "functional_extensionality_dep",
}


def strip_coq_comments(src):
    out, depth, i = [], 0, 0
    while i < len(src):
        if src.startswith("(*", i):
            depth += 1
            i += 2
        elif src.startswith("*)", i) and depth:
            depth -= 1
            i += 2
        else:
            if not depth:
                out.append(src[i])
            i += 1
    return "".join(out)


def coq_sources():
    with open(os.path.join(COQ, "_CoqProject")) as fh:
        return [ln.strip() for ln in fh if ln.strip().endswith(".v")]


def extract_sources():
    with open(os.path.join(VERIF, "runner", "models.txt")) as fh:
        return [os.path.join("Extract", ln.strip().split(":")[1]) for ln in fh if ln.strip()
                and os.path.exists(os.path.join(COQ, "Extract", ln.strip().split(":")[1]))]


def audit_sources(files=None):
    """grep for forbidden vernacular outside comments in the whole development."""
    bad = []
    for rel in files or coq_sources() + extract_sources():
        with open(os.path.join(COQ, rel)) as fh:
            src = strip_coq_comments(fh.read())
        for m in FORBIDDEN.finditer(src):
            bad.append("%s: %s" % (rel, m.group(0)))
        # Variable / Hypothesis outside a section
        depth = 0
        for line in src.splitlines():
            s = line.strip()
            if re.match(r"Section\b", s):
                depth += 1
            elif re.match(r"End\b", s) and depth:
                depth -= 1
            elif depth == 0 and re.match(r"(Variables?|Hypothes[ie]s|Context)\b", s):
                bad.append("%s: %s outside a section" % (rel, s.split()[0]))
    return bad


def coq_build(targets, jobs=8, timeout=3000):
    """Full .vo build (never -vos) of the given targets.  Returns (ok, log)."""
    with build_lock():
        return _coq_build(targets, jobs, timeout)


def _coq_build(targets, jobs, timeout):
    subprocess.run([os.path.join(VERIF, "tools", "gen_coqproject.sh")], check=True)
    mk = os.path.join(COQ, "Makefile")
    if (not os.path.exists(mk)
            or os.path.getmtime(mk) < os.path.getmtime(os.path.join(COQ, "_CoqProject"))):
        subprocess.run(["coq_makefile", "-f", "_CoqProject", "-o", "Makefile"],
                       cwd=COQ, check=True, stdout=subprocess.DEVNULL)
    proc = subprocess.run(
        ["timeout", str(timeout), "make", "-j%d" % jobs] + list(targets),
        cwd=COQ, stdout=subprocess.PIPE, stderr=subprocess.STDOUT)
    return proc.returncode == 0, proc.stdout.decode(errors="replace")


def check_props(prop_file):
    """Re-compile coq/Props/<prop_file>.v from scratch (its dependencies
    incrementally), and parse the Print Assumptions blocks it emits.
    Returns dict(ok, theorems=[(name, [axioms])], log, obligations, discharged)."""
    rel = "Props/%s.v" % prop_file
    vo = os.path.join(COQ, rel + "o")
    with build_lock():
        for ext in ("o", "os", "ok"):
            try:
                os.remove(os.path.join(COQ, rel + ext))
            except OSError:
                pass
        ok, log = coq_build([rel + "o"])
        others = [ln for ln in log.splitlines() if ln.startswith("COQC ") and ln.split()[-1] != rel]
        if ok and others:
            # stale dependencies were rebuilt in the same make and some lemma files print their own
            # `Print Assumptions`: compile the Props file once more, alone, so that the log holds
            # exactly its output
            for ext in ("o", "os", "ok"):
                try:
                    os.remove(os.path.join(COQ, rel + ext))
                except OSError:
                    pass
            ok, log = coq_build([rel + "o"])
    res = {"ok": ok, "log": log, "theorems": [], "bad_axioms": [], "audit": []}
    if not ok:
        return res
    with open(os.path.join(COQ, rel)) as fh:
        src = strip_coq_comments(fh.read())
    names = re.findall(r"Print Assumptions\s+([A-Za-z0-9_'.]+)\s*\.", src)
    stated = re.findall(r"^\s*(?:Theorem|Lemma|Corollary)\s+([A-Za-z0-9_']+)", src, re.M)
    # split the log into one block per Print Assumptions, in order
    blocks = re.split(r"(?m)^(?=Closed under the global context|Axioms:|Section Variables:)", log)
    blocks = [b for b in blocks if b.startswith(("Closed under", "Axioms:", "Section Variables:"))]
    merged = []
    for b in blocks:   # "Section Variables:" may be followed by an "Axioms:" block
        if b.startswith("Axioms:") and merged and merged[-1].startswith("Section Variables:") \
                and "Axioms:" not in merged[-1]:
            merged[-1] += b
        else:
            merged.append(b)
    if len(merged) != len(names):
        res["ok"] = False
        res["log"] += "\n[harness] %d Print Assumptions commands but %d output blocks" % (
            len(names), len(merged))
        return res
    for name, block in zip(names, merged):
        axioms = []
        if block.startswith("Axioms:") or "Axioms:" in block:
            body = block.split("Axioms:", 1)[1]
            for m in re.finditer(r"(?m)^([A-Za-z0-9_'.]+)\s*:", body):
                axioms.append(m.group(1))
        if block.startswith("Section Variables:"):
            res["bad_axioms"].append("%s depends on section variables" % name)
        for ax in axioms:
            if ax not in ALLOWED_AXIOMS and ax.split(".")[-1] not in ALLOWED_AXIOMS:
                res["bad_axioms"].append("%s depends on %s" % (name, ax))
        res["theorems"].append((name, axioms))
    missing = [t for t in stated if t not in names]
    if missing:
        res["bad_axioms"].append("no Print Assumptions for: " + ", ".join(missing))
    res["audit"] = audit_sources()
    res["ok"] = ok and not res["bad_axioms"] and not res["audit"]
    return res


# ------------------------------------------------------------------ reporting
class Report:
    """Collects what one run of one property's check covered and found."""

    def __init__(self, prop, tier, seed, level="proof"):
        self.prop, self.tier, self.seed, self.level = prop, tier, seed, level
        self.t0 = time.time()
        self.evaluations = 0
        self.distinct = set()
        self.samples = []
        self.hist = {}
        self.violations = []      # (what, replay_path, found_input)
        self.known = []
        self.notes = []
        self.theorems = []
        self.obligations = 0
        self.discharged = 0
        self.disagreements_checked = 0
        self.programs = 0
        self.extra = {}

    def count(self, key, n=1):
        self.hist[key] = self.hist.get(key, 0) + n

    def case(self, canonical, nontrivial=True, sample=None):
        self.evaluations += 1
        if nontrivial:
            self.distinct.add(hashlib.sha1(
                json.dumps(canonical, sort_keys=True, default=str).encode()).hexdigest())
        if sample is not None and len(self.samples) < 5:
            self.samples.append(sample)

    def violation(self, what, payload, found_input=True):
        os.makedirs(REPLAYS, exist_ok=True)
        blob = json.dumps(payload, sort_keys=True, default=str)
        h = hashlib.sha1(blob.encode()).hexdigest()[:12]
        path = os.path.join(REPLAYS, "%s-%s.json" % (self.prop, h))
        payload = dict(payload, property=self.prop, what=what,
                       failing_input_found=found_input)
        with open(path, "w") as fh:
            json.dump(payload, fh, indent=1, default=str)
        self.violations.append((what, path, found_input))

    def known_finding(self, fid, what):
        if (fid, what) not in self.known:
            self.known.append((fid, what))

    def finish(self, rule, trusted_base, assumptions, checker_cmd):
        # a finding is only excused when the committed known_findings.json lists it as
        # "known" for this property; a "fixed" entry (or no entry) suppresses nothing
        listed = {e["id"] for e in load_known_findings()
                  if e.get("status") == "known"
                  and (e.get("property") == self.prop or self.prop in e.get("also_affects", []))}
        for fid, what in list(self.known):
            if fid not in listed:
                self.known.remove((fid, what))
                self.violation("finding %s met but known_findings.json does not list it as known for %s "
                               "(fixed entries suppress nothing): %s" % (fid, self.prop, what),
                               {"finding": fid, "what": what})
        wall = time.time() - self.t0
        cov = {
            "evaluations": self.evaluations,
            "distinct_nontrivial": len(self.distinct),
            "rule": rule,
            "samples": self.samples or ["(no sample recorded)"],
            "obligations": self.obligations,
            "discharged": self.discharged,
            "checker_cmd": checker_cmd,
            "trusted_base": trusted_base,
            "programs": self.programs or self.evaluations,
            "disagreements_checked": self.disagreements_checked,
            "theorems": [{"name": n, "axioms": a} for n, a in self.theorems],
            "histograms": self.hist,
            "known_findings_met": [f for f, _ in self.known],
            "notes": self.notes,
        }
        cov.update(self.extra)
        ev = {
            "property_id": self.prop, "tier": self.tier, "seed": self.seed,
            "level": self.level, "coverage": cov, "assumptions": assumptions,
            "wall_s": round(wall, 2), "violations": len(self.violations),
        }
        os.makedirs(EVIDENCE, exist_ok=True)
        with open(os.path.join(EVIDENCE, "%s.json" % self.prop), "w") as fh:
            json.dump(ev, fh, indent=1, default=str)
        for fid, what in self.known:
            print("KNOWN-FINDING: property=%s %s: %s" % (self.prop, fid, what))
        seen = set()
        for what, path, found in self.violations:
            if path in seen:
                continue
            seen.add(path)
            if len(seen) > 10:
                continue
            print("VIOLATION property=%s replay=%s%s" % (
                self.prop, path, "" if found else " no-failing-input-found"))
        print("[%s] %s tier: %d evaluations, %d distinct non-trivial, %d/%d obligations, "
              "%d violation(s), %d known finding(s), %.1fs" % (
                  self.prop, self.tier, self.evaluations, len(self.distinct),
                  self.discharged, self.obligations, len(seen), len(self.known), wall))
        return 1 if self.violations else 0


def load_known_findings():
    path = os.path.join(VERIF, "known_findings.json")
    if not os.path.exists(path):
        return []
    with open(path) as fh:
        return json.load(fh)


def proof_stage(report, prop_file):
    """Stage 1 of every check: the theorems of Props/<prop_file>.v re-checked by coqc.
    A failure here is recorded and turned into a violation by the caller *after*
    the search for a failing input."""
    res = check_props(prop_file)
    report.theorems = res["theorems"]
    report.obligations = max(len(res["theorems"]), 1)
    report.discharged = len(res["theorems"]) if res["ok"] else 0
    if not res["ok"]:
        tail = "\n".join(res["log"].splitlines()[-25:])
        report.notes.append("proof stage failed: " + "; ".join(res["bad_axioms"] + res["audit"]) + "\n" + tail)
    return res["ok"]


# ------------------------------------------------------------------ in-Coq evaluation (cross-check of extraction)
def to_coq_sexp(x):
    if isinstance(x, bool):
        x = int(x)
    if isinstance(x, int):
        return "I (%d)" % x
    return "L [" + "; ".join(to_coq_sexp(y) for y in x) + "]"


_CTOK = re.compile(r"\[|\]|;|\(|\)|-?\d+|[A-Za-z_%]+")


def parse_coq_sexps(text):
    """Parse the printed value of `list sexp` (constructors I, L) back to nested lists."""
    toks = [t for t in _CTOK.findall(text) if t not in ("%Z", "Z")]
    pos = [0]

    def item():
        t = toks[pos[0]]
        if t == "(":
            pos[0] += 1
            v = item()
            assert toks[pos[0]] == ")", toks[pos[0]]
            pos[0] += 1
            return v
        if t == "I":
            pos[0] += 1
            return item()
        if t == "L":
            pos[0] += 1
            return lst()
        if re.fullmatch(r"-?\d+", t):
            pos[0] += 1
            return int(t)
        if t.endswith("%Z") and re.fullmatch(r"-?\d+", t[:-2]):
            pos[0] += 1
            return int(t[:-2])
        raise ValueError("unexpected token %r" % t)

    def lst():
        assert toks[pos[0]] == "[", toks[pos[0]]
        pos[0] += 1
        out = []
        while toks[pos[0]] != "]":
            out.append(item())
            if toks[pos[0]] == ";":
                pos[0] += 1
        pos[0] += 1
        return out
    return lst()


def coq_eval(requires, entry, programs, tag="xcheck"):
    """Evaluate `entry` (a Gallina function sexp -> sexp) on programs INSIDE coqc with
    vm_compute and return the answers; used to cross-check the extracted runner."""
    import tempfile
    d = tempfile.mkdtemp(prefix="dv_%s_" % tag, dir=os.path.join(VERIF, "runner", "gen"))
    try:
        src = ["From Coq Require Import List ZArith.", "Import ListNotations.",
               "Require Import %s." % " ".join(requires), "Open Scope Z_scope.",
               "Definition cases : list sexp := ["]
        src.append(";\n".join(to_coq_sexp(p) for p in programs))
        src.append("].")
        src.append("Eval vm_compute in (map %s cases)." % entry)
        path = os.path.join(d, "cases.v")
        with open(path, "w") as fh:
            fh.write("\n".join(src))
        with build_lock():      # reads .vo files another check might be rebuilding
            out = subprocess.run(
                ["/bin/sh", "-c", "ulimit -s unlimited 2>/dev/null; exec timeout 1200 coqc -Q %s DV %s" % (COQ, path)],
                stdout=subprocess.PIPE, stderr=subprocess.PIPE, cwd=d)
        if out.returncode != 0:
            raise RuntimeError("coqc failed on generated cases: " + out.stderr.decode()[-600:])
        text = out.stdout.decode()
        body = text[text.index("=") + 1:text.rindex(": list sexp")]
        return parse_coq_sexps(body)
    finally:
        import shutil
        shutil.rmtree(d, ignore_errors=True)


def cross_check_extraction(report, name, requires, entry, programs, rng, n=200):
    """Thorough tier: the same programs through vm_compute in coqc and through the
    extracted OCaml runner must give identical answers."""
    sample = programs if len(programs) <= n else rng.sample(programs, n)
    a = coq_eval(requires, entry, sample, tag=name)
    b = run_model(name, sample)
    bad = [(p, x, y) for p, x, y in zip(sample, a, b) if freeze(x) != freeze(y)]
    report.extra["extraction_cross_check"] = {"programs": len(sample), "differences": len(bad)}
    if bad:
        report.violation(
            "extracted runner %s and vm_compute disagree on %d program(s): extraction or driver bug" % (name, len(bad)),
            {"broken": "extraction:%s" % name, "first": {"program": bad[0][0], "coq": bad[0][1], "ocaml": bad[0][2]}},
            found_input=False)
