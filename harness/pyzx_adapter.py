"""In-process adapter between zx.py (written for an old pyzx) and the installed
pyzx 0.10.6.  TRUSTED: it is part of the environment of property C17, not of the
code under test.

What changed in pyzx since zx.py was written, and what the adapter restores:
  * `graph.inputs` / `graph.outputs` were list attributes (zx.py appends to them,
    concatenates them, iterates over them); they are methods now.  The adapter
    exposes list-valued attributes and pushes them into the real graph with
    `set_inputs` / `set_outputs` before anything of pyzx that needs them
    (`to_matrix`) is called (`sync`).
  * phases had to be accepted as floats; the installed pyzx insists on
    Fractions.  Floats are converted with `Fraction(x).limit_denominator(2**20)`
    (exact on the dyadic phases the check uses).
  * `edge_type` of a missing edge returned 0; the installed one raises
    ValueError (`EdgeType(0)`).  The adapter returns 0.
Everything else is delegated to the real `pyzx.graph.graph_s.GraphS`.
"""
from fractions import Fraction

import pyzx
from pyzx.graph.graph_s import GraphS

_RealGraph = pyzx.Graph if not getattr(pyzx.Graph, "_c17_adapter", False) else None


def _real_graph():
    return GraphS()


class GraphAdapter:
    """A pyzx graph with the API of the pyzx version zx.py was written for."""

    def __init__(self, g=None):
        object.__setattr__(self, "_g", g if g is not None else _real_graph())
        object.__setattr__(self, "inputs", list(self._g.inputs()))
        object.__setattr__(self, "outputs", list(self._g.outputs()))

    def __getattr__(self, name):
        return getattr(self._g, name)

    def __setattr__(self, name, value):
        if name in ("inputs", "outputs"):
            object.__setattr__(self, name, list(value))
        else:
            setattr(self._g, name, value)

    def add_vertex(self, ty=pyzx.VertexType.BOUNDARY, qubit=-1, row=-1, phase=None, **kw):
        if phase is not None and not isinstance(phase, (int, Fraction)):
            phase = Fraction(phase).limit_denominator(1 << 20)
        return self._g.add_vertex(ty, qubit=qubit, row=row, phase=phase, **kw)

    def edge_type(self, e):
        v1, v2 = e
        try:
            return self._g.graph[v1][v2]
        except KeyError:
            return 0

    def sync(self):
        self._g.set_inputs(tuple(self.inputs))
        self._g.set_outputs(tuple(self.outputs))
        return self._g

    def to_matrix(self, preserve_scalar=True):
        # the plain tensor contraction: the default ('auto' -> rank-width) strategy of the installed
        # pyzx first runs full_reduce on a copy, which raises KeyError on some graphs (seen in a
        # thorough run); the naive contraction touches nothing
        g = self.sync()
        try:
            return g.to_matrix(preserve_scalar, strategy='naive')
        except TypeError:
            return g.to_matrix(preserve_scalar)


def _factory(*args, **kwargs):
    return GraphAdapter()


_factory._c17_adapter = True


def install():
    """Make `from pyzx import Graph` (what zx.py does at call time) return adapters."""
    pyzx.Graph = _factory


def wrap(real_graph):
    """Adapter around an existing real pyzx graph (inputs/outputs read from it)."""
    return GraphAdapter(real_graph)
