"""Interpreter of the grammar programs (coq/Grammar/GProg.v) over the *real*
DisCoPy imported from /repo, and canonical observation of the results in the
model's wire encoding.

Names: boxes / words / rigid objects of the pregroup and CFG programs are
interned as 'n<k>' <-> k; atoms of biclosed types are arbitrary short strings,
interned as the base-256 number of b'\\x01' + name (coq: CCG.str_code)."""
import itertools
import random as _random

from common import import_repo, with_timeout, CaseTimeout

discopy = import_repo()
from discopy import cat, monoidal, rigid, biclosed  # noqa: E402
from discopy.grammar import pregroup, cfg, ccg      # noqa: E402

EAGER, BRUTE, B2R, CFG, TREE, CAT, OB = range(7)
OPNAMES = ["EagerParse", "BruteForce", "Biclosed2Rigid", "CfgGenerate", "Tree2Diagram",
           "Cat2Ty", "ObjectMap"]
XBOX, XFA, XBA, XFC, XBC, XFX, XBX, XCURRY = range(8)
KBOX, KSWAP, KCUP, KCAP = 0, 1, 2, 3
ERR = {"AxiomError": 1, "InterchangerError": 2, "IndexError": 3, "ValueError": 4,
       "TypeError": 5, "NotImplementedError": 6, "OutOfFuel": 7, "BadProgram": 8,
       "AttributeError": 9}


# ------------------------------------------------------------------ names
def str_code(s):
    b = s.encode("latin1")
    assert len(b) <= 6, "atom name too long for the wire format: %r" % (s,)
    return int.from_bytes(b"\x01" + b, "big")


def code_str(n):
    b = n.to_bytes((n.bit_length() + 7) // 8, "big")
    assert b[:1] == b"\x01", "not a string code: %r" % (n,)
    return b[1:].decode("latin1")


def name_int(name):
    if not (isinstance(name, str) and name[:1] == "n" and name[1:].lstrip("-").isdigit()):
        raise AssertionError("non-interned name %r" % (name,))
    return int(name[1:])


# ------------------------------------------------------------------ rigid side
def rty(t):
    return rigid.Ty(*[rigid.Ob("n%d" % n, z) for n, z in t])


def mty(t):
    """monoidal type of the CFG programs (no winding numbers)."""
    return monoidal.Ty(*["n%d" % n for n, _ in t])


def canon_ob(x, names=name_int):
    return [names(x.name), getattr(x, "z", 0)]


def canon_ty(t, names=name_int):
    return [canon_ob(x, names) for x in t.objects]


def canon_box(b, names=name_int):
    if isinstance(b, rigid.Cup):
        kind, name = KCUP, -2
    elif isinstance(b, rigid.Cap):
        kind, name = KCAP, -3
    elif isinstance(b, monoidal.Swap):
        kind, name = KSWAP, -1
    else:
        kind = KBOX
        if not isinstance(b, cat.Box):
            raise AssertionError("unexpected box %r" % (b,))
        name = name_int(b.name)
    data = [] if b.data is None else [int(b.data)]
    return [kind, name, canon_ty(b.dom, names), canon_ty(b.cod, names),
            1 if b.is_dagger else 0, data]


def canon_diagram(d, names=name_int):
    layers = d.layers
    return [canon_ty(d.dom, names), canon_ty(d.cod, names),
            [canon_box(b, names) for b in d.boxes], [int(o) for o in d.offsets],
            [canon_ty(layers.dom, names), canon_ty(layers.cod, names),
             [[canon_ty(left, names), canon_box(box, names), canon_ty(right, names)]
              for left, box, right in layers.boxes]]]


# ------------------------------------------------------------------ biclosed side
def bob(x):
    if x[0] == 0:
        return biclosed.Ty(code_str(x[1]))
    if x[0] == 1:
        return biclosed.Over(bty(x[1]), bty(x[2]))
    return biclosed.Under(bty(x[1]), bty(x[2]))


def bty(t):
    return biclosed.Ty().tensor(*[bob(x) for x in t])


def canon_bob(x):
    if isinstance(x, biclosed.Over):
        return [1, canon_bty(x.left), canon_bty(x.right)]
    if isinstance(x, biclosed.Under):
        return [2, canon_bty(x.left), canon_bty(x.right)]
    if not isinstance(x.name, str):
        raise AssertionError("unexpected biclosed object %r" % (x,))
    return [0, str_code(x.name)]


def canon_bty(t):
    if not isinstance(t, biclosed.Ty):
        raise AssertionError("not a biclosed type: %r" % (t,))
    return [canon_bob(x) for x in t.objects]


def bbox(b):
    k = b[0]
    if k == XBOX:
        return biclosed.Box("n%d" % b[1], bty(b[2]), bty(b[3]))
    if k == XFA:
        return biclosed.FA(bty(b[1]))
    if k == XBA:
        return biclosed.BA(bty(b[1]))
    if k in (XFC, XBC, XFX, XBX):
        cls = {XFC: biclosed.FC, XBC: biclosed.BC, XFX: biclosed.FX, XBX: biclosed.BX}[k]
        return cls(bty(b[1]), bty(b[2]))
    if k == XCURRY:
        inner = bdiagram(b[1], b[2], b[3], b[4], as_box=bool(b[7]) if len(b) > 7 else False)
        return biclosed.Curry(inner, b[5], bool(b[6]))
    raise AssertionError("bad box %r" % (b,))


def bdiagram(dom, cod, boxes, offs, as_box=False):
    """Build through the public constructors: boxes first (in order), then
    biclosed.Diagram(dom, cod, boxes, offsets).  as_box: hand over the box
    instance itself when the diagram is that single box (same value by ==)."""
    bs = [bbox(b) for b in boxes]
    d = biclosed.Diagram(bty(dom), bty(cod), bs, list(offs))
    if as_box and len(bs) == 1 and offs == [0] and bs[0] == d:
        return bs[0]
    return d


def canon_bbox(b):
    dom, cod = canon_bty(b.dom), canon_bty(b.cod)
    for k, cls in ((XFA, biclosed.FA), (XBA, biclosed.BA), (XFC, biclosed.FC), (XBC, biclosed.BC),
                   (XFX, biclosed.FX), (XBX, biclosed.BX)):
        if isinstance(b, cls):
            return [k, dom, cod]
    if isinstance(b, biclosed.Curry):
        return [XCURRY, dom, cod, canon_bdiagram(b.diagram), int(b.n_wires), 1 if b.left else 0]
    return [XBOX, name_int(b.name), dom, cod]


def canon_bdiagram(d):
    return [canon_bty(d.dom), canon_bty(d.cod), [canon_bbox(b) for b in d.boxes],
            [int(o) for o in d.offsets]]


def strip_flags(p):
    """The program as the model sees it: without the as_box hints."""
    def box(b):
        if b[0] == XCURRY:
            return [XCURRY, b[1], b[2], [box(x) for x in b[3]], b[4], b[5], b[6]]
        return b
    if p[0] == B2R:
        return [B2R, p[1], p[2], [box(b) for b in p[3]], p[4]]
    return p


# ------------------------------------------------------------------ trees
def tree_json(t):
    if t[0] == 0:
        return {"word": "n%d" % t[1], "cat": "".join(map(chr, t[2]))}
    typ = {0: "ba", 1: "fa", 2: "fc"}.get(t[1], "n%d" % t[1])
    return {"type": typ, "cat": "".join(map(chr, t[2])), "children": [tree_json(c) for c in t[3]]}


# ------------------------------------------------------------------ search cut-off
class StopSearch(Exception):
    pass


def brute_force_cut(vocab, target, n, m):
    """list(islice(brute_force(*vocab, target), n)), the search being cut off when
    the (m+1)-th candidate would be parsed."""
    real, calls = pregroup.eager_parse, [0]

    def counting(*words, **kw):
        if calls[0] >= m:
            raise StopSearch()
        calls[0] += 1
        return real(*words, **kw)
    pregroup.eager_parse = counting
    out = []
    try:
        for d in itertools.islice(pregroup.brute_force(*vocab, target=target), n):
            out.append(d)
    except StopSearch:
        pass
    finally:
        pregroup.eager_parse = real
    return out


def cfg_generate_recorded(p, seed):
    """Run CFG.generate with the real random.shuffle, recording every shuffle as
    a permutation (by identity of the elements)."""
    _, prods, start, ms, md, mi, rd, nt, _ = p
    boxes = [mbox(b) for b in prods]
    nt_boxes = [mbox(b) for b in nt]
    shuffles, real = [], _random.shuffle

    def recording(lst, *a, **kw):
        before = [id(x) for x in lst]
        real(lst, *a, **kw)
        shuffles.append([before.index(id(x)) for x in lst])
    _random.shuffle = recording
    try:
        out = list(cfg.CFG(*boxes).generate(
            mty(start), ms, md, max_iter=mi, remove_duplicates=bool(rd),
            not_twice=nt_boxes, seed=seed))
    finally:
        _random.shuffle = real
    return out, shuffles


def mbox(b):
    kind, name, dom, cod, dag, data = b
    assert kind == KBOX and not dag and not data
    if not dom and name >= 500:
        return cfg.Word("n%d" % name, mty(cod))
    return monoidal.Box("n%d" % name, mty(dom), mty(cod))


# ------------------------------------------------------------------ interpreter
def interp(p, aux=None):
    """Evaluate program p through the public API; returns the raw result."""
    op = p[0]
    if op == EAGER:
        words = [pregroup.Word("n%d" % n, rty(t)) for n, t in p[1]]
        return pregroup.eager_parse(*words, target=rty(p[2]))
    if op == BRUTE:
        vocab = [pregroup.Word("n%d" % n, rty(t)) for n, t in p[1]]
        return brute_force_cut(vocab, rty(p[2]), p[3], p[4])
    if op == B2R:
        d = bdiagram(p[1], p[2], p[3], p[4], as_box=bool(aux))
        return biclosed.biclosed2rigid(d)
    if op == CFG:
        out, shuffles = cfg_generate_recorded(p, aux)
        return out, shuffles
    if op == TREE:
        return ccg.tree2diagram(tree_json(p[1]))
    if op == CAT:
        return ccg.cat2ty("".join(map(chr, p[1])))
    if op == OB:
        return biclosed.biclosed2rigid(bty(p[1]))
    raise AssertionError("bad opcode %r" % (op,))


def err_code(exc):
    if isinstance(exc, cat.AxiomError):
        return ERR["AxiomError"]
    for name in ("IndexError", "ValueError", "TypeError", "NotImplementedError", "AttributeError"):
        if type(exc).__name__ == name:
            return ERR[name]
    return 100


def guarded(func, *args, seconds=10.0):
    """(0, value) or (1, error code); AssertionErrors of the harness propagate."""
    try:
        return 0, with_timeout(seconds, func, *args)
    except CaseTimeout:
        return 1, 101
    except monoidal.VerifHookError:
        return 1, 102
    except AssertionError:
        raise
    except Exception as exc:   # noqa: the class is the observation
        return 1, err_code(exc)


def observe(p, aux=None):
    """Outcome of p on the implementation in the model's encoding, plus the raw
    value (for the oracles) and, for CFG programs, the program completed with
    the recorded shuffles."""
    op = p[0]
    tag, v = guarded(interp, p, aux)
    if tag == 1:
        return [1, v], None, p
    if op == EAGER:
        return [0, canon_diagram(v)], v, p
    if op == BRUTE:
        return [0, [canon_diagram(d) for d in v]], v, p
    if op == B2R:
        return [0, canon_diagram(v, str_code)], v, p
    if op == CFG:
        out, shuffles = v
        q = p[:8] + [shuffles]
        return [0, [[canon_diagram(d) for d in out], 0]], out, q
    if op == TREE:
        tag2, img = guarded(biclosed.biclosed2rigid, v)
        sub = [0, canon_diagram(img, str_code)] if tag2 == 0 else [1, img]
        return [0, [canon_bdiagram(v), sub]], (v, img if tag2 == 0 else None), p
    if op == CAT:
        return [0, canon_bty(v)], v, p
    if op == OB:
        return [0, canon_ty(v, str_code)], v, p
    raise AssertionError(op)
