"""Implementation side of the C13 correspondence: builds DisCoPy circuits from the
integer DSL of coq/Tk/TkProg.v through the public API, runs to_tk / from_tk of the
real discopy.quantum.tk, and canonicalises what comes back (exact integers; dyadic
phases as (numerator, exponent); exception class).  Never looks at the model."""
from fractions import Fraction

import common

common.import_repo()

import pytket as tk                                      # noqa: E402
from discopy.cat import AxiomError                       # noqa: E402
from discopy.quantum import circuit as qc                # noqa: E402
from discopy.quantum import gates as qg                  # noqa: E402
from discopy.quantum import tk as dtk                    # noqa: E402
from discopy.quantum.circuit import (                    # noqa: E402
    Circuit, Id, bit, qubit, Swap, Measure, Discard, Encode, MixedState, Ty)

ERR = {"AxiomError": 1, "InterchangerError": 2, "IndexError": 3, "ValueError": 4,
       "TypeError": 5, "NotImplementedError": 6, "AttributeError": 9}

# ---------------------------------------------------------------- tables
GATE_NAMES = {1: "H", 2: "S", 3: "T", 4: "X", 5: "Y", 6: "Z", 7: "CX", 8: "CZ", 9: "CY",
              10: "CH", 11: "CS", 12: "Rx", 13: "Rz", 14: "CRz", 15: "Ry", 16: "CRx",
              17: "CU1", 18: "CT", 19: "SWAP"}
GATE_CODES = {v: k for k, v in GATE_NAMES.items()}
ROT = {12: qg.Rx, 13: qg.Rz, 14: qg.CRz, 15: qg.Ry, 16: qg.CRx, 17: qg.CU1}
FIXED = {1: qg.H, 2: qg.S, 3: qg.T, 4: qg.X, 5: qg.Y, 6: qg.Z, 7: qg.CX, 8: qg.CZ,
         9: qg.Controlled(qg.Y), 10: qg.Controlled(qg.H), 11: qg.Controlled(qg.S),
         18: qg.Controlled(qg.T)}
ARITY = {g: (1 if g in (1, 2, 3, 4, 5, 6, 12, 13, 15) else 2) for g in GATE_NAMES}

CLASSICAL = {   # id -> (name, n, m, data)
    1: ("NOT", 1, 1, [0, 1, 1, 0]),
    2: ("CNOTc", 2, 2, [1, 0, 0, 0, 0, 1, 0, 0, 0, 0, 0, 1, 0, 0, 1, 0]),
    3: ("Copy", 1, 2, None),
    4: ("Match", 2, 1, None),
    5: ("AND", 2, 1, [1, 0, 1, 0, 1, 0, 0, 1]),
    6: ("NOISE", 1, 1, [0.25, 0.75, 0.5, 0.5]),
    7: ("XORc", 2, 1, [1, 0, 0, 1, 0, 1, 1, 0]),
}
CLASSICAL_IDS = {v[0]: k for k, v in CLASSICAL.items()}
CLASSICAL_IDS["discard"] = 8     # the effect the F31 repair post-processes discarded bits with (Tk.discard_id)
SCALARS = {     # id -> (constructor, mixed)
    1: (lambda: qg.scalar(0.5), False),
    2: (lambda: qg.scalar(1j), False),
    3: (lambda: qg.sqrt(2), False),
    4: (lambda: qg.scalar(2, is_mixed=True), True),
    5: (lambda: qg.MixedScalar(0.25), True),
    6: (lambda: qg.scalar(-1.5 + 0.5j), False),
}
OTHERS = {1: lambda: Encode(), 2: lambda: MixedState(), 3: lambda: MixedState(bit)}


def wty(w):
    return qubit if w else bit


def ty(ws):
    t = Ty()
    for w in ws:
        t = t @ wty(w)
    return t


def canon_ty(t):
    out = []
    for ob in t:
        if ob.name == "qubit":
            out.append(1)
        elif ob.name == "bit":
            out.append(0)
        else:
            raise ValueError("wire %r" % (ob,))
    return out


def to_dy(x):
    """A dyadic float as (numerator, exponent) in normal form."""
    f = Fraction(x)
    den, e = f.denominator, 0
    while den > 1:
        if den % 2:
            raise ValueError("phase %r is not dyadic" % (x,))
        den //= 2
        e += 1
    return [f.numerator, e]


def from_dy(num, e):
    return num / float(2 ** e)


# ---------------------------------------------------------------- DSL -> DisCoPy
def build_box(b):
    k = b[0]
    if k == 0:
        return qg.Ket(*b[1])
    if k == 1:
        return qg.Bra(*b[1])
    if k == 2:
        x = qg.Bits(*b[1])
        return x.dagger() if b[2] else x
    if k == 3:
        g = b[1]
        if g in ROT:
            return ROT[g](from_dy(b[3], b[4]))
        return FIXED[g]
    if k == 4:
        return Swap(wty(b[1]), wty(b[2]))
    if k == 5:
        return Measure(b[1], destructive=bool(b[2]), override_bits=bool(b[3]))
    if k == 6:
        return Discard(ty(b[1]))
    if k == 7:
        return SCALARS[b[1]][0]()
    if k == 8:
        name, n, m, data = CLASSICAL[b[1]]
        if name == "Copy":
            return qg.Copy()
        if name == "Match":
            return qg.Match()
        return qg.ClassicalGate(name, n, m, data)
    if k == 9:
        return OTHERS[b[1]]()
    raise ValueError("box %r" % (b,))


def build_circuit(prog):
    """[dom, [[box, offset], ...]] -> Circuit, composing whiskered boxes with >> ."""
    dom, layers = prog
    c = Id(ty(dom))
    for b, off in layers:
        box = build_box(b)
        left = c.cod[:off]
        right = c.cod[off + len(box.dom):]
        c = c >> Id(left) @ box @ Id(right)
    return c


# ---------------------------------------------------------------- DisCoPy -> DSL
def canon_box(box):
    if isinstance(box, qg.Ket):
        return [0, [int(x) for x in box.bitstring]]
    if isinstance(box, qg.Bra):
        return [1, [int(x) for x in box.bitstring]]
    if isinstance(box, qg.Bits):
        return [2, [int(x) for x in box.bitstring], int(bool(box.is_dagger))]
    if isinstance(box, Swap):
        return [4] + canon_ty(box.left) + canon_ty(box.right)
    if isinstance(box, Measure):
        return [5, box.n_qubits, int(box.destructive), int(box.override_bits)]
    if isinstance(box, Discard):
        return [6, canon_ty(box.dom)]
    if isinstance(box, qg.Scalar):
        return [7, 0, int(bool(box.is_mixed))]
    if isinstance(box, qg.Rotation):
        g = GATE_CODES[box._name]
        return [3, g, len(box.dom)] + to_dy(box.phase)
    if isinstance(box, qg.QuantumGate):
        return [3, GATE_CODES.get(box.name, 99), len(box.dom), 0, 0]
    if isinstance(box, qg.ClassicalGate):
        return [8, CLASSICAL_IDS.get(box.name, 99), len(box.dom), len(box.cod)]
    if isinstance(box, Encode):
        return [9, 1, canon_ty(box.dom), canon_ty(box.cod)]
    if isinstance(box, MixedState):
        return [9, 2, canon_ty(box.dom), canon_ty(box.cod)]
    raise ValueError("box %r" % (box,))


def canon_circuit(c):
    return [canon_ty(c.dom), [[canon_box(b), int(o)] for b, o in zip(c.boxes, c.offsets)]]


def canon_pbox(box):
    if isinstance(box, Swap):
        return [0]
    if isinstance(box, qg.Bits):
        if not box.is_dagger:
            raise ValueError("Bits in post-processing")
        return [2, [int(x) for x in box.bitstring]]
    if isinstance(box, qg.ClassicalGate):
        return [1, CLASSICAL_IDS.get(box.name, 99), len(box.dom), len(box.cod)]
    raise ValueError("post-processing box %r" % (box,))


def canon_pp(d):
    return [len(d.dom), len(d.cod), [[canon_pbox(b), int(o)] for b, o in zip(d.boxes, d.offsets)]]


def raw_cmds(tkc):
    out = []
    for cmd in tkc.get_commands():
        name = cmd.op.type.name
        op = 0 if name == "Measure" else GATE_CODES.get(name, 99)
        par = to_dy(cmd.op.params[0]) if cmd.op.params else []
        out.append([op, par, [q.index[0] for q in cmd.qubits], [b.index[0] for b in cmd.bits]])
    return out


def cmds_normal_form(cmds):
    """Canonical form of a command list modulo commutation of commands on disjoint
    units (pytket's get_commands() returns *a* topological order of the circuit
    DAG, not the insertion order): the per-unit projections.  Two command lists
    are equal in the trace monoid iff all their projections are."""
    proj = {}
    for c in cmds:
        op, par, qs, bs = c
        for u in [(1, q) for q in qs] + [(0, b) for b in bs]:
            proj.setdefault(u, []).append([op, par, qs, bs])
    return [[list(u), proj[u]] for u in sorted(proj)]


def canon_tk(tkc):
    """Exact syntactic observation of a discopy tk.Circuit (scalar excluded)."""
    return [tkc.n_qubits, len(tkc.bits), cmds_normal_form(raw_cmds(tkc)),
            [[int(k), int(v)] for k, v in sorted(tkc.post_selection.items())],
            canon_pp(tkc.post_processing)]


def model_tk_view(mt):
    """The same observation computed from the model's answer."""
    nq, nb, cmds, psel, scal, pp = mt
    return [nq, nb, cmds_normal_form(cmds), sorted(psel), pp]


def scalar_of_factors(factors):
    """tk.Circuit.scale is called with array[0] (mixed) or abs(array[0]) ** 2."""
    s = 1
    for sid, mixed in factors:
        box = SCALARS[sid][0]()
        s = s * (box.array[0] if mixed else abs(box.array[0]) ** 2)
    return s


def tk_to_model(tkc):
    """A (possibly plain pytket) circuit as the model's from_tk input: what from_tk itself
    iterates over, i.e. get_commands() of the upgraded circuit."""
    if not isinstance(tkc, dtk.Circuit):
        tkc = dtk.Circuit.upgrade(tkc)
    psel = getattr(tkc, "post_selection", {}) or {}
    pp = getattr(tkc, "post_processing", None)
    nb = len(tkc.bits)
    ppc = canon_pp(pp) if pp is not None else [nb, nb, []]
    scalar = getattr(tkc, "scalar", 1)
    return [[tkc.n_qubits, nb, raw_cmds(tkc), [[int(k), int(v)] for k, v in sorted(psel.items())],
             [], ppc], int(scalar != 1)]


def outcome(func, *args):
    try:
        return [0, func(*args)]
    except Exception as exc:   # noqa
        return [1, ERR.get(type(exc).__name__, 99)]


def observe_to_tk(prog):
    def go():
        c = build_circuit(prog)
        return canon_tk(c.to_tk())
    return outcome(go)


def observe_from_tk(tkc):
    return outcome(lambda: canon_circuit(Circuit.from_tk(tkc)))


# ---------------------------------------------------------------- pretty
def pretty(prog):
    try:
        return str(build_circuit(prog))
    except Exception as exc:  # noqa
        return "<unbuildable %s>" % type(exc).__name__
