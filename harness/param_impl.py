"""Interpreter of the parametrised-box program DSL (coq/Param/ParamProg.v) over
the *real* DisCoPy imported from /repo, and canonical observation of its
results in the model's own wire encoding.

Expressions travel as canonical multivariate polynomials over Q:
    expr = [is_sympy, [[[[sym, exp], ...], num, den], ...]]
computed from the implementation's sympy expression with sympy.Poly(...).terms()
(Float coefficients are converted exactly; the generators only use dyadic
floats).  Symbols are s1, s2, ... (real), interned as 1, 2, ...

Reused by C15 (gradients): sym, build_expr, enc_expr, build_box, canon_box,
build_diagram, canon_diagram, CLASSES."""
from fractions import Fraction

import numpy
import sympy

from common import import_repo, with_timeout, CaseTimeout

discopy = import_repo()
from discopy import cat, monoidal, rigid, tensor  # noqa: E402
from discopy.quantum import circuit, gates, zx, cqmap  # noqa: E402

# opcodes (dec_prog in coq/Param/ParamProg.v)
DIAG, SUM, TENS, SUBS, LAMBDIFY, FREE, EVALSTATUS, CQSUBS = range(8)
# classes
CCAT, CMON, CRIG, CTEN, CCIRC, CZX = range(6)
CLASSES = ["cat", "monoidal", "rigid", "tensor", "circuit", "zx"]
# kinds
KGEN, KROT, KQSCALAR, KMIXEDSCALAR, KSQRT, KCLASSICAL, KSPIDER, KZSCALAR = range(8)

ERR = {"AxiomError": 1, "ValueError": 4, "TypeError": 5, "BadProgram": 8,
       "AttributeError": 9, "NameError": 10}

ROTATIONS = {1: gates.Rx, 2: gates.Ry, 3: gates.Rz, 4: gates.CU1, 5: gates.CRz, 6: gates.CRx}
ROT_WIDTH = {1: 1, 2: 1, 3: 1, 4: 2, 5: 2, 6: 2}
SPIDERS = {1: zx.Z, 2: zx.X, 3: zx.Y}

BIT, QUBIT = 1, 2


def _lib_circuit():
    g = gates
    c = circuit
    return {
        1: g.H, 2: g.X, 3: g.Z, 4: g.CX, 5: g.SWAP, 6: g.Ket(0), 7: g.Ket(1),
        8: g.Bra(0), 9: g.Bra(1), 10: c.Measure(), 11: c.Discard(), 12: g.S,
        13: g.S.dagger(), 14: c.Encode(), 15: c.MixedState(), 16: g.CZ, 17: g.T,
        18: c.Swap(c.bit, c.qubit), 19: c.Swap(c.qubit, c.bit), 20: c.Swap(c.bit, c.bit),
    }


LIB_CIRCUIT = _lib_circuit()
LIB_CLASSICAL = {1: gates.Bits(0), 2: gates.Bits(1), 3: gates.Copy(), 4: gates.Match(),
                 5: gates.Bits(0).dagger()}
CLASSICAL_NAMES = {"Bits(0)": 1, "Bits(1)": 2, "Copy": 3, "Match": 4}
LIB_ZX = {1: zx.H, 2: zx.SWAP}


def sym(k):
    return sympy.Symbol("s%d" % k, real=True)


def sym_id(s):
    name = s.name
    if not (name.startswith("s") and name[1:].isdigit()):
        raise ValueError("foreign symbol %r" % (s,))
    return int(name[1:])


# ------------------------------------------------------------------ expressions
def build_expr(e):
    """wire expression -> Python number (is_sympy = 0) or sympy expression."""
    flag, terms = e
    if not flag:
        if not terms:
            return 0
        (mono, num, den), = terms
        assert mono == []
        return num if den == 1 else num / den
    out = sympy.Integer(0)
    for mono, num, den in terms:
        t = sympy.Rational(num, den)
        for x, k in mono:
            t = t * sym(x) ** k
        out = out + t
    return out


def enc_expr(x):
    """Python / numpy / sympy value -> canonical wire expression."""
    flag = 1 if isinstance(x, sympy.Basic) else 0
    if not flag:
        if isinstance(x, (bool, numpy.bool_)):
            x = int(x)
        if isinstance(x, (int, numpy.integer)):
            fr = Fraction(int(x))
        elif isinstance(x, (float, numpy.floating)):
            fr = Fraction(float(x))
        elif isinstance(x, (complex, numpy.complexfloating)) and complex(x).imag == 0:
            fr = Fraction(complex(x).real)
        else:
            raise ValueError("not a number of the fragment: %r" % (x,))
        return [0, [] if fr == 0 else [[[], fr.numerator, fr.denominator]]]
    e = x.xreplace({f: sympy.Rational(f) for f in x.atoms(sympy.Float)})
    syms = sorted(e.free_symbols, key=sym_id)
    if not syms:
        e = sympy.nsimplify(e)
        if not e.is_Rational:
            raise ValueError("not a rational: %r" % (x,))
        return [1, [] if e == 0 else [[[], int(e.p), int(e.q)]]]
    poly = sympy.Poly(e, *syms, domain="QQ")
    terms = []
    for mon, c in poly.terms():
        c = sympy.Rational(c)
        terms.append([[[sym_id(s), int(k)] for s, k in zip(syms, mon) if k], int(c.p), int(c.q)])
    terms.sort(key=lambda t: t[0])
    return [1, terms]


def build_data(data):
    if not data:
        return None
    if data[0] == 0:
        return build_expr(data[1])
    return [build_expr(e) for e in data[1]]


def enc_data(data):
    if data is None:
        return []
    if isinstance(data, (list, tuple, numpy.ndarray)):
        flat = list(numpy.array(data, dtype=object).flatten()) if isinstance(data, numpy.ndarray) \
            else list(data)
        return [1, [enc_expr(x) for x in flat]]
    return [0, enc_expr(data)]


# ------------------------------------------------------------------ types
def build_ty(cls, t):
    if cls == CCAT:
        assert len(t) == 1
        return cat.Ob("o%d" % t[0])
    if cls == CMON:
        return monoidal.Ty(*["o%d" % n for n in t])
    if cls == CRIG:
        return rigid.Ty(*["o%d" % n for n in t])
    if cls == CTEN:
        return tensor.Dim(*t)
    if cls == CCIRC:
        return circuit.Ty(*[circuit.Digit(2) if n == BIT else circuit.Qudit(2) for n in t])
    if cls == CZX:
        assert all(n == 1 for n in t)
        return rigid.PRO(len(t))
    raise ValueError(cls)


def canon_ty(cls, t):
    if cls == CCAT:
        return [int(t.name[1:])]
    if cls in (CMON, CRIG):
        return [int(ob.name[1:]) for ob in t.objects]
    if cls == CTEN:
        return [int(ob.name) for ob in t.objects]
    if cls == CCIRC:
        return [BIT if isinstance(ob, circuit.Digit) else QUBIT for ob in t.objects]
    if cls == CZX:
        return [1] * len(t)
    raise ValueError(cls)


# ------------------------------------------------------------------ boxes
def build_box(cls, b):
    kind, name, dom, cod, dag, mixed, data = b
    d = build_data(data)
    if kind == KROT:
        return ROTATIONS[name](d)
    if kind == KQSCALAR:
        return gates.scalar(d, is_mixed=bool(mixed))
    if kind == KMIXEDSCALAR:
        return gates.MixedScalar(d)
    if kind == KSQRT:
        return gates.Sqrt(d)
    if kind == KCLASSICAL:
        if name < 100:
            return LIB_CLASSICAL[name]
        return gates.ClassicalGate("n%d" % name, len(dom), len(cod), d, _dagger=bool(dag))
    if kind == KSPIDER:
        return SPIDERS[name](len(dom), len(cod), d)
    if kind == KZSCALAR:
        return zx.scalar(d)
    assert kind == KGEN
    params = {}
    if dag:
        params["_dagger"] = True
    if cls == CCIRC:
        if name < 100:
            return LIB_CIRCUIT[name]
        return circuit.Box("n%d" % name, build_ty(cls, dom), build_ty(cls, cod),
                           is_mixed=bool(mixed), data=d, **params)
    if cls == CZX:
        if name < 100:
            return LIB_ZX[name]
        return zx.Box("n%d" % name, build_ty(cls, dom), build_ty(cls, cod), data=d, **params)
    if cls == CTEN:
        if name == 1:
            return tensor.Swap(tensor.Dim(dom[0]), tensor.Dim(dom[1]))
        return tensor.Box("n%d" % name, build_ty(cls, dom), build_ty(cls, cod), d, **params)
    mod = {CCAT: cat, CMON: monoidal, CRIG: rigid}[cls]
    return mod.Box("n%d" % name, build_ty(cls, dom), build_ty(cls, cod), data=d, **params)


def _lib_code(table, box):
    for code, obj in table.items():
        if type(obj) is type(box) and obj == box and bool(obj.is_dagger) == bool(box.is_dagger) \
                and obj.dom == box.dom and obj.cod == box.cod:
            return code
    return None


def canon_box(cls, box):
    dom, cod = canon_ty(cls, box.dom), canon_ty(cls, box.cod)
    dag = 1 if box.is_dagger else 0
    mixed = 1 if (cls == CCIRC and box.is_mixed) else 0
    data = enc_data(box.data)
    if isinstance(box, gates.Rotation):
        code = [k for k, c in ROTATIONS.items() if type(box) is c]
        return [KROT, code[0], dom, cod, dag, mixed, data]
    if isinstance(box, gates.Sqrt):
        return [KSQRT, 0, dom, cod, dag, mixed, data]
    if isinstance(box, gates.MixedScalar):
        return [KMIXEDSCALAR, 0, dom, cod, dag, mixed, data]
    if isinstance(box, gates.Scalar):
        return [KQSCALAR, 0, dom, cod, dag, mixed, data]
    if isinstance(box, gates.ClassicalGate):
        nm = box.name
        code = CLASSICAL_NAMES.get(nm)
        if code is None:
            code = int(nm[1:])
        if code in (1, 2) and dag:
            code = 5 if code == 1 else 6
        return [KCLASSICAL, code, dom, cod, dag, mixed, data]
    if isinstance(box, zx.Spider):
        code = [k for k, c in SPIDERS.items() if type(box) is c]
        return [KSPIDER, code[0], dom, cod, dag, mixed, data]
    if isinstance(box, zx.Scalar):
        return [KZSCALAR, 0, dom, cod, dag, mixed, data]
    if cls == CCIRC:
        code = _lib_code(LIB_CIRCUIT, box)
        if code is None:
            code = int(box.name[1:])
        return [KGEN, code, dom, cod, dag, mixed, data]
    if cls == CZX:
        code = _lib_code(LIB_ZX, box)
        if code is None:
            code = int(box.name[1:])
        return [KGEN, code, dom, cod, dag, mixed, data]
    if cls == CTEN and isinstance(box, tensor.Swap):
        return [KGEN, 1, dom, cod, dag, mixed, data]
    return [KGEN, int(box.name[1:]), dom, cod, dag, mixed, data]


DIAGRAM_CLASS = {CMON: monoidal.Diagram, CRIG: rigid.Diagram, CTEN: tensor.Diagram,
                 CCIRC: circuit.Circuit, CZX: zx.Diagram}
SUM_CLASS = {CCAT: cat.Sum, CMON: monoidal.Sum, CRIG: getattr(rigid, "Sum", monoidal.Sum), CTEN: tensor.Sum,
             CCIRC: circuit.Sum, CZX: zx.Sum}


def build_diagram(cls, dom, cod, boxes, offs):
    bs = [build_box(cls, b) for b in boxes]
    if cls == CCAT:
        if len(bs) != len(offs):
            raise ValueError("boxes and offsets")
        return cat.Arrow(build_ty(cls, dom), build_ty(cls, cod), bs)
    return DIAGRAM_CLASS[cls](build_ty(cls, dom), build_ty(cls, cod), bs, list(offs))


def canon_diagram_body(cls, d):
    offs = [0] * len(d.boxes) if cls == CCAT else [int(o) for o in d.offsets]
    return [canon_ty(cls, d.dom), canon_ty(cls, d.cod),
            [canon_box(cls, b) for b in d.boxes], offs]


def build_form(f):
    if f[0] == 0:
        return (sym(f[1]), build_expr(f[2]))
    return ([(sym(x), build_expr(v)) for x, v in f[1]],)


def err_code(exc):
    name = type(exc).__name__
    if name == "AxiomError":
        return 1
    if isinstance(exc, CaseTimeout):
        return 98
    return ERR.get(name, 99)


class Val:
    def __init__(self, tag, cls, obj):
        self.tag, self.cls, self.obj = tag, cls, obj


def interp(p):
    op = p[0]
    if op == DIAG:
        _, cls, dom, cod, boxes, offs = p
        return Val("d", cls, build_diagram(cls, dom, cod, boxes, offs))
    if op == SUM:
        _, cls, dom, cod, terms = p
        ts = [build_diagram(cls, *t) for t in terms]
        return Val("s", cls, SUM_CLASS[cls](ts, build_ty(cls, dom), build_ty(cls, cod)))
    if op == TENS:
        _, dom, cod, ents = p
        return Val("t", CTEN, tensor.Tensor(tensor.Dim(*dom), tensor.Dim(*cod),
                                            [build_expr(e) for e in ents]))
    if op == SUBS:
        v = interp(p[1])
        return Val(v.tag, v.cls, v.obj.subs(*build_form(p[2])))
    if op == LAMBDIFY:
        v = interp(p[1])
        syms = [sym(k) for k in p[2]]
        vals = [build_expr(e) for e in p[3]]
        return Val(v.tag, v.cls, v.obj.lambdify(*syms)(*vals))
    if op == FREE:
        v = interp(p[1])
        return Val("f", v.cls, sorted(sym_id(s) for s in v.obj.free_symbols))
    if op == EVALSTATUS:
        v = interp(p[1])
        v.obj.eval()
        return Val("u", v.cls, None)
    if op == CQSUBS:
        _, f, dom, cod, ents = p
        # dom / cod: quantum dimensions; entries: prod(dom)^2 * prod(cod)^2 of them
        qd = cqmap.Q(tensor.Dim(*dom)) if dom else cqmap.CQ()
        qc = cqmap.Q(tensor.Dim(*cod)) if cod else cqmap.CQ()
        m = cqmap.CQMap(qd, qc, [build_expr(e) for e in ents])
        r = m.subs(*build_form(f))
        assert not r.dom and not r.cod
        return Val("q", CTEN, r)
    raise ValueError("opcode %r" % (op,))


def canon_value(v):
    if v.tag == "d":
        return [0] + canon_diagram_body(v.cls, v.obj)
    if v.tag == "s":
        s = v.obj
        return [1, canon_ty(v.cls, s.dom), canon_ty(v.cls, s.cod),
                [canon_diagram_body(v.cls, t) for t in s.terms]]
    if v.tag == "t":
        t = v.obj
        return [2, canon_ty(CTEN, t.dom), canon_ty(CTEN, t.cod),
                [enc_expr(x) for x in t.array.flatten()]]
    if v.tag == "q":     # result of CQMap.subs with empty types
        return [2, [], [], [enc_expr(x) for x in v.obj.array.flatten()]]
    if v.tag == "f":
        return [3, v.obj]
    return [4]


def observe(p, seconds=20.0):
    """Outcome of a program on the implementation, in the model's encoding."""
    def go():
        return [0, canon_value(interp(p))]
    try:
        return with_timeout(seconds, go)
    except AssertionError:
        raise
    except BaseException as exc:  # noqa: the class is the observation
        if isinstance(exc, (KeyboardInterrupt, SystemExit)):
            raise
        return [1, err_code(exc)]


def _erase_box(b):
    data = b[6]
    if data and data[0] == 0:
        data = [0, [1, data[1][1]]]
    elif data:
        data = [1, [[1, e[1]] for e in data[1]]]
    return b[:6] + [data]


def _erase_body(body):
    return [body[0], body[1], [_erase_box(b) for b in body[2]], body[3]]


def strip_flags(outcome):
    """Forget the Python-number / sympy-object flag of every expression of an outcome."""
    if outcome[0] != 0:
        return outcome
    v = outcome[1]
    if v[0] == 0:
        return [0, [0] + _erase_body(v[1:])]
    if v[0] == 1:
        return [0, [1, v[1], v[2], [_erase_body(t) for t in v[3]]]]
    if v[0] == 2:
        return [0, [2, v[1], v[2], [[1, e[1]] for e in v[3]]]]
    return outcome
