"""Interpreter of the C16 program DSL (coq/ZX/ZXProg.v) over the *real*
discopy.quantum.zx imported from /repo: circuit2zx on pure circuits, the dagger of
ZX diagrams, canonical (exact, syntactic) observation of a ZX diagram, and --
written without any use of discopy's own evaluation -- the numeric STANDARD
INTERPRETATION of a ZX diagram (numpy).

Programs (nested int lists); a phase integer k is the phase k/16 in full turns:
  box    the C11 encoding (harness/gates_impl.py) plus [10, nums, d] =
         scalar(z, is_mixed=True)
  zbox   [0, kind, n, m, k] kind = 0 1 2 for Z X Y | [1] H | [2] SWAP | [3, scal]
  scal   [0, k] the float 2 ** (k / 2) | [1, neg] 1j / -1j | [2, nums, d] data
  prog   [0, n, [[off, box], ...]]   circuit2zx(Circuit(qubit ** n, cod, boxes, offsets))
         [1, n, [[off, zbox], ...]]  zx.Diagram(PRO(n), cod, boxes, offsets).dagger()
         [2, n, [[off, zbox], ...]]  (model only) exact standard interpretation
Observations: [0, [dom, cod, [(off, zbox-observation), ...]]] | [1, code] with
  zbox-observation = ('spider', kind, n_in, n_out, Fraction phase) | ('H',) | ('SWAP',)
                     | ('scalar', complex)."""
import cmath
import json
import math
from fractions import Fraction

import gates_impl as gi
from common import with_timeout, CaseTimeout

import numpy  # noqa: E402
from discopy.cat import AxiomError  # noqa: E402
from discopy.rigid import PRO  # noqa: E402
from discopy.quantum import zx as _zx  # noqa: E402
from discopy.quantum import gates as _g  # noqa: E402
from discopy.quantum.circuit import Circuit, qubit  # noqa: E402

(C2Z, ZXDAG, ZXSEM) = range(3)
B_MIXED = 10
KINDS = ["Z", "X", "Y"]
ERR = dict(gi.ERR, KeyError=20)
TIMEOUT = 99
NOT_A_ZX_DIAGRAM = 97
UNKNOWN_BOX = 96
OTHER = 100
UNKNOWN_CLASSES = []
COUNTS = {"timeout": 0, "unknown_exception": 0}
SCALAR_ATOL = 1e-12


def err_code(exc):
    if isinstance(exc, AxiomError):
        return ERR["AxiomError"]
    for cls, name in ((NotImplementedError, "NotImplementedError"), (KeyError, "KeyError"),
                      (ValueError, "ValueError"), (IndexError, "IndexError"),
                      (TypeError, "TypeError"), (AttributeError, "AttributeError")):
        if isinstance(exc, cls):
            return ERR[name]
    name = type(exc).__name__
    if name not in UNKNOWN_CLASSES:
        UNKNOWN_CLASSES.append(name)
    COUNTS["unknown_exception"] += 1
    return OTHER + UNKNOWN_CLASSES.index(name)


def err_name(code):
    for name, c in ERR.items():
        if c == code:
            return name
    if code >= OTHER and code - OTHER < len(UNKNOWN_CLASSES):
        return UNKNOWN_CLASSES[code - OTHER]
    return {TIMEOUT: "timeout", NOT_A_ZX_DIAGRAM: "not-a-zx-diagram",
            UNKNOWN_BOX: "unknown-zx-box"}.get(code, "code%d" % code)


# ------------------------------------------------------------------ syntax (no discopy)
def box_dom(b):
    return 0 if b[0] == B_MIXED else gi.box_dom(b)


def box_cod(b):
    return 0 if b[0] == B_MIXED else gi.box_cod(b)


def supported(b):
    """The boxes gate2zx (through the functor) knows."""
    t = b[0]
    if t == gi.B_NAMED:
        return b[1] in (0, 3, 4, 5)                  # H X Y Z (Y also daggered)
    if t == gi.B_ROT:
        return b[1] in (0, 2)                        # Rx Rz
    if t == gi.B_CTRL:
        return b[1][0] == gi.B_NAMED and b[1][1] == 3    # Controlled(X) == CX
    return t in (gi.B_CZ, gi.B_ROT2, gi.B_SWAP, gi.B_KET, gi.B_BRA, gi.B_SCALAR, gi.B_SQRT)


def f13_trigger(b):
    """Trigger predicate of finding F13: a controlled rotation whose decomposition is wrong
    as coded -- CRz(p), CRx(p) with p not an even integer, CU1(p) with p not an integer."""
    if b[0] != gi.B_ROT2:
        return False
    return b[2] % 16 != 0 if b[1] == 0 else b[2] % 32 != 0


def width_after(n, layers):
    w = n
    for _, b in layers:
        w = max(w - box_dom(b), 0) + box_cod(b)
    return w


def fits(n, layers):
    w = n
    for off, b in layers:
        if off < 0 or off + box_dom(b) > w:
            return False
        w = w - box_dom(b) + box_cod(b)
    return True


def zbox_dom(z):
    return {0: lambda: z[2], 1: lambda: 1, 2: lambda: 2, 3: lambda: 0}[z[0]]()


def zbox_cod(z):
    return {0: lambda: z[3], 1: lambda: 1, 2: lambda: 2, 3: lambda: 0}[z[0]]()


def zx_width_after(n, layers):
    w = n
    for _, z in layers:
        w = max(w - zbox_dom(z), 0) + zbox_cod(z)
    return w


def zx_fits(n, layers):
    w = n
    for off, z in layers:
        if off < 0 or off + zbox_dom(z) > w:
            return False
        w = w - zbox_dom(z) + zbox_cod(z)
    return True


def scal_value(sc):
    if sc[0] == 0:
        return complex(pow(2, sc[1] / 2))
    if sc[0] == 1:
        return -1j if sc[1] else 1j
    return gi.scalar_value(sc[1], sc[2])


def expected_lambda(layers):
    """The factor the theorem circuit2zx_sound states (product of gate_lam)."""
    lam = 1 + 0j
    for _, b in layers:
        t = b[0]
        if t == gi.B_ROT:
            lam *= cmath.exp(1j * math.pi * b[2] / 16)
        elif t in (gi.B_CZ, gi.B_CTRL, gi.B_ROT2):
            lam *= 1 / math.sqrt(2)
        elif t == gi.B_SQRT:
            lam *= math.sqrt(2.0) ** b[1]
    return lam


# ------------------------------------------------------------------ the implementation
def mk_box(b):
    if b[0] == B_MIXED:
        return _g.scalar(gi.scalar_value(b[1], b[2]), is_mixed=True)
    return gi.mk_box(b)


def build_circuit(p):
    n, layers = p[1], p[2]
    boxes = [mk_box(b) for _, b in layers]
    offsets = [off for off, _ in layers]
    cod = width_after(n, layers)
    return Circuit(qubit ** n, qubit ** cod, boxes, offsets)


def mk_zbox(z):
    t = z[0]
    if t == 0:
        cls = (_zx.Z, _zx.X, _zx.Y)[z[1]]
        return cls(z[2], z[3], z[4] / 16)
    if t == 1:
        return _zx.H
    if t == 2:
        return _zx.SWAP
    if t == 3:
        sc = z[1]
        if sc[0] == 0:
            return _zx.scalar(pow(2, sc[1] / 2))
        return _zx.scalar(scal_value(sc))
    raise AssertionError("bad zbox %r" % (z,))


def build_zx(p):
    n, layers = p[1], p[2]
    boxes = [mk_zbox(z) for _, z in layers]
    offsets = [off for off, _ in layers]
    cod = zx_width_after(n, layers)
    return _zx.Diagram(PRO(n), PRO(cod), boxes, offsets)


class _Odd(Exception):
    def __init__(self, code):
        Exception.__init__(self, code)
        self.code = code


def canon_zbox(box):
    if isinstance(box, _zx.Spider):
        kind = {"Z": 0, "X": 1, "Y": 2}.get(getattr(box, "_name", None))
        if kind is None or type(box) is not (_zx.Z, _zx.X, _zx.Y)[kind]:
            raise _Odd(UNKNOWN_BOX)
        ph = box.phase
        if isinstance(ph, bool) or not isinstance(ph, (int, float, Fraction)):
            raise _Odd(UNKNOWN_BOX)
        return ("spider", kind, len(box.dom), len(box.cod), Fraction(ph))
    if isinstance(box, _zx.Had):
        return ("H",)
    if isinstance(box, _zx.Swap):
        if len(box.dom) != 2 or len(box.cod) != 2:
            raise _Odd(UNKNOWN_BOX)
        return ("SWAP",)
    if isinstance(box, _zx.Scalar):
        return ("scalar", complex(box.data))
    raise _Odd(UNKNOWN_BOX)


def canon_zx(d):
    """Exact syntactic observation of a ZX diagram."""
    if not isinstance(d, _zx.Diagram):
        raise _Odd(NOT_A_ZX_DIAGRAM)
    for t in (d.dom, d.cod):
        if not isinstance(t, PRO):
            raise _Odd(NOT_A_ZX_DIAGRAM)
    return [len(d.dom), len(d.cod),
            [(int(off), canon_zbox(b)) for b, off in zip(d.boxes, d.offsets)]]


def _guard(func, *args, seconds=10.0):
    try:
        return [0, with_timeout(seconds, func, *args)]
    except CaseTimeout:
        COUNTS["timeout"] += 1
        return [1, TIMEOUT]
    except AssertionError:
        raise
    except _Odd as exc:
        return [1, exc.code]
    except Exception as exc:   # noqa: the class is the observation
        return [1, err_code(exc)]


def observe(p, seconds=10.0):
    """(outcome, the ZX diagram object or None) of a program on the implementation."""
    if p[0] == C2Z:
        got = _guard(lambda: _zx.circuit2zx(build_circuit(p)), seconds=seconds)
    elif p[0] == ZXDAG:
        got = _guard(lambda: build_zx(p).dagger(), seconds=seconds)
    else:
        raise AssertionError("bad opcode %r" % (p[0],))
    if got[0] == 1:
        return got, None
    d = got[1]
    return _guard(canon_zx, d, seconds=seconds), d


def observe_eval(p, seconds=10.0):
    """Circuit.eval() of the circuit of a C2Z program: [0, [dom, cod, flat array]] | [1, code]."""
    return gi._guard(lambda: gi.canon(build_circuit(p)), seconds=seconds)


# ------------------------------------------------------------------ the model's answers
def model_zbox(z):
    t = z[0]
    if t == 0:
        return ("spider", z[1], z[2], z[3], Fraction(z[4], 16))
    if t == 1:
        return ("H",)
    if t == 2:
        return ("SWAP",)
    return ("scalar", scal_value(z[1]))


def model_diagram(answer):
    """Model answer of prog 0 / 1 -> (outcome in observe's format, ok flag or None)."""
    if answer[0] != 0:
        return [1, answer[1]], None
    dom, cod, layers = answer[1]
    out = [0, [dom, cod, [(off, model_zbox(z)) for off, z in layers]]]
    return out, (bool(answer[2]) if len(answer) > 2 else None)


def model_sem(answer):
    if answer[0] != 0:
        return [1, answer[1]]
    return gi.model_to_complex(answer)


def same_box(a, b):
    if a[0] != b[0]:
        return False
    if a[0] == "scalar":
        return abs(a[1] - b[1]) <= SCALAR_ATOL
    return a == b


def same_outcome(a, b):
    if a[0] != b[0]:
        return False
    if a[0] == 1:
        return a[1] == b[1]
    (d1, c1, l1), (d2, c2, l2) = a[1], b[1]
    return d1 == d2 and c1 == c2 and len(l1) == len(l2) and all(
        o1 == o2 and same_box(x, y) for (o1, x), (o2, y) in zip(l1, l2))


# ------------------------------------------------------------------ standard interpretation (numpy)
_HAD = numpy.array([[1, 1], [1, -1]], dtype=complex) / math.sqrt(2)
# columns |+i>, |-i>: the change of basis Z-eigenbasis -> Y-eigenbasis, [out, in]
_YB = numpy.array([[1, 1], [1j, -1j]], dtype=complex) / math.sqrt(2)
_SWAP = numpy.array([[1, 0, 0, 0], [0, 0, 1, 0], [0, 1, 0, 0], [0, 0, 0, 1]], dtype=complex)


def _kpow(a, k):
    out = numpy.eye(1, dtype=complex)
    for _ in range(k):
        out = numpy.kron(out, a)
    return out


def spider_matrix(kind, n, m, phase):
    """[out, in] matrix of the spider kind(n, m, phase), phase in full turns:
    Z: |0..0><0..0| + exp(2 pi i phase) |1..1><1..1|; X, Y: the same in the X / Y eigenbasis."""
    mat = numpy.zeros((2 ** m, 2 ** n), dtype=complex)
    mat[0, 0] += 1
    mat[2 ** m - 1, 2 ** n - 1] += cmath.exp(2j * math.pi * float(phase))
    if kind == 1:
        mat = _kpow(_HAD, m) @ mat @ _kpow(_HAD, n)
    elif kind == 2:
        mat = _kpow(_YB, m) @ mat @ _kpow(_YB.conj().T, n)
    return mat


def observed_box_matrix(ob):
    if ob[0] == "spider":
        return spider_matrix(ob[1], ob[2], ob[3], ob[4])
    if ob[0] == "H":
        return _HAD
    if ob[0] == "SWAP":
        return _SWAP
    return numpy.array([[ob[1]]], dtype=complex)


def interpret(outcome):
    """Standard interpretation ([out, in] matrix) of an observed ZX diagram
    [0, [dom, cod, layers]]; independent of discopy."""
    dom, cod, layers = outcome[1]
    mat = numpy.eye(2 ** dom, dtype=complex)
    w = dom
    for off, ob in layers:
        b = observed_box_matrix(ob)
        if ob[0] == "spider":
            d, c = ob[2], ob[3]
        elif ob[0] == "scalar":
            d, c = 0, 0
        else:
            d, c = (1, 1) if ob[0] == "H" else (2, 2)
        if off < 0 or off + d > w:
            raise ValueError("layer (%d, %r) does not fit on %d wires" % (off, ob, w))
        layer = numpy.kron(numpy.kron(numpy.eye(2 ** off), b), numpy.eye(2 ** (w - off - d)))
        mat = layer @ mat
        w = w - d + c
    if w != cod:
        raise ValueError("diagram ends on %d wires, codomain says %d" % (w, cod))
    return mat


def proportional(a, b, atol=1e-9):
    """(ok, lam): a == lam * b entrywise with lam != 0 (both zero counts, lam = 1)."""
    if a.shape != b.shape:
        return False, None
    za, zb = not numpy.any(abs(a) > atol), not numpy.any(abs(b) > atol)
    if za or zb:
        return (za and zb), (1 + 0j if za and zb else None)
    idx = numpy.unravel_index(numpy.argmax(abs(b)), b.shape)
    lam = a[idx] / b[idx]
    if abs(lam) <= 1e-6:
        return False, lam
    return bool(numpy.allclose(a, lam * b, atol=atol, rtol=0)), lam


# ------------------------------------------------------------------ printing / replays
def pretty_box(b):
    if b[0] == B_MIXED:
        return "scalar(%s, is_mixed=True)" % gi._num(gi.scalar_value(b[1], b[2]))
    return gi.pretty_box(b)


def pretty_circuit(p):
    n, layers = p[1], p[2]
    if not layers:
        return "Id(%d)" % n
    if len(layers) == 1 and layers[0][0] == 0 and box_dom(layers[0][1]) == n:
        return pretty_box(layers[0][1])
    return "Circuit(qubit ** %d, qubit ** %d, [%s], [%s])" % (
        n, width_after(n, layers), ", ".join(pretty_box(b) for _, b in layers),
        ", ".join(str(off) for off, _ in layers))


def pretty_zbox(z):
    t = z[0]
    if t == 0:
        return "%s(%d, %d, %r)" % (KINDS[z[1]], z[2], z[3], z[4] / 16)
    if t == 1:
        return "H"
    if t == 2:
        return "SWAP"
    return "scalar(%s)" % gi._num(scal_value(z[1]))


def pretty(p):
    if p[0] == C2Z:
        return "circuit2zx(%s)" % pretty_circuit(p)
    n, layers = p[1], p[2]
    body = "zx.Diagram(PRO(%d), PRO(%d), [%s], [%s])" % (
        n, zx_width_after(n, layers), ", ".join(pretty_zbox(z) for _, z in layers),
        ", ".join(str(off) for off, _ in layers))
    return body + (".dagger()" if p[0] == ZXDAG else "")


def jsonable(outcome):
    if outcome is None:
        return None
    if outcome[0] == 1:
        return [1, outcome[1], err_name(outcome[1])]
    dom, cod, layers = outcome[1]
    out = []
    for off, ob in layers:
        if ob[0] == "spider":
            out.append([off, KINDS[ob[1]], ob[2], ob[3], str(ob[4])])
        elif ob[0] == "scalar":
            out.append([off, "scalar", [ob[1].real, ob[1].imag]])
        else:
            out.append([off, ob[0]])
    return [0, [dom, cod, out]]


def matrix_json(m):
    return [[round(float(z.real), 12), round(float(z.imag), 12)] for z in m.flatten()]


def show(p):
    """Replay of one program: the ZX diagram, its numeric interpretation, the circuit's eval."""
    numpy.set_printoptions(precision=6, suppress=True, linewidth=160)
    print(pretty(p))
    out, d = observe(p)
    if out[0] == 1:
        print("  -> raises", err_name(out[1]))
        return
    print("  ->", d)
    m = interpret(out)
    print("  standard interpretation [out, in] =\n", m)
    if p[0] == C2Z:
        ev = observe_eval(p)
        if ev[0] == 0:
            e = gi.out_in(ev)
            print("  Circuit.eval() [out, in] =\n", e)
            print("  proportional:", proportional(m, e))
    else:
        src = _guard(lambda: canon_zx(build_zx(p)))
        if src[0] == 0:
            print("  conj. transpose of the interpretation of the source =\n", interpret(src).conj().T)


def snippet(p):
    return ("cd /verif/harness && PYTHONPATH=/repo /venv/bin/python -B -c \"import zx_impl as zi; "
            "zi.show(%s)\"" % json.dumps(p, separators=(",", ":")))
