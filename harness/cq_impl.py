"""Interpreter of the C12 program DSL (coq/CQ/CQProg.v) over the *real*
discopy.quantum imported from /repo, canonical observations of
Circuit.eval(mixed=True) / eval() / is_mixed / get_counts() / measure(), and --
written without any use of discopy -- the syntactic typing of a program, the
classification of boxes (trace-preserving class) and an independent reference evaluation of mixed circuits.

Programs (nested int lists; a phase integer k is the DisCoPy phase k/16):
  ty      [w, ...]            w = 0 bit, 1 qubit
  num     [[n0, .., n15], d]  sum_j n_j/d exp(i pi j/16)   (short lists allowed)
  box     a C11 box (gates_impl: codes 0..9) |
          [10, m, n, [num, ...], dag] ClassicalGate, dom = bit ** m, cod = bit ** n
              (dag = 1: the object ClassicalGate('f', n, m, data).dagger())
          | [11] Copy() | [12] Match() | [13, bits, dag] Bits(*bits)[.dagger()]
          | [14, ty] Discard(ty) | [15, ty] MixedState(ty)
          | [16, n, destructive, override_bits] Measure
          | [17, n, constructive, reset_bits] Encode
          | [18, [n0, ..], d] Scalar(z, is_mixed=True) | [19, a, b] Swap(a, b)
  prog    [0, ty, [[off, box], ...]] Circuit(dom, cod, boxes, offsets)
          | [1, p] p.dagger() | [2, p, q] p >> q | [3, p, q] p @ q | [4, p] p.init_and_discard()
  request [obs, prog]   obs = 0 eval(mixed=True) | 1 eval() | 2 is_mixed | 3 get_counts()
                              | 4 measure() | 5 measure(mixed=True)
Outcomes: [0, value] | [1, code]; values
  ["cq", c, q, c', q', flat complex ndarray]   a CQMap (axes c.. q.. q'.. | c'.. q.. q'..)
  ["plain", m, n, flat complex ndarray]        a plain Tensor
  ["bool", b] | ["vec", flat complex ndarray]  is_mixed | get_counts (dense) / measure"""
import cmath
import json
import math
import zlib

from common import import_repo, with_timeout, CaseTimeout

discopy = import_repo()
import numpy  # noqa: E402
import gates_impl as gi  # noqa: E402  (shares the imported discopy)
from discopy.cat import AxiomError  # noqa: E402
from discopy.tensor import Tensor  # noqa: E402
from discopy.quantum.circuit import (  # noqa: E402
    Circuit, Ty, bit, qubit, Swap, Discard, MixedState, Measure, Encode)
from discopy.quantum import gates as _g  # noqa: E402
from discopy.quantum.cqmap import CQMap  # noqa: E402

(CIRC, DAGGER, THEN, TENSOR, INIT) = range(5)
(O_EVAL_MIXED, O_EVAL, O_IS_MIXED, O_COUNTS, O_MEASURE, O_MEASURE_MIXED) = range(6)
(B_CLASSICAL, B_COPY, B_MATCH, B_BITS, B_DISCARD, B_MIXEDSTATE, B_MEASURE, B_ENCODE,
 B_MSCALAR, B_MSWAP) = range(10, 20)
KIND = dict(gi.KIND)
KIND.update({B_CLASSICAL: "classical", B_COPY: "copy", B_MATCH: "match", B_BITS: "bits",
             B_DISCARD: "discard", B_MIXEDSTATE: "mixedstate", B_MEASURE: "measure",
             B_ENCODE: "encode", B_MSCALAR: "mixed-scalar", B_MSWAP: "swap"})
ERR = gi.ERR
BAD_SHAPE, NOT_A_MAP, TIMEOUT, OTHER = 96, 97, 99, 100
UNKNOWN_CLASSES = []
COUNTS = {"timeout": 0, "unknown_exception": 0, "bad_shape": 0, "hook": 0}
ATOL = 1e-9
SPIDER = [1, 0, 0, 0, 0, 0, 0, 1]


def err_code(exc):
    """Exception *class* -> code.  The DISCOPY_VERIF hook's VerifHookError (an
    ill-typed diagram was built by the library) is reported as AxiomError."""
    if isinstance(exc, AxiomError):
        return ERR["AxiomError"]
    if type(exc).__name__ == "VerifHookError":
        COUNTS["hook"] += 1
        return ERR["AxiomError"]
    for cls, name in ((NotImplementedError, "NotImplementedError"), (ValueError, "ValueError"),
                      (IndexError, "IndexError"), (TypeError, "TypeError"),
                      (AttributeError, "AttributeError")):
        if isinstance(exc, cls):
            return ERR[name]
    name = type(exc).__name__
    if name not in UNKNOWN_CLASSES:
        UNKNOWN_CLASSES.append(name)
    COUNTS["unknown_exception"] += 1
    return OTHER + zlib.crc32(name.encode()) % 1000


def err_name(code):
    for name, c in ERR.items():
        if c == code:
            return name
    for name in UNKNOWN_CLASSES:
        if code == OTHER + zlib.crc32(name.encode()) % 1000:
            return name
    return {BAD_SHAPE: "bad-shape", NOT_A_MAP: "not-a-map", TIMEOUT: "timeout"}.get(
        code, "code%d" % code)


# ------------------------------------------------------------------ numbers
def num_value(nums, d):
    """sum_j n_j/d exp(i pi j/16); exactly real when only n_0 is non-zero and
    exactly Gaussian when only n_0, n_8 are (so that `z.conjugate() == z`
    means the same thing for the float and for the exact number)."""
    re, im = 0.0, 0.0
    for j, n in enumerate(nums):
        if not n:
            continue
        if j == 0:
            re += n / d
        elif j == 8:
            im += n / d
        else:
            z = (n / d) * cmath.exp(1j * math.pi * j / 16)
            re, im = re + z.real, im + z.imag
    return complex(re, im)


def num_is_real(nums):
    return not any(n for j, n in enumerate(nums) if j != 0)


def num_imag_clear(nums, d):
    """non-real with an imaginary part far from zero (no rounding ambiguity)"""
    return abs(num_value(nums, d).imag) > 1e-6


# ------------------------------------------------------------------ syntax (no discopy)
def is_pure_box(b):
    return b[0] < 10


def box_dom(b):
    t = b[0]
    if t < 10:
        return [1] * gi.box_dom(b)
    if t == B_CLASSICAL:
        return [0] * b[1]
    if t == B_COPY:
        return [0]
    if t == B_MATCH:
        return [0, 0]
    if t == B_BITS:
        return [0] * len(b[1]) if b[2] else []
    if t == B_DISCARD:
        return list(b[1])
    if t == B_MEASURE:
        return [1] * b[1] + ([0] * b[1] if b[3] else [])
    if t == B_ENCODE:
        return ([] if b[2] else [1] * b[1]) + [0] * b[1]
    if t == B_MSWAP:
        return [b[1], b[2]]
    return []


def box_cod(b):
    t = b[0]
    if t < 10:
        return [1] * gi.box_cod(b)
    if t == B_CLASSICAL:
        return [0] * b[2]
    if t == B_COPY:
        return [0, 0]
    if t == B_MATCH:
        return [0]
    if t == B_BITS:
        return [] if b[2] else [0] * len(b[1])
    if t == B_MIXEDSTATE:
        return list(b[1])
    if t == B_MEASURE:
        return ([] if b[2] else [1] * b[1]) + [0] * b[1]
    if t == B_ENCODE:
        return [1] * b[1] + ([0] * b[1] if b[3] else [])
    if t == B_MSWAP:
        return [b[2], b[1]]
    return []


def box_dagger(b):
    """b.dagger(), written syntactically."""
    t = b[0]
    if t < 10:
        return gi.box_dagger(b)
    if t == B_CLASSICAL:
        return [t, b[2], b[1], b[3], 1 - b[4]]
    if t == B_COPY:
        return [B_MATCH]
    if t == B_MATCH:
        return [B_COPY]
    if t == B_BITS:
        return [t, list(b[1]), 1 - b[2]]
    if t == B_DISCARD:
        return [B_MIXEDSTATE, list(b[1])]
    if t == B_MIXEDSTATE:
        return [B_DISCARD, list(b[1])]
    if t == B_MEASURE:
        return [B_ENCODE, b[1], b[2], b[3]]
    if t == B_ENCODE:
        return [B_MEASURE, b[1], b[2], b[3]]
    if t == B_MSCALAR:
        conj = gi.box_dagger([gi.B_SCALAR, list(b[1]), b[2]])
        return [B_MSCALAR, conj[1], conj[2]]
    if t == B_MSWAP:
        return [t, b[2], b[1]]
    raise AssertionError("bad box %r" % (b,))


def _flat(p):
    """(dom, cod, layers) of the circuit a program denotes, or None when it is
    ill-typed / contains an ill-typed dagger."""
    op = p[0]
    if op == CIRC:
        scan, layers = list(p[1]), []
        for off, b in p[2]:
            d = box_dom(b)
            if off < 0 or scan[off:off + len(d)] != d or off + len(d) > len(scan):
                return None
            layers.append((off, b))
            scan = scan[:off] + box_cod(b) + scan[off + len(d):]
        return list(p[1]), scan, layers
    if op == DAGGER:
        f = _flat(p[1])
        if f is None:
            return None
        dom, cod, layers = f
        return _flat([CIRC, cod, [[off, box_dagger(b)] for off, b in reversed(layers)]])
    if op in (THEN, TENSOR):
        f, g = _flat(p[1]), _flat(p[2])
        if f is None or g is None:
            return None
        if op == THEN:
            return (f[0], g[1], f[2] + g[2]) if f[1] == g[0] else None
        return f[0] + g[0], f[1] + g[1], f[2] + [(len(f[1]) + off, b) for off, b in g[2]]
    if op == INIT:
        f = _flat(p[1])
        if f is None:
            return None
        return init_and_discard_flat(f)
    return None


def init_and_discard_flat(f):
    """Syntactic init_and_discard: Bits(0) / Ket(0) on every input wire, Discard on
    every output qubit -- written from the docstring, not from the code."""
    dom, cod, layers = f
    pre = [(k, [B_BITS, [0], 0] if w == 0 else [gi.B_KET, [0]]) for k, w in enumerate(dom)]
    post, kept = [], 0
    for w in cod:
        if w == 0:
            kept += 1
        else:
            post.append((kept, [B_DISCARD, [1]]))
    return [], [w for w in cod if w == 0], pre + list(layers) + post


def flatten(p):
    f = _flat(p)
    return None if f is None else f


def all_boxes(p):
    if p[0] == CIRC:
        return [b for _, b in p[2]]
    if p[0] in (DAGGER, INIT):
        return all_boxes(p[1])
    if p[0] in (THEN, TENSOR):
        return all_boxes(p[1]) + all_boxes(p[2])
    return []


def has_op(p, op):
    if p[0] == op:
        return True
    if p[0] in (DAGGER, INIT):
        return has_op(p[1], op)
    if p[0] in (THEN, TENSOR):
        return has_op(p[1], op) or has_op(p[2], op)
    return False


def stochastic(m, n, data):
    """every row of the (2**m x 2**n) [in, out] matrix is a probability vector"""
    rows = numpy.array([num_value(*x) for x in data], dtype=complex).reshape(2 ** m, 2 ** n)
    return bool(numpy.allclose(rows.imag, 0, atol=ATOL) and (rows.real > -ATOL).all()
                and numpy.allclose(rows.real.sum(axis=1), 1, atol=ATOL))


def tp_box(b):
    """Membership in the class of the trace-preservation clause: state preparations,
    unitaries, measurements, discards, constructive encodings, swaps, stochastic
    classical gates."""
    t = b[0]
    if t < 10:
        return gi.is_gate(b) or t == gi.B_KET
    if t == B_CLASSICAL:
        return not b[4] and stochastic(b[1], b[2], b[3])
    if t == B_COPY:
        return True
    if t == B_BITS:
        return not b[2]
    if t == B_DISCARD:
        return True
    if t == B_MEASURE:
        return True
    if t == B_ENCODE:
        return bool(b[2]) and not b[3]
    if t == B_MSWAP:
        return True
    return False


# ------------------------------------------------------------------ independent reference
# A map on wires t_in -> t_out is kept in a *per-wire* layout: one axis per bit,
# two axes (bra, ket) per qubit, wire after wire, inputs then outputs.  Layers
# act on contiguous axes, so whiskering is a plain Kronecker product; only at
# the very end are the axes regrouped into CQMap's layout (all bits, all bra
# axes, all ket axes).  This is a different route from cqmap.py's (which keeps
# the CQ layout and moves factors around with swap networks).
def _naxes(ty):
    return sum(1 if w == 0 else 2 for w in ty)


def _pure_ref(b):
    """[in.., out..] amplitude tensor of a pure box from the pytket reference."""
    u = gi.tk_unitary(b)                             # [out, in]
    d, c = gi.box_dom(b), gi.box_cod(b)
    return u.T.reshape((2,) * (d + c))


def ref_box(b):
    """Per-wire-layout array of a box, axes = dom wires then cod wires."""
    t = b[0]
    if t < 10:
        a = _pure_ref(b)
        n = a.ndim
        dbl = numpy.multiply.outer(a.conj(), a)      # bra axes (n), ket axes (n)
        order = [x for k in range(n) for x in (k, n + k)]
        return dbl.transpose(order)
    if t == B_CLASSICAL:
        data = numpy.array([num_value(*x) for x in b[3]], dtype=complex)
        if b[4]:
            a = data.reshape((2,) * (b[2] + b[1]))   # the un-daggered gate: n -> m
            perm = list(range(b[2], b[2] + b[1])) + list(range(b[2]))
            return a.conj().transpose(perm)
        return data.reshape((2,) * (b[1] + b[2]))
    if t in (B_COPY, B_MATCH):
        return numpy.array(SPIDER, dtype=complex).reshape((2, 2, 2))
    if t == B_BITS:
        a = numpy.zeros((2,) * len(b[1]) or (1,), dtype=complex)
        a[tuple(b[1])] = 1
        return a.reshape((2,) * len(b[1]))
    if t in (B_DISCARD, B_MIXEDSTATE):
        out = numpy.ones((), dtype=complex)
        for w in b[1]:
            out = numpy.multiply.outer(out, numpy.ones(2) if w == 0 else numpy.eye(2))
        return out
    if t in (B_MEASURE, B_ENCODE):
        n, keep, over = b[1], not b[2], bool(b[3])
        # Measure: dom = qubits (+ overridden bits), cod = (qubits +) bits
        dom = [1] * n + ([0] * n if over else [])
        cod = ([1] * n if keep else []) + [0] * n
        a = numpy.zeros((2,) * (_naxes(dom) + _naxes(cod)), dtype=complex)
        for k in range(2 ** n):
            ks = [(k >> (n - 1 - j)) & 1 for j in range(n)]
            idx = [x for v in ks for x in (v, v)]
            tail = ([x for v in ks for x in (v, v)] if keep else []) + ks
            if over:
                for o in range(2 ** n):
                    os_ = [(o >> (n - 1 - j)) & 1 for j in range(n)]
                    a[tuple(idx + os_ + tail)] = 1
            else:
                a[tuple(idx + tail)] = 1
        if t == B_ENCODE:
            nd, nc = _naxes(dom), _naxes(cod)
            a = a.transpose(list(range(nd, nd + nc)) + list(range(nd))).conj()
        return a
    if t == B_MSCALAR:
        return numpy.array(num_value(b[1], b[2]), dtype=complex)
    if t == B_MSWAP:
        d, c = [b[1], b[2]], [b[2], b[1]]
        na, nb_ = _naxes([b[1]]), _naxes([b[2]])
        eye = numpy.eye(2 ** (na + nb_), dtype=complex).reshape((2,) * (2 * (na + nb_)))
        # outputs: second wire's axes first
        n = na + nb_
        perm = list(range(n)) + [n + na + k for k in range(nb_)] + [n + k for k in range(na)]
        return eye.transpose(perm)
    raise AssertionError("bad box %r" % (b,))


def _to_cq_order(ty):
    """permutation taking per-wire axes of a type to CQ order (bits, bras, kets)"""
    pos, cls, bras, kets = 0, [], [], []
    for w in ty:
        if w == 0:
            cls.append(pos)
            pos += 1
        else:
            bras.append(pos)
            kets.append(pos + 1)
            pos += 2
    return cls + bras + kets


def reference(dom, layers):
    """Independent evaluation of a well-typed mixed circuit given by its domain and
    (offset, box) layers: ("cq", c, q, c', q', flat array in CQMap's axis order)."""
    nd = _naxes(dom)
    m = numpy.eye(2 ** nd, dtype=complex)            # rows: inputs, columns: current wires
    scan = list(dom)
    for off, b in layers:
        d, c = box_dom(b), box_cod(b)
        if scan[off:off + len(d)] != d:
            raise ValueError("ill-typed layer %r on %r" % ((off, b), scan))
        la, ra = _naxes(scan[:off]), _naxes(scan[off + len(d):])
        box = ref_box(b).reshape(2 ** _naxes(d), 2 ** _naxes(c))
        layer = numpy.kron(numpy.kron(numpy.eye(2 ** la), box), numpy.eye(2 ** ra))
        m = m @ layer
        scan = scan[:off] + c + scan[off + len(d):]
    nc = _naxes(scan)
    arr = m.reshape((2,) * (nd + nc))
    perm = _to_cq_order(dom) + [nd + k for k in _to_cq_order(scan)]
    arr = arr.transpose(perm)
    return ["cq", dom.count(0), dom.count(1), scan.count(0), scan.count(1), arr.flatten()]


# ------------------------------------------------------------------ the implementation
def mk_ty(ty):
    out = Ty()
    for w in ty:
        out = out @ (bit if w == 0 else qubit)
    return out


def mk_box(b):
    t = b[0]
    if t < 10:
        return gi.mk_box(b)
    if t == B_CLASSICAL:
        data = [num_value(*x) for x in b[3]]
        if b[4]:
            return _g.ClassicalGate('f', b[2], b[1], data).dagger()
        return _g.ClassicalGate('f', b[1], b[2], data)
    if t == B_COPY:
        return _g.Copy()
    if t == B_MATCH:
        return _g.Match()
    if t == B_BITS:
        return _g.Bits(*b[1]).dagger() if b[2] else _g.Bits(*b[1])
    if t == B_DISCARD:
        return Discard(mk_ty(b[1]))
    if t == B_MIXEDSTATE:
        return MixedState(mk_ty(b[1]))
    if t == B_MEASURE:
        return Measure(b[1], destructive=bool(b[2]), override_bits=bool(b[3]))
    if t == B_ENCODE:
        return Encode(b[1], constructive=bool(b[2]), reset_bits=bool(b[3]))
    if t == B_MSCALAR:
        return _g.scalar(num_value(b[1], b[2]), is_mixed=True)
    if t == B_MSWAP:
        return Swap(mk_ty([b[1]]), mk_ty([b[2]]))
    raise AssertionError("bad box %r" % (b,))


def _ty_after(ty, layers):
    scan = list(ty)
    for off, b in layers:
        scan = scan[:off] + box_cod(b) + scan[off + len(box_dom(b)):]
    return scan


def build(p):
    """The DisCoPy circuit of a program, through the public API, in Python's order."""
    op = p[0]
    if op == CIRC:
        layers = [(off, b) for off, b in p[2]]
        boxes = [mk_box(b) for _, b in layers]
        return Circuit(mk_ty(p[1]), mk_ty(_ty_after(p[1], layers)), boxes,
                       [off for off, _ in layers])
    if op == DAGGER:
        return build(p[1]).dagger()
    if op == THEN:
        a = build(p[1])
        b = build(p[2])
        return a >> b
    if op == TENSOR:
        a = build(p[1])
        b = build(p[2])
        return a @ b
    if op == INIT:
        return build(p[1]).init_and_discard()
    raise AssertionError("bad opcode %r" % (op,))


class _Odd(Exception):
    def __init__(self, code):
        Exception.__init__(self, code)
        self.code = code


def _canon_map(t):
    if isinstance(t, CQMap):
        dom, cod = t.dom, t.cod
        c, q = len(dom.classical), len(dom.quantum)
        c2, q2 = len(cod.classical), len(cod.quantum)
        arr = numpy.asarray(t.array, dtype=complex)
        want = (2,) * (c + 2 * q + c2 + 2 * q2) or (1,)
        if tuple(arr.shape) != want:
            COUNTS["bad_shape"] += 1
            raise _Odd(BAD_SHAPE)
        return ["cq", c, q, c2, q2, arr.flatten()]
    if isinstance(t, Tensor):
        m, n = len(t.dom), len(t.cod)
        arr = numpy.asarray(t.array, dtype=complex)
        if tuple(arr.shape) != ((2,) * (m + n) or (1,)):
            COUNTS["bad_shape"] += 1
            raise _Odd(BAD_SHAPE)
        return ["plain", m, n, arr.flatten()]
    raise _Odd(NOT_A_MAP)


def canon(c, obs):
    if obs == O_EVAL_MIXED:
        return _canon_map(c.eval(mixed=True))
    if obs == O_EVAL:
        return _canon_map(c.eval())
    if obs == O_IS_MIXED:
        return ["bool", 1 if c.is_mixed else 0]
    if obs == O_COUNTS:
        counts = c.get_counts()
        n = len(c.init_and_discard().cod)
        arr = numpy.zeros((2,) * n or (1,), dtype=complex)
        for bits, v in counts.items():
            if len(bits) != n:
                raise _Odd(BAD_SHAPE)
            arr[tuple(bits) if n else 0] = complex(numpy.asarray(v).reshape(-1)[0])
        return ["vec", arr.flatten()]
    if obs in (O_MEASURE, O_MEASURE_MIXED):
        arr = c.measure(mixed=(obs == O_MEASURE_MIXED))
        return ["vec", numpy.asarray(arr, dtype=complex).flatten()]
    raise AssertionError("bad observation %r" % (obs,))


def _guard(func, *args, seconds=10.0):
    try:
        return [0, with_timeout(seconds, func, *args)]
    except CaseTimeout:
        COUNTS["timeout"] += 1
        return [1, TIMEOUT]
    except AssertionError as exc:
        if type(exc).__name__ == "VerifHookError":      # the hook's refusal of an ill-typed diagram
            return [1, err_code(exc)]
        raise
    except _Odd as exc:
        return [1, exc.code]
    except Exception as exc:   # noqa: the class is the observation
        return [1, err_code(exc)]


def observe(request, seconds=10.0):
    """Outcome of a request [obs, prog] on the implementation."""
    obs, p = request
    return _guard(lambda: canon(build(p), obs), seconds=seconds)


def observe_many(p, observations, seconds=10.0):
    """Build once, observe several times: {obs: outcome}."""
    got = _guard(build, p, seconds=seconds)
    if got[0] == 1:
        return {o: got for o in observations}
    c = got[1]
    return {o: _guard(canon, c, o, seconds=seconds) for o in observations}


# ------------------------------------------------------------------ outcomes
def _entries(entries):
    arr = numpy.zeros(len(entries), dtype=complex)
    for i, e in enumerate(entries):
        d = e[0]
        arr[i] = sum(((n / d) * gi.zeta(j) for j, n in e[1:]), 0j)
    return arr


def model_value(answer):
    """Model answer -> the shape of observe's outcomes."""
    if answer[0] != 0:
        return [1, answer[1]]
    v = answer[1]
    k = v[0]
    if k == 0:
        return [0, ["cq", v[1], v[2], v[3], v[4], _entries(v[5])]]
    if k == 1:
        return [0, ["plain", v[1], v[2], _entries(v[3])]]
    if k == 2:
        return [0, ["bool", v[1]]]
    if k in (3, 4):
        return [0, ["vec", _entries(v[1])]]
    raise AssertionError("bad model answer %r" % (answer,))


def same_value(x, y, atol=ATOL):
    if x[0] != y[0] or len(x) != len(y):
        return False
    for a, b in zip(x[1:], y[1:]):
        if isinstance(a, numpy.ndarray) or isinstance(b, numpy.ndarray):
            a, b = numpy.asarray(a), numpy.asarray(b)
            if a.shape != b.shape or not numpy.allclose(a, b, atol=atol, rtol=0):
                return False
        elif a != b:
            return False
    return True


def same_outcome(a, b, atol=ATOL):
    if a[0] != b[0]:
        return False
    if a[0] == 1:
        return a[1] == b[1]
    return same_value(a[1], b[1], atol)


def jsonable(outcome):
    if outcome is None:
        return None
    if outcome[0] == 1:
        return [1, outcome[1], err_name(outcome[1])]
    out = []
    for x in outcome[1]:
        if isinstance(x, numpy.ndarray):
            out.append([[round(float(z.real), 12), round(float(z.imag), 12)] for z in x[:64]])
        else:
            out.append(x)
    return [0, out]


# ------------------------------------------------------------------ printing / replays
def pretty_ty(ty):
    return " @ ".join("bit" if w == 0 else "qubit" for w in ty) or "Ty()"


def pretty_box(b):
    t = b[0]
    if t < 10:
        return gi.pretty_box(b)
    if t == B_CLASSICAL:
        data = [gi._num(num_value(*x)) for x in b[3]]
        if b[4]:
            return "ClassicalGate('f', %d, %d, [%s]).dagger()" % (b[2], b[1], ", ".join(data))
        return "ClassicalGate('f', %d, %d, [%s])" % (b[1], b[2], ", ".join(data))
    if t == B_COPY:
        return "Copy()"
    if t == B_MATCH:
        return "Match()"
    if t == B_BITS:
        return "Bits(%s)%s" % (", ".join(map(str, b[1])), ".dagger()" if b[2] else "")
    if t == B_DISCARD:
        return "Discard(%s)" % pretty_ty(b[1])
    if t == B_MIXEDSTATE:
        return "MixedState(%s)" % pretty_ty(b[1])
    if t == B_MEASURE:
        return "Measure(%d, destructive=%s, override_bits=%s)" % (b[1], bool(b[2]), bool(b[3]))
    if t == B_ENCODE:
        return "Encode(%d, constructive=%s, reset_bits=%s)" % (b[1], bool(b[2]), bool(b[3]))
    if t == B_MSCALAR:
        return "scalar(%s, is_mixed=True)" % gi._num(num_value(b[1], b[2]))
    if t == B_MSWAP:
        return "Swap(%s, %s)" % (pretty_ty([b[1]]), pretty_ty([b[2]]))
    return "<bad box %r>" % (b,)


def pretty(p):
    op = p[0]
    if op == CIRC:
        layers = [(off, b) for off, b in p[2]]
        if not layers:
            return "Id(%s)" % pretty_ty(p[1])
        if len(layers) == 1 and layers[0][0] == 0 and box_dom(layers[0][1]) == list(p[1]):
            return pretty_box(layers[0][1])
        return "Circuit(%s, %s, [%s], [%s])" % (
            pretty_ty(p[1]), pretty_ty(_ty_after(p[1], layers)),
            ", ".join(pretty_box(b) for _, b in layers), ", ".join(str(off) for off, _ in layers))
    if op == DAGGER:
        return "%s.dagger()" % pretty(p[1])
    if op == THEN:
        return "(%s >> %s)" % (pretty(p[1]), pretty(p[2]))
    if op == TENSOR:
        return "(%s @ %s)" % (pretty(p[1]), pretty(p[2]))
    if op == INIT:
        return "%s.init_and_discard()" % pretty(p[1])
    return "<bad program %r>" % (p,)


OBS_NAME = ["eval(mixed=True)", "eval()", "is_mixed", "get_counts()", "measure()",
            "measure(mixed=True)"]


def pretty_request(r):
    return "%s.%s" % (pretty(r[1]), OBS_NAME[r[0]])


def snippet(r):
    """Stand-alone shell command replaying one request against /repo."""
    return ("cd /verif/harness && PYTHONPATH=/repo /venv/bin/python -B -c \"import cq_impl as ci; "
            "print(ci.pretty_request(%s)); print(ci.observe(%s))\""
            % (json.dumps(r, separators=(",", ":")), json.dumps(r, separators=(",", ":"))))
