"""Interpreter of the cartesian program DSL (coq/Cart/Cartesian.v) over the *real*
discopy.cartesian imported from /repo, canonical observation of its results in
the model's wire encoding, and the independent list-splicing oracle of C19."""
from common import import_repo, with_timeout, CaseTimeout

discopy = import_repo()
from discopy import cat, cartesian  # noqa: E402

# top-level opcodes (dec_prog) -------------------------------------------------
CALL, DESCRIBE, FCALL = 0, 1, 2
# diagram opcodes (dec_dprog)
ID, BOX, MK, THEN, TENSOR, SWAP, COPY, DISCARD = range(8)
DNAMES = ["Id", "Box", "Mk", "Then", "Tensor", "Swap", "Copy", "Discard"]
# function opcodes (dec_fprog)
FLIB, FID, FTHEN, FTENSOR = range(4)

ERR = {"AxiomError": 1, "IndexError": 3, "ValueError": 4, "TypeError": 5,
       "NotImplementedError": 6, "OutOfFuel": 7, "BadProgram": 8, "AttributeError": 9}


def _chk(x):
    if x < 0:
        raise ValueError("negative")
    return x


# The fixed library: (dom, cod, function, honest, total).  Must agree entry by
# entry with lib_table in coq/Cart/Cartesian.v.  Entries 0..3 are the module
# constants COPY, SWAP, DISCARD, ADD of discopy.cartesian themselves.
LIB_SPEC = [
    (1, 2, None, True, True),                                   # 0 COPY
    (2, 2, None, True, True),                                   # 1 SWAP
    (1, 0, None, True, True),                                   # 2 DISCARD
    (2, 1, None, True, True),                                   # 3 ADD
    (2, 1, lambda x, y: x * y, True, True),                     # 4 mul
    (1, 1, lambda x: -x, True, True),                           # 5 neg
    (0, 1, lambda: 7, True, True),                              # 6
    (0, 1, lambda: (-3,), True, True),                          # 7 one-tuple
    (0, 0, lambda: (), True, True),                             # 8 unit
    (1, 3, lambda x: (x, x, x), True, True),                    # 9 dup3
    (3, 1, lambda x, y, z: y, True, True),                      # 10 proj
    (2, 0, lambda x, y: (), True, True),                        # 11 sink2
    (2, 2, lambda x, y: (x + y, x - y), True, True),            # 12 addsub
    (3, 3, lambda x, y, z: (y, z, x), True, True),              # 13 rot3
    (3, 1, lambda x, y, z: x + y + z, True, True),              # 14 sum3
    (0, 2, lambda: (1, 2), True, True),                         # 15
    (1, 1, lambda x: (x + 1,), True, True),                     # 16 inc, one-tuple
    (3, 2, lambda x, y, z: (x * y + z, x), True, True),         # 17 mac
    (0, 3, lambda: (4, 5, 6), True, True),                      # 18
    (3, 0, lambda x, y, z: (), True, True),                     # 19 sink3
    (1, 1, _chk, True, False),                                  # 20 partial
    (1, 2, lambda x: x, False, True),                           # 21 says 2 outputs, gives 1
    (2, 1, lambda x, y: (x, y), False, True),                   # 22 says 1 output, gives 2
    (3, 1, lambda x, y: x + y, False, False),                   # 23 says 3 inputs, takes 2
    (1, 1, "nofunc", False, False),                             # 24 no function
    (1, 1, lambda x: (), False, True),                          # 25 says 1 output, gives 0
]
HONEST = [i for i, s in enumerate(LIB_SPEC) if s[3]]
TOTAL = [i for i, s in enumerate(LIB_SPEC) if s[3] and s[4]]
DOM = [s[0] for s in LIB_SPEC]
COD = [s[1] for s in LIB_SPEC]


def _make_lib():
    consts = [cartesian.COPY, cartesian.SWAP, cartesian.DISCARD, cartesian.ADD]
    boxes, funcs = [], []
    for i, (dom, cod, fun, _, _) in enumerate(LIB_SPEC):
        if i < 4:
            box = consts[i]
            assert (len(box.dom), len(box.cod)) == (dom, cod)
            fun = box.function
        elif fun == "nofunc":
            box, fun = cartesian.Box("b%d" % i, dom, cod), None
        else:
            box = cartesian.Box("b%d" % i, dom, cod, fun)
        boxes.append(box)
        funcs.append(fun)
    return boxes, funcs


LIB, FUNCS = _make_lib()
NAME2ID = {"copy": 0, "swap": 1, "discard": 2, "add": 3}


def box_id(box):
    if not isinstance(box, cartesian.Box):
        raise AssertionError("unexpected box %r" % (box,))
    name = box.name
    if name in NAME2ID:
        return NAME2ID[name]
    if not (isinstance(name, str) and name[:1] == "b" and name[1:].isdigit()):
        raise AssertionError("non-library box name %r" % (name,))
    return int(name[1:])


def lib(i):
    if not 0 <= i < len(LIB):
        raise AssertionError("bad library id %r" % (i,))
    return LIB[i]


def dinterp(p):
    """Build the diagram denoted by a diagram program through the public API."""
    op = p[0]
    if op == ID:
        return cartesian.Id(p[1])
    if op == BOX:
        return lib(p[1])
    if op == MK:
        return cartesian.Diagram(p[1], p[2], [lib(i) for i in p[3]], list(p[4]))
    if op == THEN:
        a = dinterp(p[1])
        b = dinterp(p[2])
        return a >> b
    if op == TENSOR:
        a = dinterp(p[1])
        b = dinterp(p[2])
        return a @ b
    if op == SWAP:
        return cartesian.Swap(p[1], p[2])
    if op == COPY:
        return cartesian.Copy(p[1])
    if op == DISCARD:
        return cartesian.Discard(p[1])
    raise AssertionError("bad diagram opcode %r" % (op,))


def finterp(p):
    op = p[0]
    if op == FLIB:
        assert FUNCS[p[1]] is not None
        return cartesian.Function(DOM[p[1]], COD[p[1]], FUNCS[p[1]])
    if op == FID:
        return cartesian.Function.id(p[1])
    if op == FTHEN:
        a = finterp(p[1])
        b = finterp(p[2])
        return a >> b
    if op == FTENSOR:
        a = finterp(p[1])
        b = finterp(p[2])
        return a @ b
    raise AssertionError("bad function opcode %r" % (op,))


def is_atom(x):
    return isinstance(x, int) and not isinstance(x, bool)


def canon_val(v):
    if is_atom(v):
        return [0, int(v)]
    if isinstance(v, tuple) and all(is_atom(x) for x in v):
        return [1, [int(x) for x in v]]
    return [9, []]     # outside the value domain of the model: never equals a model outcome


def canon_diagram(d):
    return [2, len(d.dom), len(d.cod), [box_id(b) for b in d.boxes],
            [int(o) for o in d.offsets]]


def interp(p):
    op = p[0]
    if op == CALL:
        d = dinterp(p[1])
        return canon_val(d(*p[2]))
    if op == DESCRIBE:
        return canon_diagram(dinterp(p[1]))
    if op == FCALL:
        f = finterp(p[1])
        return canon_val(f(*p[2]))
    raise AssertionError("bad opcode %r" % (op,))


def err_code(exc):
    if isinstance(exc, cat.AxiomError):
        return ERR["AxiomError"]
    for name in ("IndexError", "ValueError", "TypeError", "NotImplementedError",
                 "AttributeError"):
        if type(exc).__name__ == name:
            return ERR[name]
    return 100   # Other


def observe(p, seconds=10.0):
    """Outcome of program p on the implementation, in the model's encoding."""
    try:
        v = with_timeout(seconds, interp, p)
    except CaseTimeout:
        return [1, 101]
    except AssertionError:
        raise
    except Exception as exc:   # noqa: the class is the observation
        return [1, err_code(exc)]
    return [0, v]


# ------------------------------------------------------------------ oracle
def tuplify(x):
    return x if isinstance(x, tuple) else (x,)


def splice_eval(d, values):
    """Independent evaluator: a plain Python list as the state, each box's own
    function applied to state[off:off+|dom|], outputs assigned back to that
    slice.  Uses only d.boxes, d.offsets and box.function of the implementation's
    diagram object, nothing of Functor / Function.  Returns ('ok', tuple) or
    ('raise', exception class name)."""
    state = list(values)
    for box, off in zip(d.boxes, d.offsets):
        k = len(box.dom)
        assert 0 <= off and off + k <= len(state), "oracle: offset out of range"
        args = state[off:off + k]
        try:
            out = box.function(*args)
        except Exception as exc:   # noqa
            return ("raise", type(exc).__name__)
        out = list(out) if isinstance(out, tuple) else [out]
        assert len(out) == len(box.cod), "oracle: dishonest box"
        state[off:off + k] = out
    return ("ok", tuple(state))


def dprog_ids(p):
    """Library ids named in a diagram program."""
    op = p[0]
    if op == BOX:
        return [p[1]]
    if op == MK:
        return list(p[3])
    if op in (THEN, TENSOR):
        return dprog_ids(p[1]) + dprog_ids(p[2])
    return []


def run_call(dp, values, seconds=10.0):
    """Build the diagram of dp and call it once on the implementation.
    Returns (diagram or None, ('ok', raw result) | ('raise', exception))."""
    try:
        d = with_timeout(seconds, dinterp, dp)
    except CaseTimeout as exc:
        return None, ("raise", exc)
    except AssertionError:
        raise
    except Exception as exc:   # noqa: the class is the observation
        return None, ("raise", exc)
    try:
        return d, ("ok", with_timeout(seconds, lambda: d(*values)))
    except CaseTimeout as exc:
        return d, ("raise", exc)
    except Exception as exc:   # noqa
        return d, ("raise", exc)


def canon_outcome(got):
    if got[0] == "ok":
        return [0, canon_val(got[1])]
    if isinstance(got[1], CaseTimeout):
        return [1, 101]
    return [1, err_code(got[1])]


def plain(got):
    """('ok', tuplified result) or ('raise', class name)."""
    if got[0] == "ok":
        return ("ok", tuplify(got[1]))
    return ("raise", type(got[1]).__name__)


def oracle_call(dp, values, d, got):
    """C19 stated directly on the implementation for Call(dp, values), when dp
    builds a diagram d of honest library boxes and the call gave `got`: the call
    returns (up to the 1-tuple convention; exactly, unless the object is a bare
    Box) what the splice evaluator returns, refuses a wrong number of inputs with
    TypeError, and raises what the first failing box raises.  None or a message."""
    if d is None or any(i not in HONEST for i in dprog_ids(dp)):
        return None     # construction refusals / dishonest boxes: not C19's business
    got = (got[0], got[1]) if got[0] == "ok" else ("raise", type(got[1]).__name__)
    if len(values) != len(d.dom):
        if got != ("raise", "TypeError"):
            return "wrong number of inputs (%d for %d) not refused with TypeError: %r" % (
                len(values), len(d.dom), got)
        return None
    want = splice_eval(d, values)
    if want[0] == "raise":
        if got != want:
            return "a box raises %s but the call gives %r" % (want[1], got)
        return None
    if got[0] != "ok":
        return "call raised %s, splice evaluation gives %r" % (got[1], want[1])
    if tuplify(got[1]) != want[1]:
        return "call returned %r, splice evaluation gives %r" % (got[1], want[1])
    if not isinstance(d, cartesian.Box):
        exact = want[1][0] if len(want[1]) == 1 else want[1]
        if got[1] != exact or type(got[1]) is not type(exact):
            return "call returned %r instead of %r (1-tuple convention)" % (got[1], exact)
    return None


def pretty(p):
    if p[0] == CALL:
        return ["Call", pretty_d(p[1]), p[2]]
    if p[0] == DESCRIBE:
        return ["Describe", pretty_d(p[1])]
    return ["FCall", p[1], p[2]]


def pretty_d(p):
    op = p[0]
    if op in (THEN, TENSOR):
        return [DNAMES[op], pretty_d(p[1]), pretty_d(p[2])]
    return [DNAMES[op]] + list(p[1:])


def replay(p):
    """Stand-alone replay: implementation outcome and oracle verdict."""
    print("program:", pretty(p))
    print("implementation:", observe(p))
    if p[0] == CALL:
        d, got = run_call(p[1], p[2])
        print("raw result:", plain(got))
        if d is not None:
            print("boxes:", [box_id(b) for b in d.boxes], "offsets:", d.offsets)
        print("splice oracle:", oracle_call(p[1], p[2], d, got) or "ok")
