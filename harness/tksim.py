"""Exact branching state-vector simulator of tket command lists, plus the
post-processing pipeline of discopy.quantum.tk.Circuit (post-selection, scalar,
classical post-processing), written independently of DisCoPy's evaluation.

Everything here is an *oracle* for C13: it never looks at the model.

  simulate(tkc)        -> {bits (tuple over all tket bits, index order): probability}
  exact_counts(tkc)    -> the same, as a `counts` dict a pytket backend with
                          infinitely many shots would return (tuple keys)
  postprocess(tkc, d)  -> numpy array over the output bits of tkc.post_processing
  distribution(tkc)    -> postprocess(tkc, simulate(tkc))
  classical_apply(diagram, vector) -> numpy contraction of a classical circuit
"""
import numpy as np


def unit_index(unit):
    return unit.index[0]


def commands(tkc):
    """[(op name, [params], [qubit indices], [bit indices])] as get_commands() orders them."""
    out = []
    for cmd in tkc.get_commands():
        out.append((cmd.op.type.name, list(cmd.op.params),
                    [unit_index(q) for q in cmd.qubits], [unit_index(b) for b in cmd.bits]))
    return out


def simulate(tkc):
    """Exact branching simulation of all commands; measurement outcomes are
    written into the bit register, every branch keeps its (unnormalised) state."""
    nq = tkc.n_qubits
    qubits = sorted(tkc.qubits, key=lambda q: (q.reg_name, q.index))
    bits = sorted(tkc.bits, key=lambda b: (b.reg_name, b.index))
    nb = len(bits)
    qidx = {q: i for i, q in enumerate(qubits)}
    bidx = {b: i for i, b in enumerate(bits)}
    st = np.zeros([2] * nq or [1], dtype=complex)
    st[(0,) * nq if nq else 0] = 1
    branches = [(st, (0,) * nb)]
    for cmd in tkc.get_commands():
        name = cmd.op.type.name
        if name == "Measure":
            q, b = qidx[cmd.qubits[0]], bidx[cmd.bits[0]]
            new = []
            for st, bs in branches:
                for v in (0, 1):
                    proj = np.zeros_like(st)
                    sl = [slice(None)] * nq
                    sl[q] = v
                    proj[tuple(sl)] = st[tuple(sl)]
                    if np.vdot(proj, proj).real > 1e-18:
                        nbs = list(bs)
                        nbs[b] = v
                        new.append((proj, tuple(nbs)))
            branches = new
        elif name == "Barrier":
            continue
        else:
            if cmd.bits:
                raise NotImplementedError("classically controlled op %s" % name)
            k = len(cmd.qubits)
            U = np.asarray(cmd.op.get_unitary()).reshape([2] * (2 * k))   # out..., in...
            qs = [qidx[q] for q in cmd.qubits]
            new = []
            for st, bs in branches:
                s = np.tensordot(U, st, (list(range(k, 2 * k)), qs))
                s = np.moveaxis(s, list(range(k)), qs)
                new.append((s, bs))
            branches = new
    dist = {}
    for st, bs in branches:
        p = np.vdot(st, st).real
        dist[bs] = dist.get(bs, 0.0) + p
    return dist


def exact_counts(tkc):
    return {k: float(v) for k, v in simulate(tkc).items()}


def box_array(box):
    """Array of a classical box with axes (dom..., cod...)."""
    from discopy.quantum.circuit import Swap
    n, m = len(box.dom), len(box.cod)
    if isinstance(box, Swap):
        arr = np.zeros((2, 2, 2, 2))
        for a in (0, 1):
            for b in (0, 1):
                arr[a, b, b, a] = 1
        return arr
    arr = np.asarray(box.array).reshape((2,) * (n + m) or (1,))
    if arr.shape != (1,) and getattr(box, "is_dagger", False):
        # a daggered box keeps the array of the original box, whose axes are
        # (original dom..., original cod...) = (cod..., dom...) of this box
        arr = np.conjugate(np.moveaxis(arr, list(range(m)), list(range(n, n + m))))
    return arr


def classical_apply(diagram, vec):
    """Contract a classical circuit (bits only) with a vector over its domain."""
    width = len(diagram.dom)
    vec = np.asarray(vec, dtype=complex).reshape((2,) * width)
    for left, box, _ in diagram.layers:
        off, n, m = len(left), len(box.dom), len(box.cod)
        arr = box_array(box).reshape((2,) * (n + m))
        vec = np.tensordot(vec, arr, (list(range(off, off + n)), list(range(n))))
        k = vec.ndim           # the m new axes are last: move them to position off
        vec = np.moveaxis(vec, list(range(k - m, k)), list(range(off, off + m)))
        width = width - n + m
    return np.asarray(vec).reshape((2,) * width or (1,))


def postselect(tkc, dist):
    out = {}
    for bs, p in dist.items():
        if all(bs[i] == v for i, v in tkc.post_selection.items()):
            key = tuple(v for i, v in enumerate(bs) if i not in tkc.post_selection)
            out[key] = out.get(key, 0.0) + p
    return out


def postprocess(tkc, dist, use_discopy=False):
    """post-selection, scaling, classical post-processing -> array over output bits."""
    sel = postselect(tkc, dist)
    n = len(tkc.post_processing.dom)
    vec = np.zeros((2,) * n or (1,), dtype=complex)
    for key, p in sel.items():
        if len(key) != n:
            raise ValueError("post-processing expects %d bits, counts have %d" % (n, len(key)))
        vec[key if n else 0] += p * tkc.scalar
    if use_discopy:
        from discopy.tensor import Tensor, Dim
        t = Tensor(Dim(1), Dim(*(n * (2,))), vec)
        if tkc.post_processing:
            t = t >> tkc.post_processing.eval()
        return np.asarray(t.array)
    return classical_apply(tkc.post_processing, vec)


def distribution(tkc, use_discopy=False):
    return postprocess(tkc, simulate(tkc), use_discopy=use_discopy)


# ---------------------------------------------------------------- DisCoPy circuits, independently
def _gate_array(box):
    """Array of a quantum box with axes (in..., out...), dagger resolved."""
    n = len(box.dom)
    arr = np.asarray(box.array, dtype=complex).reshape((2,) * (2 * n))
    if getattr(box, "is_dagger", False):
        arr = np.conjugate(np.moveaxis(arr, list(range(n)), list(range(n, 2 * n))))
    return arr


def dsim(circuit):
    """Exact evaluation of a bit/qubit circuit with empty domain by branching:
    a branch is (weight, bits of the bit wires, state over the qubit wires).
    Handles Measure(override_bits=True), which DisCoPy's own mixed evaluation
    cannot (F9).  Returns the array over the output bits (qubits are discarded)."""
    from discopy.quantum import gates as qg
    from discopy.quantum.circuit import Swap, Measure, Discard
    assert len(circuit.dom) == 0
    branches = [(1.0 + 0j, (), np.ones((), dtype=complex))]
    for left, box, _ in circuit.layers:
        names = [x.name for x in left]
        qoff, boff = names.count("qubit"), names.count("bit")
        new = []
        for w, bits, st in branches:
            if isinstance(box, qg.Ket):
                for j, v in enumerate(box.bitstring):
                    e = np.zeros(2, dtype=complex)
                    e[v] = 1
                    st = np.moveaxis(np.multiply.outer(st, e), -1, qoff + j)
                new.append((w, bits, st))
            elif isinstance(box, qg.Bra):
                for v in box.bitstring:
                    st = np.take(st, v, axis=qoff)
                new.append((w, bits, st))
            elif isinstance(box, Swap):
                l, r = box.left[0].name, box.right[0].name
                if l == r == "qubit":
                    st = np.swapaxes(st, qoff, qoff + 1)
                elif l == r == "bit":
                    b = list(bits)
                    b[boff], b[boff + 1] = b[boff + 1], b[boff]
                    bits = tuple(b)
                new.append((w, bits, st))
            elif isinstance(box, Measure):
                n = box.n_qubits
                outs = [((), st)]
                for j in range(n):
                    nxt = []
                    for vals, s in outs:
                        for v in (0, 1):
                            if box.destructive:
                                s2 = np.take(s, v, axis=qoff)       # later qubits slide to qoff
                            else:
                                s2 = np.zeros_like(s)
                                sl = [slice(None)] * s.ndim
                                sl[qoff + j] = v
                                s2[tuple(sl)] = s[tuple(sl)]
                            nxt.append((vals + (v,), s2))
                    outs = nxt
                for vals, s in outs:
                    if box.override_bits:
                        b = bits[:boff] + vals + bits[boff + n:]
                    else:
                        b = bits[:boff] + vals + bits[boff:]
                    new.append((w, b, s))
            elif isinstance(box, Discard):
                nq = [x.name for x in box.dom].count("qubit")
                nb = len(box.dom) - nq
                b = bits[:boff] + bits[boff + nb:]
                outs = [st]
                for _ in range(nq):
                    outs = [np.take(s, v, axis=qoff) for s in outs for v in (0, 1)]
                for s in outs:
                    new.append((w, b, s))
            elif isinstance(box, qg.Scalar):
                z = box.array[0]
                new.append((w * (z if box.is_mixed else abs(z) ** 2), bits, st))
            elif isinstance(box, qg.ClassicalGate):
                n, m = len(box.dom), len(box.cod)
                arr = box_array(box).reshape((2,) * (n + m))
                sub = arr[bits[boff:boff + n]] if n else arr
                for idx in np.ndindex(*((2,) * m)):
                    a = sub[idx] if m else sub
                    if a != 0:
                        new.append((w * a, bits[:boff] + tuple(idx) + bits[boff + n:], st))
            elif isinstance(box, qg.QuantumGate):
                n = len(box.dom)
                arr = _gate_array(box)
                axes = list(range(qoff, qoff + n))
                s = np.tensordot(st, arr, (axes, list(range(n))))
                s = np.moveaxis(s, list(range(s.ndim - n, s.ndim)), axes)
                new.append((w, bits, s))
            else:
                raise NotImplementedError(repr(box))
        branches = [(w, b, s) for w, b, s in new if w != 0 and np.vdot(s, s).real > 1e-18]
    n_out = None
    for w, bits, st in branches:
        n_out = len(bits)
    if n_out is None:
        n_out = [x.name for x in circuit.cod].count("bit")
    out = np.zeros((2,) * n_out or (1,), dtype=complex)
    for w, bits, st in branches:
        out[bits if n_out else 0] += w * np.vdot(st, st).real
    return out


def postprocess_only_select_scale(tkc, dist):
    """post-selection and scaling WITHOUT the classical post-processing (what
    tk.Circuit.get_counts returns) as an array over post_processing.dom."""
    sel = postselect(tkc, dist)
    n = len(tkc.post_processing.dom)
    vec = np.zeros((2,) * n or (1,), dtype=complex)
    for key, p in sel.items():
        if len(key) != n:
            raise ValueError("post-processing expects %d bits, counts have %d" % (n, len(key)))
        vec[key if n else 0] += p * tkc.scalar
    return vec
