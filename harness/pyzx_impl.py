"""C17: interpreter of the `pyzx` runner's programs over the *real*
zx.Diagram.to_pyzx / from_pyzx imported from /repo (through pyzx_adapter), the
canonical observations in the model's wire encoding, and the independent
numeric semantics used by the oracles.

Encodings (see coq/PyZX/PyzxProg.v):
  diagram description  [dom, cod, [[box, offset], ...]]
     box = [0, kind, nin, nout, num, den] (kind 0 Z, 1 X, 2 Y; phase num/den in turns)
         | [1] H | [2] SWAP | [3, renum, reden, imnum, imden] scalar | [4, nin, nout] other
  graph description    [vertices, edges, inputs, outputs, [renum, reden, imnum, imden]]
     vertex = [id, type, num, den, qubit, row] (phase num/den in units of pi), edge = [u, v, type]
"""
import cmath
from fractions import Fraction

import numpy as np

from common import import_repo, with_timeout, CaseTimeout

discopy = import_repo()
import pyzx_adapter  # noqa: E402
pyzx_adapter.install()
import pyzx  # noqa: E402
from pyzx.graph.graph_s import GraphS  # noqa: E402
from discopy import cat, monoidal, rigid  # noqa: E402
from discopy.quantum import zx  # noqa: E402

ERR = {"AxiomError": 1, "IndexError": 3, "ValueError": 4, "TypeError": 5,
       "NotImplementedError": 6, "AttributeError": 9}
TOPYZX, FROMPYZX, ROUNDTRIP = 0, 1, 2
WIRE = [1, 0]


def err_code(exc):
    if isinstance(exc, cat.AxiomError):
        return ERR["AxiomError"]
    return ERR.get(type(exc).__name__, 100)


def frac(num, den):
    return Fraction(num, den)


# ------------------------------------------------------------------ diagrams
def make_box(b):
    if b[0] == 0:
        cls = {0: zx.Z, 1: zx.X, 2: zx.Y}[b[1]]
        p = frac(b[4], b[5])
        return cls(b[2], b[3], float(p) if p.denominator != 1 else int(p))
    if b[0] == 1:
        return zx.H
    if b[0] == 2:
        return zx.SWAP
    if b[0] == 3:
        return zx.scalar(complex(float(frac(b[1], b[2])), float(frac(b[3], b[4]))))
    if b[0] == 4:
        return zx.Box("other", rigid.PRO(b[1]), rigid.PRO(b[2]))
    raise AssertionError(b)


def build_diagram(desc):
    """The zx.Diagram of a description, through the public >> and @."""
    dom, cod, boxes = desc
    d, width = zx.Id(dom), dom
    for b, off in boxes:
        bx = make_box(b)
        n, m = len(bx.dom), len(bx.cod)
        d = d >> zx.Id(off) @ bx @ zx.Id(width - off - n)
        width += m - n
    assert width == cod and len(d.cod) == cod, (desc, width)
    assert list(d.offsets) == [off for _, off in boxes]
    return d


def phase_fraction(p):
    if isinstance(p, float):
        return Fraction(p).limit_denominator(1 << 20)
    return Fraction(p)


def describe_box(b):
    """Independent reading of one zx box (by class)."""
    if type(b) in (zx.Z, zx.X, zx.Y):
        p = phase_fraction(b.phase)
        kind = {zx.Z: 0, zx.X: 1, zx.Y: 2}[type(b)]
        return [0, kind, len(b.dom), len(b.cod), p.numerator, p.denominator]
    if isinstance(b, monoidal.Swap):
        return [2]
    if isinstance(b, zx.Scalar):
        z = complex(b.data)
        re, im = Fraction(z.real), Fraction(z.imag)
        return [3, re.numerator, re.denominator, im.numerator, im.denominator]
    if isinstance(b, zx.Had):
        return [1]
    return [4, len(b.dom), len(b.cod)]


def describe_diagram(d):
    return [len(d.dom), len(d.cod), [[describe_box(b), int(o)] for b, o in zip(d.boxes, d.offsets)]]


def core_box(b):
    """The Core box the model uses for a described zx box (PyZX.core_box)."""
    pro = lambda n: [WIRE] * n   # noqa: E731
    if b[0] == 0:
        code = {0: 1, 1: 2, 2: 6}[b[1]]
        return [0, code + 8 * b[5], pro(b[2]), pro(b[3]), 0, [b[4]]]
    if b[0] == 1:
        return [0, 3, pro(1), pro(1), 0, []]
    if b[0] == 2:
        return [1, -1, pro(2), pro(2), 0, []]
    if b[0] == 3:
        return [0, 4, [], [], 0, []]
    return [0, 5, pro(b[1]), pro(b[2]), 0, []]


def decode_core_box(cb):
    """Inverse of core_box on the model's answers."""
    kind, name, dom, cod, _, data = cb
    if kind == 1:
        return [2]
    if name == 3:
        return [1]
    if name == 4:
        return [3, 1, 1, 0, 1]
    if name == 5:
        return [4, len(dom), len(cod)]
    code, den = name % 8, name // 8
    return [0, {1: 0, 2: 1, 6: 2}[code], len(dom), len(cod), data[0], den]


def canon_core(d):
    """A zx.Diagram in the encoding of Core.enc_diagram, boxes named as PyZX.core_box."""
    ty = lambda t: [WIRE] * len(t)   # noqa: E731
    for t in (d.dom, d.cod):
        assert all(x.name == 1 for x in t.objects), t
    cb = lambda b: core_box(describe_box(b))   # noqa: E731
    layers = d.layers
    return [ty(d.dom), ty(d.cod), [cb(b) for b in d.boxes], [int(o) for o in d.offsets],
            [ty(layers.dom), ty(layers.cod),
             [[ty(left), cb(box), ty(right)] for left, box, right in layers.boxes]]]


def core_to_desc(c):
    return [len(c[0]), len(c[1]), [[decode_core_box(b), o] for b, o in zip(c[2], c[3])]]


# ------------------------------------------------------------------ graphs
def canon_graph(ga):
    g = ga._g
    verts = []
    for v in g.vertices():
        p = Fraction(g.phase(v))
        verts.append([int(v), int(g.type(v)), p.numerator, p.denominator,
                      int(g.qubit(v)), int(g.row(v))])
    edges = sorted([min(a, b), max(a, b), int(g.edge_type((a, b)))] for a, b in g.edges())
    s = g.scalar
    if s.phase != 0 or s.power2 != 0 or s.phasenodes or s.is_zero or getattr(s, "is_unknown", False):
        raise AssertionError("scalar of the graph is not a plain float factor: %r" % (s,))
    z = complex(s.floatfactor)
    re, im = Fraction(z.real), Fraction(z.imag)
    return [verts, edges, [int(v) for v in ga.inputs], [int(v) for v in ga.outputs],
            [re.numerator, re.denominator, im.numerator, im.denominator]]


def neighbour_orders(ga):
    g = ga._g
    return {int(v): [int(w) for w in g.neighbors(v)] for v in g.vertices()}


def model_graph_canon(mg):
    """The model's graph answer, edges normalised like canon_graph's."""
    verts, edges, ins, outs, scal = mg
    return [verts, sorted([min(a, b), max(a, b), t] for a, b, t in edges), ins, outs, scal]


def model_neighbour_orders(mg):
    out = {v[0]: [] for v in mg[0]}
    for a, b, _ in mg[1]:
        out.setdefault(a, []).append(b)
        out.setdefault(b, []).append(a)
    return out


def build_graph(gd):
    """A real pyzx graph (wrapped) from a graph description; vertices and edges
    are inserted in the order of the description."""
    verts, edges, ins, outs, scal = gd
    g = GraphS()
    for vid, ty, num, den, q, r in verts:
        got = g.add_vertex(pyzx.VertexType(ty), qubit=q, row=r, phase=Fraction(num, den))
        assert got == vid, "vertex ids must be 0, 1, 2, ... in order"
    for a, b, t in edges:
        assert a != b and not g.connected(a, b), "description is not a simple graph"
        g.add_edge((a, b), pyzx.EdgeType(t))
    g.scalar.add_float(complex(float(Fraction(scal[0], scal[1])), float(Fraction(scal[2], scal[3]))))
    g.set_inputs(tuple(ins))
    g.set_outputs(tuple(outs))
    return pyzx_adapter.wrap(g)


def graph_scalar(gd):
    s = gd[4]
    return complex(float(Fraction(s[0], s[1])), float(Fraction(s[2], s[3])))


# ------------------------------------------------------------------ observations
def _observe(fn, *args, seconds=20.0):
    try:
        return [0, with_timeout(seconds, fn, *args)]
    except CaseTimeout:
        return [1, 101]
    except AssertionError:
        raise
    except Exception as exc:   # noqa: the class is the observation
        return [1, err_code(exc)]


def run_program(p):
    """(outcome in the model's encoding, python objects for the oracles)."""
    keep = {}

    def go():
        if p[0] == TOPYZX:
            d = build_diagram(p[1:4])
            keep["diagram"] = d
            ga = d.to_pyzx()
            keep["graph"] = ga
            return canon_graph(ga)
        if p[0] == FROMPYZX:
            ga = build_graph(p[3])
            keep["graph"] = ga
            d = zx.Diagram.from_pyzx(ga)
            keep["result"] = d
            return canon_core(d)
        if p[0] == ROUNDTRIP:
            d = build_diagram(p[3:6])
            keep["diagram"] = d
            ga = d.to_pyzx()
            keep["graph"] = ga
            d2 = zx.Diagram.from_pyzx(ga)
            keep["result"] = d2
            return canon_core(d2)
        raise AssertionError(p)
    out = _observe(go)
    return out, keep


# ------------------------------------------------------------------ semantics
HM = np.array([[1, 1], [1, -1]], dtype=complex) / np.sqrt(2)


def _kron_pow(m, k):
    r = np.eye(1, dtype=complex)
    for _ in range(k):
        r = np.kron(r, m)
    return r


def spider_matrix(kind, n, m, phase):
    """Standard interpretation, phase in full turns (zx.py's convention):
    Z(n, m, a) = |0..0><0..0| + exp(2 pi i a) |1..1><1..1|,  X = H-conjugate."""
    mat = np.zeros((2 ** m, 2 ** n), dtype=complex)
    mat[0, 0] += 1
    mat[2 ** m - 1, 2 ** n - 1] += cmath.exp(2j * cmath.pi * float(phase))
    if kind == 1:
        mat = _kron_pow(HM, m) @ mat @ _kron_pow(HM, n)
    elif kind != 0:
        raise ValueError("no standard interpretation for spider kind %r" % kind)
    return mat


SWAP_M = np.array([[1, 0, 0, 0], [0, 0, 1, 0], [0, 1, 0, 0], [0, 0, 0, 1]], dtype=complex)


def box_matrix(b):
    if b[0] == 0:
        return spider_matrix(b[1], b[2], b[3], Fraction(b[4], b[5]))
    if b[0] == 1:
        return HM
    if b[0] == 2:
        return SWAP_M
    if b[0] == 3:
        return np.array([[complex(float(Fraction(b[1], b[2])), float(Fraction(b[3], b[4])))]])
    raise ValueError("no interpretation for box %r" % (b,))


def box_arity(b):
    if b[0] == 0:
        return b[2], b[3]
    if b[0] == 1:
        return 1, 1
    if b[0] == 2:
        return 2, 2
    if b[0] == 3:
        return 0, 0
    return b[1], b[2]


def eval_desc(desc):
    """Matrix (2**cod x 2**dom, first wire = most significant bit) of a described
    diagram; raises ValueError when a box does not find its domain (ill-typed)."""
    dom, cod, boxes = desc
    mat, width = np.eye(2 ** dom, dtype=complex), dom
    for b, off in boxes:
        bm = box_matrix(b)
        n, m = box_arity(b)
        if off < 0 or off + n > width:
            raise ValueError("box at offset %d does not fit in width %d" % (off, width))
        rest = width - off - n
        mat = np.kron(np.kron(np.eye(2 ** off), bm), np.eye(2 ** rest)) @ mat
        width = off + m + rest
    if width != cod:
        raise ValueError("diagram ends with %d wires, codomain says %d" % (width, cod))
    return mat


def graph_matrix(ga):
    return np.asarray(ga.to_matrix(), dtype=complex)


def is_simple_desc(desc):
    """Independent check of the quantifier: no two spiders (or a spider and an
    input) joined by more than one wire.  Wires are followed by source identity."""
    dom, _, boxes = desc
    scan = [("in", i) for i in range(dom)]
    for k, (b, off) in enumerate(boxes):
        if b[0] == 0:
            srcs = scan[off:off + b[2]]
            if len(set(srcs)) != len(srcs):
                return False
            scan[off:off + b[2]] = [("sp", k)] * b[3]
        elif b[0] == 2:
            scan[off], scan[off + 1] = scan[off + 1], scan[off]
        elif b[0] == 4:
            scan[off:off + b[1]] = [("ot", k)] * b[2]
    return True
