"""Generators of programs of the structural DSL (coq/Core/Prog.v).

Everything derives from the random.Random instance passed in.  Three streams:
exhaustive small scope, structured (mostly well-typed) random programs grown
forwards from a domain, and a separate malformed stream."""
import itertools

(ID, BOX, MK, THEN, TENSOR, DAGGER, SLICE, SLICEREV, GETITEM, INTERCHANGE,
 NORMALIZE, NORMALFORM, SWAP, PERMUTATION, PERMUTE, CUPS, CAPS, TRANSPOSE,
 FUNCTOR, FOLIATE, FOLIATION) = range(21)
KBOX, KSWAP, KCUP, KCAP = 0, 1, 2, 3


class G:
    def __init__(self, rng, rigid=False, names=(1, 2, 3), max_arity=2):
        self.rng, self.rigid, self.names, self.max_arity = rng, rigid, list(names), max_arity
        self.counter = 100

    # ---------------------------------------------------------------- atoms
    def ob(self):
        z = 0
        if self.rigid and self.rng.random() < 0.35:
            z = self.rng.choice([-2, -1, 1, 2])
        return [self.rng.choice(self.names), z]

    def ty(self, lo=0, hi=3):
        return [self.ob() for _ in range(self.rng.randint(lo, hi))]

    def box(self, dom=None, cod=None, name=None):
        if dom is None:
            dom = self.ty(0, self.max_arity)
        if cod is None:
            cod = self.ty(0, self.max_arity)
        if name is None:
            name = self.rng.randint(10, 14)
        dag = 1 if self.rng.random() < 0.2 else 0
        data = [self.rng.randint(0, 3)] if self.rng.random() < 0.15 else []
        return [KBOX, name, dom, cod, dag, data]

    def swap_box(self, a, b):
        return [KSWAP, -1, [a, b], [b, a], 0, []]

    @staticmethod
    def adj_r(x):
        return [x[0], x[1] + 1]

    def cup_box(self, x):
        """Cup(x, x.r) or Cup(x.r, x): both adjunction directions are accepted."""
        if self.rng.random() < 0.5:
            return [KCUP, -2, [x, self.adj_r(x)], [], 0, []]
        return [KCUP, -2, [self.adj_r(x), x], [], 0, []]

    def cap_box(self, x):
        if self.rng.random() < 0.5:
            return [KCAP, -3, [], [x, self.adj_r(x)], 0, []]
        return [KCAP, -3, [], [self.adj_r(x), x], 0, []]

    # ---------------------------------------------------------------- diagrams
    def grow(self, dom=None, n_boxes=None, max_width=6):
        """A well-typed (dom, cod, boxes, offsets) grown forwards from dom."""
        rng = self.rng
        if dom is None:
            dom = self.ty(0, 3)
        if n_boxes is None:
            n_boxes = rng.randint(0, 5)
        scan, boxes, offs = list(dom), [], []
        for _ in range(n_boxes):
            k = rng.randint(0, min(self.max_arity, len(scan)))
            off = rng.randint(0, len(scan) - k)
            bdom = scan[off:off + k]
            r = rng.random()
            if self.rigid and r < 0.15 and len(scan) + 2 <= max_width:
                b = self.cap_box(self.ob())
                off = rng.randint(0, len(scan))
                bdom = []
            elif self.rigid and r < 0.3 and k == 2 and (
                    bdom[1] == self.adj_r(bdom[0]) or bdom[0] == self.adj_r(bdom[1])):
                b = [KCUP, -2, bdom, [], 0, []]
            elif r < 0.4 and k == 2:
                b = self.swap_box(bdom[0], bdom[1])
            else:
                room = max(0, max_width - (len(scan) - k))
                cod = self.ty(0, min(self.max_arity, room))
                b = self.box(bdom, cod)
            boxes.append(b)
            offs.append(off)
            scan = scan[:off] + b[3] + scan[off + len(b[2]):]
        return dom, scan, boxes, offs

    def layer_prog(self, left, b, right):
        p = [BOX, b]
        if left or self.rng.random() < 0.3:
            p = [TENSOR, [ID, left], p]
        if right or self.rng.random() < 0.3:
            p = [TENSOR, p, [ID, right]]
        return p

    def diagram(self, dom=None, n_boxes=None, max_width=6):
        """A program building a well-typed diagram, through a random route."""
        dom, cod, boxes, offs = self.grow(dom, n_boxes, max_width)
        return self.route(dom, cod, boxes, offs), (dom, cod, boxes, offs)

    def route(self, dom, cod, boxes, offs):
        r = self.rng.random()
        if r < 0.45 or not boxes:
            return [MK, dom, cod, boxes, offs]
        scan, p = list(dom), [ID, dom]
        first = True
        for b, off in zip(boxes, offs):
            left, right = scan[:off], scan[off + len(b[2]):]
            lay = self.layer_prog(left, b, right)
            p = lay if first and self.rng.random() < 0.5 else [THEN, p, lay]
            first = False
            scan = left + b[3] + right
        return p

    # ---------------------------------------------------------------- operations
    def op_on(self, p, info):
        """One random API call on top of a diagram program p (info = its raw form)."""
        rng = self.rng
        dom, cod, boxes, offs = info
        n = len(boxes)
        r = rng.random()
        idx = lambda: rng.randint(-1, n)           # noqa: E731
        oi = lambda: [] if rng.random() < 0.3 else [rng.randint(-n - 1, n + 1)]   # noqa: E731
        if r < 0.10:
            return [DAGGER, p]
        if r < 0.25:
            return [SLICE, p, oi(), oi()]
        if r < 0.33:
            return [SLICEREV, p, oi(), oi()]
        if r < 0.40:
            return [GETITEM, p, rng.randint(-n - 1, n)]
        if r < 0.62:
            return [INTERCHANGE, p, idx(), idx(), rng.randint(0, 1)]
        if r < 0.70:
            return [NORMALIZE, p, rng.randint(0, 1)]
        if r < 0.76:
            return [NORMALFORM, p, rng.randint(0, 1)]
        if r < 0.78:
            return [rng.choice([FOLIATE, FOLIATION]), p]
        if r < 0.84:
            perm = list(range(len(dom)))
            rng.shuffle(perm)
            return [PERMUTE, [ID, dom], perm]
        if r < 0.90:
            q, _ = self.diagram(n_boxes=rng.randint(0, 2))
            return [TENSOR, p, q] if rng.random() < 0.5 else [TENSOR, q, p]
        if r < 0.96:
            q, _ = self.diagram(dom=cod, n_boxes=rng.randint(0, 2))
            return [THEN, p, q]
        if self.rigid:
            return [TRANSPOSE, p, rng.randint(0, 1)]
        return [DAGGER, [DAGGER, p]]

    def functor(self, p, info, max_img=2):
        """A random functor defined on the objects and plain boxes of info, applied to p."""
        obs, ars = self.functor_tables([info], max_img)
        return [FUNCTOR, obs, ars, p]

    def functor_tables(self, infos, max_img=2):
        """Object and box tables of a random functor defined on everything in infos."""
        rng = self.rng
        dom, cod, boxes, offs = [], [], [], []
        for (d0, c0, b0, o0) in infos:
            dom, cod, boxes = dom + d0, cod + c0, boxes + b0
        names = sorted({o[0] for t in [dom, cod] + [b[2] for b in boxes] + [b[3] for b in boxes] for o in t})
        saved = self.rigid
        obs = []
        for nme in names:
            obs.append([nme, self.ty(0, max_img)])
        obmap = dict((k, v) for k, v in obs)

        def img_ty(t):
            out = []
            for (nme, z) in t:
                cur = list(obmap[nme])
                for _ in range(abs(z)):
                    cur = [[a, b + (1 if z > 0 else -1)] for a, b in reversed(cur)]
                out += cur
            return out
        ars, seen = [], []
        for b in boxes:
            if b[0] != KBOX:
                continue
            base = b if not b[4] else [KBOX, b[1], b[3], b[2], 0, b[5]]
            key = repr(base)
            if key in seen:
                continue
            seen.append(key)
            idom, icod = img_ty(base[2]), img_ty(base[3])
            # image: a diagram from F(dom) to F(cod): zero or more boxes then one closing box
            if idom == icod and rng.random() < 0.3:
                img = [ID, idom]
            else:
                img = [BOX, [KBOX, 20 + len(ars), idom, icod, 0, []]]
                if rng.random() < 0.4:
                    mid = self.ty(0, 2)
                    img = [THEN, [BOX, [KBOX, 30 + len(ars), idom, mid, 0, []]],
                           [BOX, [KBOX, 40 + len(ars), mid, icod, 0, []]]]
            ars.append([base, img])
        self.rigid = saved
        return obs, ars

    # ---------------------------------------------------------------- malformed
    def malformed(self):
        rng = self.rng
        r = rng.random()
        dom, cod, boxes, offs = self.grow(n_boxes=rng.randint(1, 4))
        if r < 0.35:      # wrong offsets / negative / overlong
            offs = list(offs)
            i = rng.randrange(len(offs))
            offs[i] = rng.choice([-1, -2, offs[i] + 1, offs[i] - 1, len(dom) + 5, 7])
            return [MK, dom, cod, boxes, offs]
        if r < 0.5:       # wrong codomain or domain
            return [MK, dom, self.ty(0, 3), boxes, offs] if rng.random() < 0.5 else \
                [MK, self.ty(0, 3), cod, boxes, offs]
        if r < 0.6:       # length mismatch
            return [MK, dom, cod, boxes, offs[:-1]] if rng.random() < 0.5 else \
                [MK, dom, cod, boxes, offs + [0]]
        if r < 0.8:       # non-composable
            p, _ = self.diagram()
            q, _ = self.diagram()
            return [THEN, p, q]
        if r < 0.9 and self.rigid:
            return [rng.choice([CUPS, CAPS]), self.ty(0, 2), self.ty(0, 2)]
        p = [MK, dom, cod, boxes, offs]
        n = len(boxes)
        return [INTERCHANGE, p, rng.choice([-1, n, n + 3, 0]), rng.choice([-1, n, 0, n + 1]),
                rng.randint(0, 1)]


# -------------------------------------------------------------------- small scope
def small_signature(rigid=False):
    """Boxes of arity m -> n, 0 <= m, n <= 2, over two atomic types."""
    a, b = [1, 0], [2, 0]
    tys = [[], [a], [b], [a, a], [a, b]]
    sig = []
    k = 50
    for d in tys:
        for c in tys:
            sig.append([KBOX, k, d, c, 0, []])
            k += 1
    return sig


def enumerate_diagrams(max_boxes, doms, sig, max_width=4):
    """Every well-typed (dom, cod, boxes, offsets) with <= max_boxes boxes from sig."""
    out = []

    def rec(dom, scan, boxes, offs):
        out.append((dom, list(scan), list(boxes), list(offs)))
        if len(boxes) == max_boxes:
            return
        for b in sig:
            k = len(b[2])
            for off in range(len(scan) - k + 1):
                if scan[off:off + k] == b[2]:
                    new = scan[:off] + b[3] + scan[off + k:]
                    if len(new) <= max_width:
                        rec(dom, new, boxes + [b], offs + [off])
    for dom in doms:
        rec(dom, list(dom), [], [])
    return out
