"""Implementation side of C20: builds real `discopy.monoidal.Diagram`s from the
arity programs of coq/Draw/Layout.v, runs `drawing.diagram2nx` on them and
returns what it computed in the model's own wire encoding (exact rationals), so
that outcomes can be compared for equality.  Also: back-end rendering and the
diagramize / nx2diagram round trips used by harness/props/c20.py.

program  = [dom, cod, [[nd, nc], ...], [off, ...]]            (ints)
outcome  = [0, nodes, edges]  or  [1, errcode]
nodes    = [[[kind, a, b], xnum, xden, ynum, yden], ...]      in pos / graph.nodes order
edges    = sorted [[kind, a, b], [kind, a, b]] pairs          (networkx orders edges by
                                                              source, not by call order)
node key: input i = [0,i,0]; output i = [1,i,0]; box depth = [2,depth,0];
          dom port = [3,depth,i]; cod port = [4,depth,i]."""
import fractions
import json
import os

os.environ.setdefault("MPLBACKEND", "Agg")   # drawing.py imports pyplot at import time
import matplotlib  # noqa: E402
matplotlib.use("Agg")

from common import import_repo, with_timeout, CaseTimeout  # noqa: E402

discopy = import_repo()
from discopy import cat, drawing  # noqa: E402
from discopy.monoidal import Ty, Box, Id, Diagram  # noqa: E402

NAMES = ("x", "y", "z")      # default object names, cycled along the typed scan
MONO = ("x",)                # every wire has the same name: only arities can be wrong
ERR = {"AxiomError": 1, "IndexError": 3, "ValueError": 4, "TypeError": 5,
       "AttributeError": 9, "KeyError": 10}
ORDER_MISMATCH = 102         # list(graph.nodes) differs from list(pos)
KINDS = {"input": 0, "output": 1, "box": 2, "dom": 3, "cod": 4}


# ------------------------------------------------------------------ building
def typed_scan(program, names=NAMES):
    """Object names along the scan of an arity program.  Input wire i is called
    names[i % k]; output i of box j is called names[(i + j + 1) % k]; the domain
    of box j is whatever the scan holds at its offset (so that the constructor
    accepts every well-formed program).  Where a box does not fit (malformed
    programs) the missing names are padded with names[0].
    Returns (dom names, cod names, [(dom names, cod names) per box])."""
    dom, cod, arities, offsets = program
    k = len(names)
    scan = [names[i % k] for i in range(dom)]
    dom_names, boxes = list(scan), []
    for j, (nd, nc) in enumerate(arities):
        off = offsets[j] if j < len(offsets) else 0
        lo = min(max(off, 0), len(scan))
        taken = scan[lo:lo + nd]
        consumed = len(taken)
        taken = taken + [names[0]] * (nd - consumed)
        outs = [names[(i + j + 1) % k] for i in range(nc)]
        boxes.append((taken, outs))
        scan = scan[:lo] + outs + scan[lo + consumed:]
    cod_names = scan[:cod] + [names[0]] * (cod - len(scan))
    return dom_names, cod_names, boxes


def build(program, names=NAMES):
    """The real diagram of a program, through the public (validating) constructor."""
    dom_names, cod_names, box_names = typed_scan(program, names)
    boxes = [Box("f%d" % j, Ty(*d), Ty(*c)) for j, (d, c) in enumerate(box_names)]
    return Diagram(Ty(*dom_names), Ty(*cod_names), boxes, list(program[3]))


# ------------------------------------------------------------------ observation
def node_key(node):
    """[kind, a, b] of a drawing.Node (what Node.__eq__ sees besides obj / box)."""
    kind = KINDS[node.kind]
    if kind in (0, 1):
        return [kind, int(node.i), 0]
    if kind == 2:
        return [kind, int(node.depth), 0]
    return [kind, int(node.depth), int(node.i)]


def exact(value):
    """(numerator, denominator) of the exact value held by a float or int."""
    frac = fractions.Fraction(value)
    return frac.numerator, frac.denominator


def canon(graph, pos):
    nodes = []
    for node, (x, y) in pos.items():
        (xn, xd), (yn, yd) = exact(x), exact(y)
        nodes.append([node_key(node), xn, xd, yn, yd])
    if [node_key(n) for n in graph.nodes] != [n[0] for n in nodes]:
        return [1, ORDER_MISMATCH]
    edges = sorted([node_key(a), node_key(b)] for a, b in graph.edges())
    return [0, nodes, edges]


def err_code(exc):
    if isinstance(exc, cat.AxiomError):
        return ERR["AxiomError"]
    return ERR.get(type(exc).__name__, 100)


def _layout(program, names):
    diagram = build(program, names)
    graph, pos = drawing.diagram2nx(diagram)
    return diagram, graph, pos


def observe_full(program, seconds=10.0, names=NAMES):
    """(outcome, exception class name or None, diagram, graph, pos)."""
    try:
        diagram, graph, pos = with_timeout(seconds, _layout, program, names)
    except CaseTimeout:
        return [1, 101], "CaseTimeout", None, None, None
    except AssertionError:
        raise
    except Exception as exc:   # noqa: the class is the observation
        return [1, err_code(exc)], type(exc).__name__, None, None, None
    return canon(graph, pos), None, diagram, graph, pos


def observe(program, seconds=10.0, names=NAMES):
    """Outcome of diagram2nx on the diagram of a program, in the model's encoding."""
    return observe_full(program, seconds, names)[0]


# ------------------------------------------------------------------ back-ends
def render(diagram, directory, stem, seconds=30.0):
    """Diagram.draw with the matplotlib and the TikZ back-end into files.
    Returns {"png": size in bytes, "tikz": text}; exceptions propagate."""
    import matplotlib.pyplot as plt
    png = os.path.join(directory, stem + ".png")
    tikz = os.path.join(directory, stem + ".tikz")
    try:
        with_timeout(seconds, lambda: diagram.draw(path=png, show=False))
    finally:
        plt.close("all")
    with_timeout(seconds, lambda: diagram.draw(to_tikz=True, path=tikz, show=False))
    out = {"png": os.path.getsize(png) if os.path.exists(png) else -1, "tikz": None}
    if os.path.exists(tikz):
        with open(tikz) as fh:
            out["tikz"] = fh.read()
    return out


# ------------------------------------------------------------------ inverse constructions
def planar_body(boxes, offsets, always_offset=False):
    """A function body in the diagramize syntax applying the boxes in order to
    its open wires in planar order (the scan).  Boxes without inputs are given
    offset= (required by the API, see nx2diagram's docstring)."""
    def body(*inputs):
        scan = list(inputs)
        for box, off in zip(boxes, offsets):
            nd = len(box.dom)
            args = scan[off:off + nd]
            outs = box(*args, offset=off) if (nd == 0 or always_offset) else box(*args)
            outs = outs if isinstance(outs, tuple) else (outs, )
            scan = scan[:off] + list(outs) + scan[off + nd:]
        return scan[0] if len(scan) == 1 else tuple(scan)
    return body


def via_diagramize(program, names=NAMES, always_offset=False, seconds=10.0):
    """The diagram obtained by declaring the program with drawing.diagramize
    (fresh box objects, so that a failure cannot leave _apply on shared ones)."""
    fresh = build(program, names)
    body = planar_body(fresh.boxes, fresh.offsets, always_offset)
    deco = drawing.diagramize(fresh.dom, fresh.cod, fresh.boxes, id_factory=Id)
    return with_timeout(seconds, deco, body)


def via_nx2diagram(diagram, seconds=10.0):
    """nx2diagram applied to the graph diagram2nx returns; box nodes without
    inputs are given the offset attribute nx2diagram's docstring asks for."""
    def go():
        graph, _ = drawing.diagram2nx(diagram)
        for node in graph.nodes:
            if node.kind == "box" and not node.box.dom:
                node.offset = diagram.offsets[node.depth]
        return drawing.nx2diagram(graph, ob_factory=Ty, id_factory=Id)
    return with_timeout(seconds, go)


def same_diagram(a, b):
    return (a == b and a.dom == b.dom and a.cod == b.cod
            and list(a.boxes) == list(b.boxes) and list(a.offsets) == list(b.offsets))


# ------------------------------------------------------------------ replay helper
def explain(program, names=NAMES):
    """Human-readable replay: the diagram, its positions, the oracle verdict."""
    from props import c20
    program = json.loads(program) if isinstance(program, str) else program
    lines = ["program %s" % json.dumps(program)]
    outcome, exc, diagram, graph, pos = observe_full(program, names=names)
    if diagram is None:
        lines.append("implementation refuses: %s (outcome %s)" % (exc, outcome))
    else:
        lines.append("diagram %r" % (diagram,))
        for node, (x, y) in pos.items():
            lines.append("  %-60s x=%s y=%s" % (node, fractions.Fraction(x), fractions.Fraction(y)))
        lines.append("edges " + ", ".join("%s->%s" % (node_key(a), node_key(b))
                                          for a, b in graph.edges()))
        bad, _ = c20.oracle(diagram, graph, pos)
        lines.append("oracle: " + ("; ".join(bad) if bad else "ok"))
        try:
            back = via_diagramize(program, names)
            lines.append("diagramize round trip: " + (
                "ok" if same_diagram(back, diagram) else "DIFFERENT %r" % (back,)))
        except Exception as exc2:   # noqa
            lines.append("diagramize round trip raised %s: %s" % (type(exc2).__name__, exc2))
        try:
            back = via_nx2diagram(diagram)
            lines.append("nx2diagram(diagram2nx) round trip: " + (
                "ok" if same_diagram(back, diagram) else "DIFFERENT %r" % (back,)))
        except Exception as exc2:   # noqa
            lines.append("nx2diagram round trip raised %s: %s" % (type(exc2).__name__, exc2))
    try:
        import common
        model = common.run_model("draw", [program])[0]
        mine = [0, outcome[1], outcome[2]] if outcome[0] == 0 else outcome
        theirs = c20.canon_model(model)
        lines.append("model: " + ("agrees" if common.freeze(mine) == common.freeze(theirs)
                                  else "DIFFERS: %s" % (theirs,)))
    except Exception as exc3:   # noqa
        lines.append("model not run: %s" % (exc3,))
    return "\n".join(lines)
