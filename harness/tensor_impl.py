"""Interpreter of the Tensor program DSL (coq/Tensor/Tensor.v, `tprog`) and of the
numpy-primitive requests (`run_numpy`) over the *real* discopy.tensor / numpy
imported from /repo, and canonical observation of the results in the model's
own wire encoding (so that outcomes can be compared for equality).

Tensor programs (nested int lists):
  [0, dom, cod, data]  Tensor(Dim(*dom), Dim(*cod), data)   data = [[re, im], ...]
  [1, p, q]            p >> q
  [2, p, q]            p @ q
  [3, p]               p.dagger()
  [4, dom]             Tensor.id(Dim(*dom))
  [5, l, r]            Tensor.swap(Dim(*l), Dim(*r))
  [6, l, r]            Tensor.cups(Dim(*l), Dim(*r))
  [7, l, r]            Tensor.caps(Dim(*l), Dim(*r))
numpy requests (array = [shape, data]):
  [10, a, newshape] [11, a, b, k] [12, a, src, dst] [13, a, perm] [14, n] [15, a]
Outcomes: [0, [dom, cod, [shape, data]]] / [0, [shape, data]] / [1, code]."""
import json

from common import import_repo, with_timeout, CaseTimeout

discopy = import_repo()
import numpy  # noqa: E402
from discopy.cat import AxiomError  # noqa: E402
from discopy.tensor import Tensor, Dim  # noqa: E402

(LIT, THEN, TENSOR, DAGGER, ID, SWAP, CUPS, CAPS) = range(8)
(RESHAPE, TENSORDOT, MOVEAXIS, TRANSPOSE, IDENTITY, CONJUGATE) = range(10, 16)
OPNAMES = {LIT: "lit", THEN: "then", TENSOR: "tensor", DAGGER: "dagger", ID: "id",
           SWAP: "swap", CUPS: "cups", CAPS: "caps", RESHAPE: "reshape",
           TENSORDOT: "tensordot", MOVEAXIS: "moveaxis", TRANSPOSE: "transpose",
           IDENTITY: "identity", CONJUGATE: "conjugate"}

# error codes of coq/Common/Base.v err_code
ERR = {"AxiomError": 1, "InterchangerError": 2, "IndexError": 3, "ValueError": 4,
       "TypeError": 5, "NotImplementedError": 6, "OutOfFuel": 7, "BadProgram": 8,
       "AttributeError": 9}
NOT_A_TENSOR = 97        # the public operator returned something that is not a Tensor
NON_INTEGER = 98         # an entry is not a Gaussian integer below 2**53
TIMEOUT = 99
OTHER = 100              # 100 + index in UNKNOWN_CLASSES
UNKNOWN_CLASSES = []     # names of exception classes without a code, in order of appearance
COUNTS = {"non_integer": 0, "timeout": 0, "unknown_exception": 0, "not_a_tensor": 0}
LIMIT = 2 ** 53


class NonInteger(Exception):
    pass


def err_code(exc):
    """Exception *class* -> code.  numpy's AxisError is both a ValueError and an
    IndexError: ValueError is tested first (the model answers ValueError)."""
    if isinstance(exc, AxiomError):
        return ERR["AxiomError"]
    for cls, name in ((ValueError, "ValueError"), (IndexError, "IndexError"),
                      (TypeError, "TypeError"), (NotImplementedError, "NotImplementedError"),
                      (AttributeError, "AttributeError")):
        if isinstance(exc, cls):
            return ERR[name]
    name = type(exc).__name__
    if name not in UNKNOWN_CLASSES:
        UNKNOWN_CLASSES.append(name)
    COUNTS["unknown_exception"] += 1
    return OTHER + UNKNOWN_CLASSES.index(name)


def err_name(code):
    for name, c in ERR.items():
        if c == code:
            return name
    if code >= OTHER and code - OTHER < len(UNKNOWN_CLASSES):
        return UNKNOWN_CLASSES[code - OTHER]
    return {NOT_A_TENSOR: "not-a-Tensor", NON_INTEGER: "non-integer-entry",
            TIMEOUT: "timeout"}.get(code, "code%d" % code)


# ------------------------------------------------------------------ data
def py_data(data):
    """[[re, im], ...] -> Python ints when every imaginary part is 0, else complex."""
    if all(im == 0 for _, im in data):
        return [int(re) for re, _ in data]
    return [complex(re, im) for re, im in data]


def np_array(a):
    """[shape, data] -> int64 / complex128 ndarray of that shape."""
    shape, data = a
    flat = py_data(data)
    dtype = numpy.int64 if all(isinstance(x, int) for x in flat) else numpy.complex128
    return numpy.array(flat, dtype=dtype).reshape(tuple(shape))


def _int_of(x):
    x = float(x)
    if not x.is_integer() or abs(x) >= LIMIT:
        raise NonInteger(repr(x))
    return int(x)


def canon_entry(x):
    if isinstance(x, (int, numpy.integer)) and not isinstance(x, (bool, numpy.bool_)):
        v = int(x)
        if abs(v) >= LIMIT:
            raise NonInteger(repr(x))
        return [v, 0]
    try:
        z = complex(x)
    except Exception:       # noqa: object entries (sympy, ...) are not Gaussian integers
        raise NonInteger(repr(x))
    return [_int_of(z.real), _int_of(z.imag)]


def canon_array(array):
    """ndarray -> [shape, data] with exact Gaussian-integer entries, row-major."""
    array = numpy.asarray(array)
    return [[int(n) for n in array.shape],
            [canon_entry(x) for x in array.flatten().tolist()]]


def canon_dim(dim):
    return [int(ob.name) for ob in dim.objects]


def canon_tensor(t):
    return [canon_dim(t.dom), canon_dim(t.cod), canon_array(t.array)]


# ------------------------------------------------------------------ interpreters
def interp(p):
    """Evaluate a Tensor program through the public API, in Python's evaluation order."""
    op = p[0]
    if op == LIT:
        dom = Dim(*p[1])
        cod = Dim(*p[2])
        return Tensor(dom, cod, py_data(p[3]))
    if op == THEN:
        a = interp(p[1])
        b = interp(p[2])
        return a >> b
    if op == TENSOR:
        a = interp(p[1])
        b = interp(p[2])
        return a @ b
    if op == DAGGER:
        return interp(p[1]).dagger()
    if op == ID:
        return Tensor.id(Dim(*p[1]))
    if op in (SWAP, CUPS, CAPS):
        left = Dim(*p[1])
        right = Dim(*p[2])
        if op == SWAP:
            return Tensor.swap(left, right)
        if op == CUPS:
            return Tensor.cups(left, right)
        return Tensor.caps(left, right)
    raise AssertionError("bad opcode %r" % (op,))


def numpy_interp(q):
    op = q[0]
    if op == RESHAPE:
        return np_array(q[1]).reshape(tuple(q[2]))
    if op == TENSORDOT:
        return numpy.tensordot(np_array(q[1]), np_array(q[2]), q[3])
    if op == MOVEAXIS:
        return numpy.moveaxis(np_array(q[1]), list(q[2]), list(q[3]))
    if op == TRANSPOSE:
        return numpy.transpose(np_array(q[1]), list(q[2]))
    if op == IDENTITY:
        return numpy.identity(q[1])
    if op == CONJUGATE:
        return numpy.conjugate(np_array(q[1]))
    raise AssertionError("bad opcode %r" % (op,))


def _observe(func, arg, canon, seconds):
    try:
        v = with_timeout(seconds, func, arg)
    except CaseTimeout:
        COUNTS["timeout"] += 1
        return [1, TIMEOUT], None
    except AssertionError:
        raise
    except Exception as exc:   # noqa: the class is the observation
        return [1, err_code(exc)], None
    try:
        return [0, canon(v)], v
    except NonInteger:
        COUNTS["non_integer"] += 1
        return [1, NON_INTEGER], v


def _canon_result(v):
    if not isinstance(v, Tensor):
        COUNTS["not_a_tensor"] += 1
        raise _NotATensor()
    return canon_tensor(v)


class _NotATensor(Exception):
    pass


def observe_value(p, seconds=10.0):
    """(outcome, Tensor or None) of a Tensor program on the implementation."""
    try:
        return _observe(interp, p, _canon_result, seconds)
    except _NotATensor:
        return [1, NOT_A_TENSOR], None


def observe(p, seconds=10.0):
    """Outcome of a Tensor program on the implementation, in the model's encoding."""
    return observe_value(p, seconds)[0]


def numpy_observe(q, seconds=10.0):
    """Outcome of a numpy-primitive request on the installed numpy."""
    return _observe(numpy_interp, q, canon_array, seconds)[0]


# ------------------------------------------------------------------ replays
def _dim(l):
    return "Dim(%s)" % ", ".join(str(x) for x in l) if l else "Dim(1)"


def _num(re, im):
    if im == 0:
        return str(re)
    if re == 0:
        return "%dj" % im
    return "(%d%+dj)" % (re, im)


def pretty(p):
    """A Python expression (over Tensor, Dim, numpy) for samples and replays."""
    op = p[0]
    if op == LIT:
        return "Tensor(%s, %s, [%s])" % (_dim(p[1]), _dim(p[2]),
                                         ", ".join(_num(re, im) for re, im in p[3]))
    if op == THEN:
        return "(%s >> %s)" % (pretty(p[1]), pretty(p[2]))
    if op == TENSOR:
        return "(%s @ %s)" % (pretty(p[1]), pretty(p[2]))
    if op == DAGGER:
        return "%s.dagger()" % pretty(p[1])
    if op == ID:
        return "Tensor.id(%s)" % _dim(p[1])
    if op in (SWAP, CUPS, CAPS):
        return "Tensor.%s(%s, %s)" % (OPNAMES[op], _dim(p[1]), _dim(p[2]))

    def arr(a):
        return "numpy.array([%s]).reshape(%r)" % (
            ", ".join(_num(re, im) for re, im in a[1]), tuple(a[0]))
    if op == RESHAPE:
        return "%s.reshape(%r)" % (arr(p[1]), tuple(p[2]))
    if op == TENSORDOT:
        return "numpy.tensordot(%s, %s, %d)" % (arr(p[1]), arr(p[2]), p[3])
    if op == MOVEAXIS:
        return "numpy.moveaxis(%s, %r, %r)" % (arr(p[1]), list(p[2]), list(p[3]))
    if op == TRANSPOSE:
        return "numpy.transpose(%s, %r)" % (arr(p[1]), list(p[2]))
    if op == IDENTITY:
        return "numpy.identity(%d)" % p[1]
    if op == CONJUGATE:
        return "numpy.conjugate(%s)" % arr(p[1])
    raise AssertionError("bad opcode %r" % (op,))


def show(p):
    """pretty form and outcome of one program / request (used by the replay snippets)."""
    print(pretty(p))
    print("  ->", numpy_observe(p) if p[0] >= 10 else observe(p))


def snippet(*programs):
    """Stand-alone shell command replaying the given programs against /repo."""
    return ("cd /verif/harness && PYTHONPATH=/repo /venv/bin/python -B -c \"import tensor_impl as ti; "
            "[ti.show(p) for p in %s]\"" % json.dumps(list(programs), separators=(",", ":")))
