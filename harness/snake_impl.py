"""Interpreter of the snake-removal requests (coq/Snake/Snake.v, `run_sexp`) over
the *real* DisCoPy imported from /repo, canonical observation of the outcome in
the model's own wire encoding, and the independent wire-following used by the
C07 oracles.

A request is [mode, dom, cod, boxes, offsets, left]:
  mode 0  the trace of rigid.Diagram.normalize(d, left=left)  (= rewriting.snake_removal):
          answer [0, [diagram...], status], status 0 = generator exhausted,
          -1 = cut after TRACE_LIMIT yields, k > 0 = raised exception class k;
  mode 1  d.normal_form(left=left): [0, diagram] or [1, k];
  mode 2  (model only) what find_snake selects on d.
Building the diagram itself may raise: [1, k] in every mode."""
import itertools

import core_impl as ci
from common import with_timeout, CaseTimeout

from discopy import monoidal, rigid, rewriting  # noqa: E402  (imported from /repo by core_impl)

TRACE, NORMAL_FORM, FIND_SNAKE = 0, 1, 2
TRACE_LIMIT = 60           # must match Snake.trace_limit
KBOX, KSWAP, KCUP, KCAP = ci.KBOX, ci.KSWAP, ci.KCUP, ci.KCAP
CUT, TIMEOUT, HOOK = -1, 101, 102

RIGID = ci.Cls("rigid")


def build(req):
    """rigid.Diagram(dom, cod, boxes, offsets) through the public constructor."""
    _, dom, cod, boxes, offs, _ = req
    c = RIGID
    return c.Diagram(c.ty(dom), c.ty(cod), [c.box(b) for b in boxes], list(offs))


def exc_code(exc):
    if isinstance(exc, CaseTimeout):
        return TIMEOUT
    if isinstance(exc, monoidal.VerifHookError):
        return HOOK
    if isinstance(exc, ci.OutOfFuel):
        return ci.ERR["OutOfFuel"]
    return ci.err_code(exc)


class Run:
    """Everything one request did on the implementation."""
    __slots__ = ("req", "diagram", "build_exc", "steps", "status", "exc", "result", "obs")

    def __init__(self, req):
        self.req, self.diagram, self.build_exc = req, None, None
        self.steps, self.status, self.exc, self.result, self.obs = [], None, None, None, None


def _trace(d, left):
    steps, status, exc = [], 0, None
    gen = d.normalize(left=left)          # rigid.Diagram.normalize = rewriting.snake_removal
    try:
        for step in itertools.islice(gen, TRACE_LIMIT + 1):
            steps.append(step)
    except Exception as e:   # noqa: the class is the observation
        status, exc = exc_code(e), e
    if len(steps) > TRACE_LIMIT:
        steps, status, exc = steps[:TRACE_LIMIT], CUT, None
    return steps, status, exc


def _normal_form(d, left):
    return d.normal_form(normalizer=ci.bounded(rigid.Diagram.normalize), left=left)


def run(req, seconds=20.0):
    """Run one request on the implementation; returns a Run with .obs canonical."""
    r = Run(req)
    mode, left = req[0], bool(req[5])
    try:
        r.diagram = with_timeout(seconds, build, req)
    except AssertionError as e:
        if not isinstance(e, monoidal.VerifHookError):
            raise
        r.build_exc, r.obs = e, [1, HOOK]
        return r
    except Exception as e:   # noqa
        r.build_exc, r.obs = e, [1, exc_code(e)]
        return r
    if mode == TRACE:
        try:
            r.steps, r.status, r.exc = with_timeout(seconds, _trace, r.diagram, left)
        except CaseTimeout as e:
            r.steps, r.status, r.exc = [], TIMEOUT, e
        r.obs = [0, [ci.canon_diagram(s) for s in r.steps], r.status]
    elif mode == NORMAL_FORM:
        try:
            r.result = with_timeout(seconds, _normal_form, r.diagram, left)
            r.obs = [0, ci.canon_diagram(r.result)]
        except AssertionError as e:
            if not isinstance(e, monoidal.VerifHookError):
                raise
            r.exc, r.obs = e, [1, HOOK]
        except Exception as e:   # noqa
            r.exc, r.obs = e, [1, exc_code(e)]
    else:
        raise AssertionError("mode %r is model-only" % (mode,))
    timed_out = (r.obs == [1, TIMEOUT]) or (mode == TRACE and r.status == TIMEOUT)
    if timed_out and seconds < 100:
        # a watchdog timeout on a busy machine is not an observation of the library: look again,
        # with a budget six times as large, before calling it one
        import gc
        gc.collect()
        return run(req, seconds=6 * seconds)
    return r


# ------------------------------------------------------------------ independent wire-following
def wiring(d):
    """Name every wire of a diagram and record who produces / consumes it.
    Returns (outs, consumer): outs[i] = wire ids produced by box i (left to right);
    consumer[w] = (box index, position in that box's domain) or None (reaches the
    codomain).  Reads boxes and offsets only."""
    fresh = itertools.count()
    scan = [next(fresh) for _ in range(len(d.dom))]
    consumer, outs = {w: None for w in scan}, []
    for i, (box, off) in enumerate(zip(d.boxes, d.offsets)):
        n_in, n_out = len(box.dom), len(box.cod)
        assert 0 <= off and off + n_in <= len(scan), "ill-typed diagram handed to wiring()"
        for pos, w in enumerate(scan[off:off + n_in]):
            consumer[w] = (i, pos)
        new = [next(fresh) for _ in range(n_out)]
        for w in new:
            consumer[w] = None
        outs.append(new)
        scan = scan[:off] + new + scan[off + n_in:]
    return outs, consumer


def types_match(cap_box, cup_box):
    """The pair satisfies a snake equation: the cup eats the cap's two types in
    the opposite order (Cap(a, b) against Cup(b, a))."""
    return list(cup_box.dom.objects) == list(reversed(cap_box.cod.objects))


def yankable_pairs(d):
    """Every (cap index, cup index, left_snake, types_match) such that a leg of the
    cap runs straight (no box in between on that wire) into the *opposite* leg of
    a cup, in find_snake's search order (caps top to bottom, left leg first)."""
    outs, consumer = wiring(d)
    found = []
    for i, box in enumerate(d.boxes):
        if not isinstance(box, rigid.Cap):
            continue
        for left_snake, leg, want_pos in ((True, 0, 1), (False, 1, 0)):
            hit = consumer[outs[i][leg]]
            if hit is None:
                continue
            j, pos = hit
            if isinstance(d.boxes[j], rigid.Cup) and pos == want_pos:
                found.append((i, j, left_snake, types_match(box, d.boxes[j])))
    return found
