"""Interpreter of the gradient program DSL (coq/Grad/GradProg.v) over the *real*
DisCoPy imported from /repo, and canonical observation of the formal sums it
returns in the model's own wire encoding.

Boxes travel as
    [0, pbox]                              a box of param_impl (coq/Param)
    [1, zx, mixed, [py, i, pi, poly, exp]] a scalar whose datum is a coefficient
                                           i^i * pi^pi * poly * exp(2 i pi q)   (answers only)
    [2, nin, nout, dim]                    tensor.Spider
    [3, fun, dom, cod, boxes, offs]        tensor.Bubble around Diagram(dom, cod, boxes, offs)
    fun = [0, poly in the symbol s90] | [1, var]   (x -> x.diff(var))

The coefficient form is computed from the implementation's value alone: a
float r is `rational` when it is an exact dyadic with denominator <= 4096,
`rational * pi` when r / math.pi is within 1e-12 of such a fraction; symbolic
sympy.pi, sympy.I and one exp(2 i pi q) factor are read off the expression."""
import math
import re
from fractions import Fraction

import numpy
import sympy

import param_impl as pi
from common import with_timeout, CaseTimeout

discopy = pi.discopy
from discopy import cat, monoidal, rigid, tensor  # noqa: E402
from discopy.quantum import circuit, gates, zx  # noqa: E402

GRAD, JAC, DIFF = range(3)
TMP = 90
ERR = {"AxiomError": 1, "ValueError": 4, "TypeError": 5, "NotImplementedError": 6,
       "RecursionError": 7, "BadProgram": 8, "AttributeError": 9}
MAXDEN = 4096


def err_code(exc):
    if isinstance(exc, CaseTimeout):
        return 98
    return ERR.get(type(exc).__name__, 99)


# ------------------------------------------------------------------ coefficients
def classify_real(r):
    """float -> ('q', Fraction) exact small dyadic, or ('pi', Fraction) with r ~ Fraction * pi."""
    r = float(r)
    fr = Fraction(r)
    if fr.denominator <= MAXDEN:
        return "q", fr
    q = Fraction(r / math.pi).limit_denominator(MAXDEN)
    if abs(float(q) * math.pi - r) <= 1e-12 * max(1.0, abs(r)):
        return "pi", q
    raise ValueError("coefficient %r is neither a small dyadic nor a small dyadic times pi" % (r,))


def _is_number(x):
    return isinstance(x, (bool, int, float, complex, numpy.integer, numpy.floating,
                          numpy.complexfloating, numpy.bool_))


def canon_coef(x):
    """value of a scalar -> [py, i, pi, poly, exp] or raise ValueError."""
    if _is_number(x):
        z = complex(x)
        if z.imag == 0:
            im, r = 0, z.real
        elif z.real == 0:
            im, r = 1, z.imag
        else:
            raise ValueError("complex coefficient %r" % (x,))
        kind, fr = classify_real(r)
        poly = [] if fr == 0 else [[[], fr.numerator, fr.denominator]]
        return [1, im, 1 if kind == "pi" else 0, poly, []]
    exps = list(x.atoms(sympy.exp))
    exp_part = []
    c = x
    if len(exps) == 1:
        E = exps[0]
        c = x.coeff(E)
        if sympy.expand(x - c * E, power_exp=False) != 0:
            raise ValueError("not a multiple of one exponential: %r" % (x,))
        q = sympy.expand(E.args[0] / (2 * sympy.I * sympy.pi))
        enc = pi.enc_expr(sympy.sympify(q))
        exp_part = [enc[1]]
    elif exps:
        raise ValueError("several exponentials: %r" % (x,))
    c = sympy.expand(c)
    re_, im_ = c.as_real_imag()
    re_, im_ = sympy.expand(re_), sympy.expand(im_)
    if im_ == 0:
        im, p = 0, re_
    elif re_ == 0:
        im, p = 1, im_
    else:
        raise ValueError("coefficient with real and imaginary part: %r" % (x,))
    P = sympy.Symbol("PI_", positive=True)
    p = sympy.expand(p.subs(sympy.pi, P))
    power, terms = None, []
    for term, coef in p.as_coefficients_dict().items():
        powers = dict(term.as_powers_dict())
        deg = int(powers.pop(P, 0))
        if complex(coef).imag != 0:
            raise ValueError("coefficient %r" % (x,))
        kind, fr = classify_real(complex(coef).real)
        if fr == 0:
            continue
        k = deg + (1 if kind == "pi" else 0)
        if power is None:
            power = k
        elif power != k:
            raise ValueError("mixed powers of pi: %r" % (x,))
        mono = []
        for s, e in powers.items():
            if s == 1:
                continue
            if not (isinstance(s, sympy.Symbol) and int(e) == e and e >= 1):
                raise ValueError("not a monomial: %r" % (term,))
            mono.append([pi.sym_id(s), int(e)])
        mono.sort()
        terms.append([mono, fr.numerator, fr.denominator])
    if power not in (None, 0, 1):
        raise ValueError("pi squared: %r" % (x,))
    terms.sort(key=lambda t: t[0])
    return [0, im, power or 0, terms, exp_part]


def scalar_payload(x):
    """('poly', wire expr) when the datum is a rational polynomial, else ('coef', coefficient)."""
    if _is_number(x):
        c = canon_coef(x)
        if c[1] == 0 and c[2] == 0:
            return "poly", [0, c[3]]
        return "coef", c
    has_special = bool(x.atoms(sympy.exp)) or x.has(sympy.pi) or x.has(sympy.I)
    floats_ok = all(Fraction(float(f)).denominator <= MAXDEN for f in x.atoms(sympy.Float))
    if not has_special and floats_ok:
        return "poly", pi.enc_expr(x)
    return "coef", canon_coef(x)


# ------------------------------------------------------------------ bubble functions
_T = pi.sym(TMP)
_PROBE = _T * sum((k * pi.sym(k) for k in range(1, 7)), sympy.Integer(0))


def build_fun(f):
    if f[0] == 1:
        var = pi.sym(f[1])
        return lambda x: getattr(x, "diff", lambda _: 0)(var)
    p = sympy.sympify(pi.build_expr([1, f[1]]))
    return lambda x: p.subs(_T, x)


def canon_fun(func):
    """Identify Bubble.func by probing it: a polynomial applied entrywise, or d/d var."""
    p1 = sympy.expand(sympy.sympify(func(_T)))
    p2 = sympy.expand(sympy.sympify(func(_PROBE)))
    if p1 == 0 and p2 != 0:
        for k in range(1, 7):
            if sympy.expand(p2 - k * _T) == 0:
                return [1, k]
        raise ValueError("unrecognised bubble function")
    if sympy.expand(p1.subs(_T, _PROBE) - p2) != 0:
        raise ValueError("unrecognised bubble function")
    e = pi.enc_expr(p1)
    if any(s != TMP for mono, _, _ in e[1] for s, _ in mono):
        raise ValueError("bubble function mentions parameters")
    return [0, e[1]]


# ------------------------------------------------------------------ types
def build_ty(cls, t):
    if cls == pi.CCIRC:
        return circuit.Ty(*[circuit.Digit(2) if n == 1 else circuit.Qudit(2) if n == 2
                            else circuit.Digit(n - 10) for n in t])
    return pi.build_ty(cls, t)


def canon_ty(cls, t):
    if cls == pi.CCIRC:
        out = []
        for ob in t.objects:
            if isinstance(ob, circuit.Digit):
                out.append(1 if ob.dim == 2 else 10 + ob.dim)
            else:
                assert ob.dim == 2
                out.append(2)
        return out
    return pi.canon_ty(cls, t)


# ------------------------------------------------------------------ boxes
def build_gbox(cls, b):
    tag = b[0]
    if tag == 0:
        return pi.build_box(cls, b[1])
    if tag == 2:
        return tensor.Spider(b[1], b[2], tensor.Dim(*b[3]))
    if tag == 3:
        _, f, dom, cod, boxes, offs = b
        inside = tensor.Diagram(tensor.Dim(*dom), tensor.Dim(*cod),
                                [build_gbox(cls, x) for x in boxes], list(offs))
        return tensor.Bubble(inside, func=build_fun(f), drawing_name="f")
    raise ValueError("box tag %r" % (tag,))


def canon_gbox(cls, box):
    if isinstance(box, tensor.Bubble):
        ins = box.inside
        return [3, canon_fun(box.func), pi.canon_ty(pi.CTEN, box.dom), pi.canon_ty(pi.CTEN, box.cod),
                [canon_gbox(cls, x) for x in ins.boxes], [int(o) for o in ins.offsets]]
    if isinstance(box, tensor.Spider):
        m = re.match(r"Spider\((\d+), (\d+),", box.name)
        return [2, int(m.group(1)), int(m.group(2)), pi.canon_ty(pi.CTEN, box.dim)]
    if isinstance(box, (gates.Scalar, zx.Scalar)) and not isinstance(box, gates.Sqrt):
        kind, val = scalar_payload(box.data)
        if kind == "coef":
            is_zx = 1 if isinstance(box, zx.Scalar) else 0
            mixed = 1 if (not is_zx and box.is_mixed) else 0
            return [1, is_zx, mixed, val]
        b = pi.canon_box(cls, box)
        return [0, b[:6] + [[0, val]]]
    if isinstance(box, gates.Digits):
        n, (i,) = box.dim, box.digits
        code = 1 + i if n == 2 else 2000 + 100 * n + i
        return [0, [pi.KCLASSICAL, code, canon_ty(cls, box.dom), canon_ty(cls, box.cod),
                    1 if box.is_dagger else 0, 0, []]]
    if isinstance(box, (gates.Ket, gates.Bra)) and tuple(box.bitstring) == (1, 1):
        code = 31 if isinstance(box, gates.Ket) else 30
        return [0, [pi.KGEN, code, canon_ty(cls, box.dom), canon_ty(cls, box.cod), 0, 0, []]]
    if cls == pi.CTEN and isinstance(box.name, sympy.Symbol):
        return [0, [pi.KGEN, 1000 + pi.sym_id(box.name), pi.canon_ty(cls, box.dom),
                    pi.canon_ty(cls, box.cod), 0, 0, pi.enc_data(box.data)]]
    return [0, pi.canon_box(cls, box)]


def build_diagram(cls, dom, cod, boxes, offs):
    bs = [build_gbox(cls, b) for b in boxes]
    if cls == pi.CCAT:
        if len(bs) != len(offs):
            raise ValueError("boxes and offsets")
        return cat.Arrow(pi.build_ty(cls, dom), pi.build_ty(cls, cod), bs)
    return pi.DIAGRAM_CLASS[cls](build_ty(cls, dom), build_ty(cls, cod), bs, list(offs))


def canon_sum(cls, s):
    if not isinstance(s, cat.Sum):
        raise AssertionError("grad did not return a formal sum: %r" % (type(s),))
    return [0, canon_ty(cls, s.dom), canon_ty(cls, s.cod),
            [[[canon_gbox(cls, b) for b in t.boxes], [int(o) for o in t.offsets]] for t in s.terms]]


def kwargs_of(cls, mixed):
    return {} if (mixed or cls != pi.CCIRC) else {"mixed": False}


def interp(p):
    op = p[0]
    if op == GRAD:
        _, cls, dom, cod, boxes, offs, var, mixed = p
        d = build_diagram(cls, dom, cod, boxes, offs)
        return canon_sum(cls, d.grad(pi.sym(var), **kwargs_of(cls, mixed)))
    if op == JAC:
        _, cls, dom, cod, boxes, offs, vs, mixed = p
        d = build_diagram(cls, dom, cod, boxes, offs)
        return canon_sum(cls, d.jacobian([pi.sym(v) for v in vs], **kwargs_of(cls, mixed)))
    if op == DIFF:
        return [1, pi.enc_expr(pi.build_expr(p[1]).diff(pi.sym(p[2])))]
    raise ValueError("opcode %r" % (op,))


def observe(p, seconds=30.0):
    """Outcome of a program on the implementation, in the model's encoding."""
    def go():
        return [0, interp(p)]
    try:
        return with_timeout(seconds, go)
    except AssertionError:
        raise
    except BaseException as exc:  # noqa: the class is the observation
        if isinstance(exc, (KeyboardInterrupt, SystemExit)):
            raise
        return [1, err_code(exc)]
