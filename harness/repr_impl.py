"""C03: building values of the free categories along different routes on the
*real* DisCoPy imported from /repo, observing them canonically, and talking to
the extracted model coq/Repr/Repr.v (runner `repr`).

A value is rebuilt from a *recipe* [kind, class, route, wire, param] so that every
failing case can be replayed stand-alone:  kind in ty / box / diagram / sum,
wire = the model's encoding of the seed value, route = name of a builder below."""
import json

import common
import core_impl as ci
from core_impl import KBOX, KSWAP, KCUP, KCAP

from discopy import cat, monoidal, rigid  # noqa: E402  (after import_repo in core_impl)

CLS_CODE = {"monoidal": 0, "rigid": 1}
KIND_CODE = {"ty": 0, "box": 1, "diagram": 2, "sum": 3}
EQ_OP = {"ty": 10, "box": 11, "diagram": 12, "sum": 13}
OP_BOX_VS_DIAGRAM, OP_PARSE = 14, 20


def model_available():
    try:
        common.model_entry("repr")
        return None
    except RuntimeError as exc:
        return ("runner/models.txt has no line `repr:ExtractRepr.v:Repr/Repr.vo` (%s): the C03 "
                "correspondence cannot run" % exc)


def namespace(cname):
    """Where eval(repr(v)) is evaluated: the names of the class's module.  Sums of
    rigid diagrams are monoidal.Sum objects (rigid.py defines no Sum), so for the
    rigid class the monoidal names are visible underneath the rigid ones."""
    ns = dict(vars(monoidal))
    if cname == "rigid":
        ns.update(vars(rigid))
    return ns


# ------------------------------------------------------------------ canonical forms
def canon_diagram(d):
    return [ci.canon_ty(d.dom), ci.canon_ty(d.cod), [ci.canon_box(b) for b in d.boxes],
            [int(o) for o in d.offsets]]


def canon(kind, v):
    if kind == "ty":
        return ci.canon_ty(v)
    if kind == "box":
        return ci.canon_box(v)
    if kind == "diagram":
        return canon_diagram(v)
    if kind == "sum":
        return [ci.canon_ty(v.dom), ci.canon_ty(v.cod), [canon_diagram(t) for t in v.terms]]
    raise ValueError(kind)


def repr_prog(kind, cname, c):
    k = CLS_CODE[cname]
    if kind == "ty":
        return [0, k, c]
    if kind == "box":
        return [1, k, c]
    if kind == "diagram":
        return [2, k] + c
    if kind == "sum":
        return [3, k] + c
    raise ValueError(kind)


def eq_prog(kind, ca, cb):
    return [EQ_OP[kind], ca, cb]


def parse_prog(kind, text):
    return [OP_PARSE, KIND_CODE[kind], [ord(ch) for ch in text]]


def decode_str(ans):
    if ans[0] != 0:
        return None
    return "".join(chr(k) for k in ans[1])


# ------------------------------------------------------------------ well-typedness (independent)
def reads(dom, boxes, offs):
    """Range-checked reading of wire-form boxes at offsets; the codomain or None."""
    scan = list(dom)
    for b, off in zip(boxes, offs):
        k = len(b[2])
        if off < 0 or off + k > len(scan) or scan[off:off + k] != b[2]:
            return None
        scan = scan[:off] + b[3] + scan[off + k:]
    return scan


# ------------------------------------------------------------------ routes
def dagger_wire(b):
    kind, name, dom, cod, dag, data = b
    if kind == KBOX:
        return [KBOX, name, cod, dom, 1 - dag, data]
    if kind == KSWAP:
        return [KSWAP, -1, cod, dom, 0, data]
    if kind == KCUP:
        return [KCAP, -3, cod, dom, 0, data]
    return [KCUP, -2, cod, dom, 0, data]


def build_ty(c, route, t, i):
    if route == "ctor":
        return c.ty(t)
    if route == "tensor":
        return c.ty(t[:i]) @ c.ty(t[i:])
    if route == "unit_l":
        return c.Ty() @ c.ty(t)
    if route == "unit_r":
        return c.ty(t) @ c.Ty()
    if route == "slices":
        v = c.ty(t)
        return v[:i] @ v[i:]
    if route == "objects":
        return c.Ty(*c.ty(t).objects)
    if route == "names":           # Ty('n1', 'n2'): bare names, only when no winding number
        assert all(z == 0 for _, z in t)
        return c.Ty(*["n%d" % n for n, _ in t])
    if route == "cat_obs":         # Ty(cat.Ob('n1'), ...)
        assert all(z == 0 for _, z in t)
        return c.Ty(*[cat.Ob("n%d" % n) for n, _ in t])
    if route == "r_l":
        return c.ty(t).r.l
    if route == "l_r":
        return c.ty(t).l.r
    if route == "pow":             # only for a repetition of one object
        return c.ty(t[:1]) ** len(t)
    raise ValueError(route)


def build_box(c, route, b, _):
    if route == "ctor":
        return c.box(b)
    if route == "dagger2":
        return c.box(b).dagger().dagger()
    if route == "rev2":
        return c.box(b)[::-1][::-1]
    if route == "of_dagger":       # the dagger of the box's dagger built directly
        return c.box(dagger_wire(b)).dagger()
    if route == "of_dagger_rev":
        return c.box(dagger_wire(b))[::-1]
    if route == "keywords":
        assert b[0] == KBOX
        return c.Box(name="n%d" % b[1], dom=c.ty(b[2]), cod=c.ty(b[3]),
                     data=(b[5][0] if b[5] else None), _dagger=bool(b[4]))
    raise ValueError(route)


def layer_diagram(c, left, b, right):
    return c.Id(c.ty(left)) @ c.box(b) @ c.Id(c.ty(right))


def build_diagram(c, route, w, i):
    dom, cod, boxes, offs = w
    mk = lambda: c.Diagram(c.ty(dom), c.ty(cod), [c.box(b) for b in boxes], list(offs))  # noqa: E731
    if route == "ctor":
        return mk()
    if route == "layers":          # Id(dom) >> Id(l) @ b @ Id(r) >> ...
        d, scan = c.Id(c.ty(dom)), list(dom)
        for b, off in zip(boxes, offs):
            left, right = scan[:off], scan[off + len(b[2]):]
            d = d >> layer_diagram(c, left, b, right)
            scan = left + b[3] + right
        return d
    if route == "layers_no_id":    # first layer without the leading identity
        d, scan = None, list(dom)
        for b, off in zip(boxes, offs):
            left, right = scan[:off], scan[off + len(b[2]):]
            lay = layer_diagram(c, left, b, right)
            d = lay if d is None else d >> lay
            scan = left + b[3] + right
        return c.Id(c.ty(dom)) if d is None else d
    if route == "then_id":
        return mk() >> c.Id(c.ty(cod))
    if route == "id_then":
        return c.Id(c.ty(dom)) >> mk()
    if route == "unit_l":
        return c.Id(c.Ty()) @ mk()
    if route == "unit_r":
        return mk() @ c.Id(c.Ty())
    if route == "split":
        d = mk()
        return d[:i] >> d[i:]
    if route == "dagger2":
        return mk()[::-1][::-1]
    if route == "dagger2m":
        return mk().dagger().dagger()
    if route == "items":
        d = mk()
        return c.Id(c.ty(dom)).then(*[d[k] for k in range(len(d))])
    if route == "then_star":
        d = mk()
        return d[:i].then(d[i:], c.Id(c.ty(cod)))
    if route == "box":             # the Box object itself (one box spanning the whole domain)
        assert len(boxes) == 1 and boxes[0][2] == dom and offs == [0]
        return c.box(boxes[0])
    if route == "tensor_split":    # a @ b for a diagram that is a tensor: param = (wa, wb)
        wa, wb = i
        return build_diagram(c, "ctor", wa, 0) @ build_diagram(c, "ctor", wb, 0)
    raise ValueError(route)


def build_sum(c, route, w, _):
    dom, cod, terms = w
    ts = [build_diagram(c, t[0], t[1], t[2]) for t in terms]   # terms are diagram recipes
    Sum = c.Diagram.sum
    if route == "ctor":
        return Sum(ts) if ts else Sum([], c.ty(dom), c.ty(cod))
    if route == "ctor_typed":
        return Sum(ts, c.ty(dom), c.ty(cod))
    if route == "plus":
        acc = ts[0]
        for t in ts[1:]:
            acc = acc + t
        return acc if len(ts) > 1 else Sum([ts[0]])
    if route == "unit_plus":
        acc = Sum([], c.ty(dom), c.ty(cod))
        for t in ts:
            acc = acc + t
        return acc
    if route == "plus_unit":
        acc = Sum([], c.ty(dom), c.ty(cod))
        for t in reversed(ts):
            acc = t + acc
        return acc
    if route == "sums_plus":
        acc = Sum([ts[0]])
        for t in ts[1:]:
            acc = acc + Sum([t])
        return acc
    if route == "builtin_sum":
        return sum(ts, Sum([], c.ty(dom), c.ty(cod)))
    raise ValueError(route)


BUILDERS = {"ty": build_ty, "box": build_box, "diagram": build_diagram, "sum": build_sum}


def build(recipe):
    kind, cname, route, wire, param = recipe
    return BUILDERS[kind](ci.Cls(cname), route, wire, param)


def replay_cmd(payload):
    """Stand-alone command that rebuilds the recipes of a failing case against
    /repo and prints the observations."""
    blob = json.dumps(payload)
    assert "'" not in blob
    return ("cd %s/harness && VERIF_REPO=%s PYTHONPATH=%s/harness:%s /venv/bin/python -B -c "
            "'import sys, repr_impl as r; r.show(sys.argv[1])' '%s'"
            % (common.VERIF, common.REPO, common.VERIF, common.REPO, blob))


def show(text):
    payload = json.loads(text) if isinstance(text, str) else text
    vals = [build(r) for r in payload["recipes"]]
    for r, v in zip(payload["recipes"], vals):
        print(r[2], "->", repr(v), "hash", hash(v))
    for i in range(len(vals)):
        for j in range(len(vals)):
            if i != j:
                print("v%d == v%d:" % (i, j), vals[i] == vals[j])
    if payload.get("eval"):
        for r, v in zip(payload["recipes"], vals):
            try:
                w = eval(repr(v), namespace(r[1]))
                print("eval(repr(v)) == v:", w == v, "v == eval(repr(v)):", v == w)
            except Exception as exc:   # noqa
                print("eval(repr(v)) raises", type(exc).__name__, exc)
