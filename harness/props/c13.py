"""C13 -- translation to and from tket preserves the meaning of circuits.

Stage 1: theorems of coq/Props/C13.v (register invariant, trace refinement, angle
round trip, post-selection renaming, from_tk arity; refuted witnesses for the
defects the model reproduces).
Stage 2: exact syntactic correspondence of Circuit.to_tk / Circuit.from_tk with the
extracted model (command list modulo commutation of commands on disjoint units,
n_qubits, n_bits, post_selection, post_processing; scalar numerically).
Stage 3: oracles on the implementation, independent of the model:
  (a) exact simulation of the exported tket circuit + post-selection + scalar +
      post-processing == mixed evaluation of init_and_discard()
  (b) eval(backend=...) / get_counts(backend=...) on a mock backend returning the
      exact frequencies == local evaluation
  (c) from_tk(to_tk(c)) has the same evaluation
  (d) from_tk of random tket circuits computes that circuit -- plain pytket circuits, and
      discopy tk.Circuits with a post-selection whose post-selected Measure is / is not the
      last command on its qubit (F41) and whose post-selected bits are / are not written by a single
      Measure (F42); both recognised by independent predicates on the commands.
"""
import json
import os
import random

for _v in ("OMP_NUM_THREADS", "OPENBLAS_NUM_THREADS", "MKL_NUM_THREADS"):
    os.environ.setdefault(_v, "1")          # many small arrays: threads only add overhead

import numpy as np                          # noqa: E402

import common
from common import Report, freeze
from props import base

TOL = 1e-9

FINDINGS = {
    "F9": "Measure(override_bits=True) cannot be evaluated by cqmap.Functor (AttributeError: 'Dim' "
          "object has no attribute 'classical'); every from_tk of a measured circuit contains one "
          "(reference evaluation falls back to the harness's own exact evaluator)",
    "F10": "to_tk measure_qubits uses offset=len(bits) instead of bit_offset + j: a bit measured to the "
           "left of an existing bit is appended at the end of the post-processing instead of its wire position",
    "F18": "from_tk indexes the bit register, shrunk by the post-selected bits, with the raw tket bit index: "
           "importing an exported circuit with a post-selection raises AxiomError or measures into the wrong bit",
    "F30": "to_tk prepare_bits adds the new bit at the END of post_processing.dom although its tket index lies "
           "below existing (renamed) bits: counts are fed to the post-processing in the wrong order",
    "F31": "to_tk ignores Discard on bits: the discarded bit stays in the post-processing and in the output",
    "F32": "to_tk swaps bits through the unit Bit('tmp', 0) whose index[0] is 0: rename_units moves a "
           "post-selection recorded for tket bit 0 to the swapped bit",
    "F33": "from_tk make_units_adjacent: when the second qubit is three or more places to the right of the first, the wire "
           "next to the first qubit is moved away instead of the second qubit being brought in; the gate hits the wrong qubit",
    "F34": "to_tk Measure(destructive=True, override_bits=True) keeps the measured qubits in the register "
           "list: later gates and measurements hit the dead register",
    "F37": "to_tk Measure(override_bits=True) on a bit that classical post-processing has already touched: "
           "tket overrides the raw register, and the post-processing is applied to the new value afterwards",
    "F35": "Circuit.get_counts(backend=...) / tk.Circuit.get_counts never apply post_processing "
           "(only Circuit.eval(backend=...) does)",
    "F41": "from_tk defers every post-selected Measure to the end of the imported circuit (bras[qubit], 'post selection "
           "happens at the end') even when the qubit is used afterwards: a later gate or measurement on that qubit "
           "acts before the Bra, and a second post-selected Measure of the same qubit overwrites the first",
    "F42": "from_tk turns EVERY Measure into a post-selected bit into a Bra, although tket post-selects the final value "
           "of the bit only: when a post-selected bit is written by more than one Measure the earlier measurements "
           "are post-selected too",
    "F36": "to_tk does not update the `bits` register list for classical gates (or Bits effects) that change "
           "the number of bits: later preparations / swaps / discards index a stale list",
}
FLAG_IDS = ["F10", "F30", "F31", "F32", "F34", "F37", "F36"]    # order of TkProg.enc_flags
F34_FLAG = 4

# Which findings the implementation under test has been repaired for.  With a switch on the
# model takes the repaired behaviour (Tk.fixes), that finding's known-finding recognition is
# off (its trigger never fires) and its former minimal input is an ordinary regression case.
# Override: VERIF_C13_FIXED="10,18,31,32,33,34,35" (empty string = nothing repaired).
FIXED = {"F10": True, "F18": True, "F31": True, "F32": True, "F33": True, "F34": True, "F35": True}   # repaired upstream: 4d69d73 091b536 a32a1bb a8cbf19 5367865 055c288 441b7bf
if os.environ.get("VERIF_C13_FIXED") is not None:
    _on = {x.strip().upper().lstrip("F") for x in os.environ["VERIF_C13_FIXED"].split(",") if x.strip()}
    FIXED = {k: k[1:] in _on for k in FIXED}
SWITCHES = [int(FIXED[k]) for k in ("F10", "F18", "F31", "F32", "F33", "F34")]   # wire order of TkProg.dec_fixes


def snippet(kind, payload):
    return ("cd /verif/harness && PYTHONPATH=/verif/harness:${VERIF_REPO:-/repo} /venv/bin/python -B -c "
            "\"from props import c13; c13.replay('%s', %s)\"" % (kind, json.dumps(payload)))


# ---------------------------------------------------------------- generators
def _app(scan, n, want):
    return [o for o in range(len(scan) - n + 1) if scan[o:o + n] == want]


def gen_circuit(rng, ti, depth, maxq=3, maxb=3, wild=0.0, open_dom=False, clean=False):
    """A random circuit grown forwards from its domain (so every layer is well-typed).
    clean=True only ever adds bits at the right end of the bits (no F10/F30/F31 trigger)."""
    dom = [rng.randint(0, 1) for _ in range(rng.randint(1, 2))] if open_dom else []
    scan, layers, kets = list(dom), [], dom.count(1)
    for _ in range(depth):
        nq, nb = scan.count(1), scan.count(0)
        q1, q2 = _app(scan, 1, [1]), _app(scan, 2, [1, 1])
        b1, b2 = _app(scan, 1, [0]), _app(scan, 2, [0, 0])
        ops = ["scalar"]
        if nq < maxq and kets < 5:
            ops += ["ket"] * 4
        if nb < maxb:
            ops += ["bits"] * 2
        if q1:
            ops += ["g1"] * 5 + ["measure"] * (3 if nb < maxb else 0) + ["bra"] * 2 + ["discard"]
        if q2:
            ops += ["g2"] * 4
        if len(scan) >= 2:
            ops += ["swap"] * 4
        if b1:
            ops += ["cl1"] * 2
        if b2:
            ops += ["cl2"] * 2
        if rng.random() < wild:
            ops += ["other", "badgate", "bits1", "arity", "bitsdag", "override", "discardbit"]
        op = rng.choice(ops)
        right_end = [o for o in range(len(scan) + 1) if scan[:o].count(0) == nb]
        if op == "ket":
            n = rng.choice([1, 1, 2]) if nq + 2 <= maxq else 1
            box, off, d, c = [0, [rng.randint(0, 1) for _ in range(n)]], rng.randint(0, len(scan)), [], [1] * n
            kets += n
        elif op == "bits":
            off = rng.choice(right_end) if clean else rng.randint(0, len(scan))
            box, d, c = [2, [0], 0], [], [0]
        elif op == "bits1":
            box, off, d, c = [2, [rng.randint(0, 1), 1], 0], rng.randint(0, len(scan)), [], [0, 0]
        elif op == "g1":
            g = rng.choice([1, 2, 3, 4, 5, 6, 12, 12, 13, 13])
            ph = ti.to_dy(rng.randint(-40, 40) / 16.0) if g in (12, 13) else [0, 0]
            box, off, d, c = [3, g, 1] + ph, rng.choice(q1), [1], [1]
        elif op == "g2":
            g = rng.choice([7, 7, 8, 9, 10, 11, 14, 14])
            ph = ti.to_dy(rng.randint(-40, 40) / 16.0) if g == 14 else [0, 0]
            box, off, d, c = [3, g, 2] + ph, rng.choice(q2), [1, 1], [1, 1]
        elif op == "badgate":
            g = rng.choice([15, 16, 17, 18])
            n = 1 if g == 15 else 2
            offs = q1 if n == 1 else q2
            if not offs:
                continue
            box = [3, g, n] + (ti.to_dy(rng.randint(-8, 8) / 16.0) if g != 18 else [0, 0])
            off, d, c = rng.choice(offs), [1] * n, [1] * n
        elif op == "swap":
            off = rng.randint(0, len(scan) - 2)
            l, r = scan[off], scan[off + 1]
            box, d, c = [4, l, r], [l, r], [r, l]
        elif op == "measure":
            n = 2 if (q2 and nb + 2 <= maxb and rng.random() < 0.3) else 1
            destr = int(rng.random() < 0.6)
            offs = q2 if n == 2 else q1
            if clean:
                offs = [o for o in offs if scan[:o].count(0) == nb]
                if not offs:
                    continue
            off = rng.choice(offs)
            box, d, c = [5, n, destr, 0], [1] * n, ([] if destr else [1] * n) + [0] * n
        elif op == "override":
            offs = _app(scan, 2, [1, 0])
            if not offs:
                continue
            destr = int(rng.random() < 0.4)
            off, box, d, c = rng.choice(offs), [5, 1, destr, 1], [1, 0], ([] if destr else [1]) + [0]
        elif op == "bra":
            n = 2 if (q2 and rng.random() < 0.3) else 1
            off = rng.choice(q2 if n == 2 else q1)
            box, d, c = [1, [rng.randint(0, 1) for _ in range(n)]], [1] * n, []
        elif op == "discard":
            off, box, d, c = rng.choice(q1), [6, [1]], [1], []
        elif op == "discardbit":
            if not b1:
                continue
            off, box, d, c = rng.choice(b1), [6, [0]], [0], []
        elif op == "cl1":
            off, box, d, c = rng.choice(b1), [8, rng.choice([1, 6]), 1, 1], [0], [0]
        elif op == "cl2":
            off, box, d, c = rng.choice(b2), [8, 2, 2, 2], [0, 0], [0, 0]
        elif op == "arity":
            i = rng.choice([3, 4, 5, 7])
            n, m = {3: (1, 2), 4: (2, 1), 5: (2, 1), 7: (2, 1)}[i]
            offs = b1 if n == 1 else b2
            if not offs:
                continue
            off, box, d, c = rng.choice(offs), [8, i, n, m], [0] * n, [0] * m
        elif op == "bitsdag":
            if not b1:
                continue
            off, box, d, c = rng.choice(b1), [2, [rng.randint(0, 1)], 1], [0], []
        elif op == "scalar":
            i = rng.randint(1, 6)
            box, off, d, c = [7, i, int(i in (4, 5))], rng.randint(0, len(scan)), [], []
        else:  # other
            if rng.random() < 0.5 and b1:
                off, box, d, c = rng.choice(b1), [9, 1, [0], [1]], [0], [1]
            else:
                off, box, d, c = rng.randint(0, len(scan)), [9, 2, [], [1]], [], [1]
        layers.append([box, off])
        scan = scan[:off] + c + scan[off + len(d):]
    return [dom, layers]


def small_scope(prefix, length):
    """Every well-typed continuation of `prefix` by <= length layers over a small alphabet."""
    out = []

    def scan_of(layers):
        scan = []
        for box, off in layers:
            d, c = _domcod(box)
            scan = scan[:off] + c + scan[off + len(d):]
        return scan

    def moves(scan):
        res = []
        nq, nb = scan.count(1), scan.count(0)
        for o in _app(scan, 1, [1]):
            res += [[[5, 1, 1, 0], o], [[5, 1, 0, 0], o], [[1, [0]], o], [[3, 4, 1, 0, 0], o]]
        for o in range(len(scan) - 1):
            res.append([[4, scan[o], scan[o + 1]], o])
        if nb < 2:
            for o in range(len(scan) + 1):
                res.append([[2, [0], 0], o])
        if nq < 2:
            for o in range(len(scan) + 1):
                res.append([[0, [0]], o])
        for o in _app(scan, 1, [0]):
            res.append([[8, 1, 1, 1], o])
        return [m for m in res if _domcod(m[0])[1].count(0) + nb - _domcod(m[0])[0].count(0) <= 3]

    def go(layers, k):
        out.append([[], list(layers)])
        if k == 0:
            return
        for m in moves(scan_of(layers)):
            go(layers + [m], k - 1)
    go(list(prefix), length)
    return out


def _domcod(box):
    k = box[0]
    if k == 0:
        return [], [1] * len(box[1])
    if k == 1:
        return [1] * len(box[1]), []
    if k == 2:
        return ([0] * len(box[1]), []) if box[2] else ([], [0] * len(box[1]))
    if k == 3:
        return [1] * box[2], [1] * box[2]
    if k == 4:
        return [box[1], box[2]], [box[2], box[1]]
    if k == 5:
        n = box[1]
        return [1] * n + ([0] * n if box[3] else []), ([] if box[2] else [1] * n) + [0] * n
    if k == 6:
        return list(box[1]), []
    if k == 7:
        return [], []
    if k == 8:
        return [0] * box[2], [0] * box[3]
    return list(box[2]), list(box[3])


def exportable(prog):
    """Harness-side statement of the gate set of the property."""
    for box, _ in prog[1]:
        k = box[0]
        if k == 9 or (k == 3 and box[1] not in range(1, 15)) or (k == 2 and not box[2] and 1 in box[1]):
            return False
    return True


def gen_tk(rng, tk):
    nq = rng.randint(1, 5)
    final = rng.random() < 0.7                      # measure every qubit at the end
    nb = nq if final else rng.randint(0, 3)
    c = tk.Circuit(nq, nb)
    for _ in range(rng.randint(0, 9)):
        k = rng.random()
        if k < 0.45:
            g = rng.choice(["H", "S", "T", "X", "Y", "Z", "Rx", "Rz"] + (["Ry"] if rng.random() < 0.08 else []))
            q = rng.randrange(nq)
            if g in ("Rx", "Rz", "Ry"):
                getattr(c, g)(rng.randint(-40, 40) / 16.0, q)
            else:
                getattr(c, g)(q)
        elif k < 0.85 and nq >= 2:
            g = rng.choice(["CX", "CX", "CZ", "CRz"] + (["CY", "SWAP"] if rng.random() < 0.08 else []))
            a, b = rng.sample(range(nq), 2)
            if g == "CRz":
                c.CRz(rng.randint(-40, 40) / 16.0, a, b)
            else:
                getattr(c, g)(a, b)
        elif nb and not final:
            c.Measure(rng.randrange(nq), rng.randrange(nb))
    if final:
        order = list(range(nq))
        rng.shuffle(order)
        for q, b in enumerate(order):
            c.Measure(q, b)
    return c


def gen_tk_psel(rng, tk):
    """A random tket circuit WITH a post-selection, in the raw form [nq, nb, commands, post_selection].
    Every post-selected bit is written by some Measure (a post-selection on a bit that is never written
    has no defined import and is outside this stream).
    late=True appends gates / measurements after the measurements, so that in many of these circuits a
    post-selected Measure is NOT the last command on its qubit (the F41 trigger).
    overwrite=True (one in four) lets several Measures write the same bit, so that in many of these a
    post-selected bit is written more than once (the F42 trigger); otherwise every bit is written at most once."""
    import tksim
    nq = rng.randint(1, 4)
    nb = rng.randint(1, min(nq + 1, 4))
    late = rng.random() < 0.45
    overwrite = rng.random() < 0.25
    c = tk.Circuit(nq, nb)

    def gate():
        if nq >= 2 and rng.random() < 0.4:
            g = rng.choice(["CX", "CX", "CZ", "CRz"])
            a, b = rng.sample(range(nq), 2)
            if g == "CRz":
                c.CRz(rng.randint(-40, 40) / 16.0, a, b)
            else:
                getattr(c, g)(a, b)
        else:
            g = rng.choice(["H", "H", "S", "T", "X", "X", "Y", "Z", "Rx", "Rz"])
            q = rng.randrange(nq)
            if g in ("Rx", "Rz"):
                getattr(c, g)(rng.randint(-40, 40) / 16.0, q)
            else:
                getattr(c, g)(q)

    for _ in range(rng.randint(1, 6)):
        gate()
    bits = list(range(nb))
    rng.shuffle(bits)
    if overwrite:
        bits = [rng.randrange(nb) for _ in range(rng.randint(2, nb + 2))]
        qubits = [rng.randrange(nq) for _ in bits] if late else \
            (rng.sample(range(nq), min(nq, len(bits))) + [rng.randrange(nq) for _ in bits])[:len(bits)]
    else:                                        # every bit is written at most once
        qubits = [rng.randrange(nq) for _ in bits] if late and rng.random() < 0.4 else \
            rng.sample(range(nq), min(nq, nb))
    written = []
    for q, b in zip(qubits, bits):
        c.Measure(q, b)
        if b not in written:
            written.append(b)
        if late and rng.random() < 0.5:
            gate()
    if late:
        for _ in range(rng.randint(1, 3)):
            gate()
    k = rng.randint(1, len(written))
    psel = sorted([b, rng.randint(0, 1)] for b in rng.sample(written, k))
    return [nq, nb, [[n, p, q, b] for n, p, q, b in tksim.commands(c)], psel]


def f41_trigger(cmds, psel_keys):
    """Independent statement of the trigger of F41 on the command list from_tk iterates over (model
    format [op, par, qubits, bits], op 0 = Measure): some post-selected Measure is followed by a later
    command on the same qubit."""
    for i, (op, _, qs, bs) in enumerate(cmds):
        if op == 0 and qs and bs and bs[0] in psel_keys:
            if any(qs[0] in later[2] for later in cmds[i + 1:]):
                return True
    return False


def f42_trigger(cmds, psel_keys):
    """Independent statement of the trigger of F42: some post-selected bit is written by more than one
    Measure command."""
    writes = {}
    for op, _, qs, bs in cmds:
        if op == 0 and bs and bs[0] in psel_keys:
            writes[bs[0]] = writes.get(bs[0], 0) + 1
    return any(n >= 2 for n in writes.values())


# hand-written post-selected tket circuits: [nq, nb, commands, post_selection]
PSEL_CORPUS = [
    # F41: tk.Circuit(1, 1, post_selection={0: 0}).Measure(0, 0).X(0)
    [1, 1, [["Measure", [], [0], [0]], ["X", [], [0], []]], [[0, 0]]],
    # F41: tk.Circuit(1, 2, post_selection={0: 0}).H(0).Measure(0, 0).X(0).Measure(0, 1)
    [1, 2, [["H", [], [0], []], ["Measure", [], [0], [0]], ["X", [], [0], []], ["Measure", [], [0], [1]]], [[0, 0]]],
    # F41 (same trigger): tk.Circuit(1, 2, post_selection={0: 0, 1: 1}).H(0).Measure(0, 0).Measure(0, 1)
    [1, 2, [["H", [], [0], []], ["Measure", [], [0], [0]], ["Measure", [], [0], [1]]], [[0, 0], [1, 1]]],
    # control, every post-selected Measure last on its qubit:
    # tk.Circuit(2, 2, post_selection={0: 0}).H(0).CX(0, 1).Measure(0, 0).X(1).Measure(1, 1)
    [2, 2, [["H", [], [0], []], ["CX", [], [0, 1], []], ["Measure", [], [0], [0]], ["X", [], [1], []],
            ["Measure", [], [1], [1]]], [[0, 0]]],
    # F42: tk.Circuit(2, 1, post_selection={0: 0}).H(0).Measure(0, 0).Measure(1, 0)
    [2, 1, [["H", [], [0], []], ["Measure", [], [0], [0]], ["Measure", [], [1], [0]]], [[0, 0]]],
    # F41 and F42: tk.Circuit(1, 1, post_selection={0: 1}).H(0).Measure(0, 0).X(0).Measure(0, 0)
    [1, 1, [["H", [], [0], []], ["Measure", [], [0], [0]], ["X", [], [0], []], ["Measure", [], [0], [0]]], [[0, 1]]],
    # control for F42: the KEPT bit 0 is written twice, the post-selected bit 1 once (last on its qubit):
    # tk.Circuit(2, 2, post_selection={1: 0}).H(0).Measure(0, 0).Measure(1, 0).Measure(0, 1)
    [2, 2, [["H", [], [0], []], ["Measure", [], [0], [0]], ["Measure", [], [1], [0]], ["Measure", [], [0], [1]]],
     [[1, 0]]],
    # control: everything post-selected, a scalar comes out
    [2, 2, [["H", [], [0], []], ["CX", [], [0, 1], []], ["Measure", [], [1], [0]], ["Measure", [], [0], [1]]],
     [[0, 1], [1, 1]]],
    # control: post-selected bit above a kept bit (bit register shrinks, F18 repaired)
    [3, 3, [["H", [], [0], []], ["CX", [], [0, 2], []], ["Measure", [], [2], [0]], ["Measure", [], [0], [2]],
            ["X", [], [1], []], ["Measure", [], [1], [1]]], [[0, 1]]],
]


CORPUS = [
    # (name, program)
    ("bell", [[], [[[0, [0, 0]], 0], [[3, 1, 1, 0, 0], 0], [[3, 7, 2, 0, 0], 0], [[5, 2, 1, 0], 0]]]),
    ("doc-circuit1", [[], [[[0, [1, 0]], 0], [[3, 7, 2, 0, 0], 0], [[0, [0]], 1]]]),
    ("doc-circuit3", [[], [[[0, [0, 0]], 0], [[3, 1, 1, 0, 0], 0], [[3, 4, 1, 0, 0], 1], [[3, 7, 2, 0, 0], 0],
                           [[1, [0]], 1]]]),
    # F10: Ket(0,0) >> X @ Id(1) >> Measure() @ Id(1) >> Swap(bit, qubit) >> Measure() @ Id(bit)
    ("F10", [[], [[[0, [0, 0]], 0], [[3, 4, 1, 0, 0], 0], [[5, 1, 1, 0], 0], [[4, 0, 1], 0], [[5, 1, 1, 0], 0]]]),
    # F30: Ket(1) >> Measure() >> Bits(0) @ Id(bit)
    ("F30", [[], [[[0, [1]], 0], [[5, 1, 1, 0], 0], [[2, [0], 0], 0]]]),
    # F31: Ket(1) >> Measure() >> Discard(bit)
    ("F31", [[], [[[0, [1]], 0], [[5, 1, 1, 0], 0], [[6, [0]], 0]]]),
    # F32: Ket(0,1,0) >> Bra(0) @ Measure(2) >> Swap(bit, bit)
    ("F32", [[], [[[0, [0, 1, 0]], 0], [[1, [0]], 0], [[5, 2, 1, 0], 0], [[4, 0, 0], 0]]]),
    # F34: Ket(0,0) @ Bits(0) @ Ket(1) >> Id(1) @ Measure(1, True, True) @ Id(1) >> Id(qubit @ bit) @ Measure()
    ("F34", [[], [[[0, [0, 0]], 0], [[2, [0], 0], 2], [[0, [1]], 3], [[5, 1, 1, 1], 1], [[5, 1, 1, 0], 2]]]),
    # F37: Ket(0) >> Measure() >> NOT >> Ket(1) @ Id(bit) >> Measure(1, destructive=False, override_bits=True)
    ("F37", [[], [[[0, [0]], 0], [[5, 1, 1, 0], 0], [[8, 1, 1, 1], 0], [[0, [1]], 0], [[5, 1, 0, 1], 0]]]),
    # F35: Ket(0) >> Measure() >> NOT
    ("F35", [[], [[[0, [0]], 0], [[5, 1, 1, 0], 0], [[8, 1, 1, 1], 0]]]),
    # F36: Ket(0) >> Measure() >> Copy >> Id(bit ** 2) @ Bits(0)
    ("F36", [[], [[[0, [0]], 0], [[5, 1, 1, 0], 0], [[8, 3, 1, 2], 0], [[2, [0], 0], 2]]]),
    # F18: Ket(0,0) >> H @ Id(1) >> CX >> Id(1) @ Bra(0) >> Measure()
    ("F18", [[], [[[0, [0, 0]], 0], [[3, 1, 1, 0, 0], 0], [[3, 7, 2, 0, 0], 0], [[1, [0]], 1], [[5, 1, 1, 0], 0]]]),
    ("open", [[0, 1], [[[3, 1, 1, 0, 0], 1], [[4, 0, 1], 0], [[5, 1, 1, 0], 0]]]),
    ("scalars", [[], [[[7, 2, 0], 0], [[0, [0]], 0], [[7, 3, 0], 0], [[3, 1, 1, 0, 0], 0], [[7, 5, 1], 1],
                      [[5, 1, 1, 0], 0]]]),
    ("rotations", [[], [[[0, [0, 1]], 0], [[3, 12, 1, 5, 4], 0], [[3, 13, 1, -37, 4], 1], [[3, 14, 2, 33, 4], 0],
                        [[3, 12, 1, 9, 2], 1], [[5, 2, 1, 0], 0]]]),
    ("swap-mid-ket", [[], [[[0, [1, 0]], 0], [[4, 1, 1], 0], [[0, [0]], 1], [[3, 7, 2, 0, 0], 1], [[4, 1, 1], 0],
                           [[5, 1, 1, 0], 2], [[5, 1, 1, 0], 1], [[5, 1, 1, 0], 0]]]),
    ("empty", [[], []]),
    ("ket-empty", [[], [[[0, []], 0]]]),
]


# ---------------------------------------------------------------- oracles
def has_override(c):
    from discopy.quantum.circuit import Measure
    return any(isinstance(b, Measure) and b.override_bits for b in c.boxes)


_F9_CHECKED = {}


def f9_blocks(box):
    """Does DisCoPy's mixed evaluation fail on this very box with F9's AttributeError?"""
    key = box.name
    if key not in _F9_CHECKED:
        from discopy.quantum import cqmap
        try:
            cqmap.Functor()(box)
            _F9_CHECKED[key] = False
        except AttributeError as exc:
            _F9_CHECKED[key] = "classical" in str(exc)
    return _F9_CHECKED[key]


def live_size(c):
    """max over the layers of 2 * qubits + bits (log2 of the CQMap dimension)."""
    best = 0
    for left, box, right in c.layers:
        for t in (left @ box.dom @ right, left @ box.cod @ right):
            names = [x.name for x in t]
            best = max(best, 2 * names.count("qubit") + names.count("bit"))
    return best


def reference(rep, tksim, c, limit=9):
    """Local evaluation of a circuit: DisCoPy's mixed evaluation of init_and_discard().
    When that is blocked by F9 (checked on the offending box itself), or the circuit
    is wide (2 * qubits + bits > limit at some layer: from_tk prepares every qubit up front and
    the CQMap evaluation then takes seconds to minutes), the harness's own exact evaluator is used; it is
    cross-checked against DisCoPy's evaluation on every case where both run."""
    from discopy.quantum.circuit import Measure
    full = c.init_and_discard()
    own = None
    try:
        own = tksim.dsim(full)
    except NotImplementedError:
        pass
    blockers = [b for b in full.boxes if isinstance(b, Measure) and b.override_bits]
    if own is not None and blockers and all(f9_blocks(b) for b in blockers):
        rep.known_finding("F9", FINDINGS["F9"])
        rep.count("reference:dsim(F9)")
        return own
    if own is not None and live_size(full) > limit:
        rep.count("reference:dsim(size)")
        return own
    ev = np.asarray(common.with_timeout(60, lambda: full.eval(mixed=True)).array)
    rep.count("reference:eval")
    if own is not None and (own.shape != ev.shape or not np.allclose(own, ev, atol=TOL)):
        raise AssertionError("harness evaluator disagrees with DisCoPy's mixed evaluation")
    return ev


def same(a, b):
    a, b = np.asarray(a), np.asarray(b)
    return a.shape == b.shape and bool(np.allclose(a, b, atol=TOL))


def counts_array(counts, n):
    arr = np.zeros((2,) * n or (1,), dtype=complex)
    for key, v in counts.items():
        if len(key) != n:
            return None
        arr[tuple(key) if n else 0] += v
    return arr


def check_export(rep, ti, tksim, dtk, prog, answer, name):
    """to_tk on one circuit: correspondence + oracles (a), (b), (c)."""
    from discopy.quantum.circuit import Circuit
    c = ti.build_circuit(prog)
    impl = common.with_timeout(20, ti.observe_to_tk, prog)
    mt, flags, rok = answer[1]
    model = [1, mt[1]] if len(mt) == 2 else [0, ti.model_tk_view(mt)]
    agree = freeze(impl) == freeze(model)
    rep.disagreements_checked += 1
    if not agree:
        rep.extra.setdefault("disagreements", []).append(
            {"family": "corr:tk:to_tk", "class": "circuit", "program": prog, "impl": impl, "model": model})
    rep.count("to_tk:" + ("value" if impl[0] == 0 else "err%d" % impl[1]))
    for fid, on in zip(FLAG_IDS, flags):
        if on:
            rep.count("trigger:" + fid)
    payload = {"name": name, "program": prog, "circuit": ti.pretty(prog), "impl": impl, "model": model,
               "model_flags": flags, "model_routing_ok": rok, "replay": snippet("export", prog)}

    def known_or_violation(what, model_violates):
        trig = sorted({fid for fid, on in zip(FLAG_IDS, flags) if on and not FIXED.get(fid, False)})
        if agree and model_violates and trig:
            for fid in trig:
                rep.known_finding(fid, FINDINGS[fid])
            rep.count("oracle:known(" + "+".join(trig) + ")")
            return
        rep.violation(what, dict(payload, what=what))

    if impl[0] == 1:
        if impl[1] == 6 and not exportable(prog):
            rep.count("refusal:not-exportable")
        else:
            known_or_violation("exportable circuit refused by to_tk with error code %d" % impl[1],
                               bool(flags[6]))
        return
    tkc = c.to_tk()
    # the conjecture to_tk_routing_trigger_free_stmt, evaluated by the model on this case
    if not any(flags):
        rep.count("routing:trigger-free:" + ("ok" if rok else "FAILS"))
        if not rok:
            rep.violation("the model's bit routing fails on a circuit that meets no trigger predicate of a known "
                          "finding (unclassified defect)", dict(payload))
    # scalar: numerically only
    want = ti.scalar_of_factors(mt[4])
    if abs(complex(tkc.scalar) - complex(want)) > TOL * (1 + abs(complex(want))):
        rep.extra.setdefault("disagreements", []).append(
            {"family": "corr:tk:scalar", "class": "circuit", "program": prog,
             "impl": str(tkc.scalar), "model": str(want)})
    # (a) simulate the exported circuit
    ref = reference(rep, tksim, c)
    try:
        d1 = tksim.distribution(tkc)
        d2 = np.asarray(tksim.distribution(tkc, use_discopy=True))
    except ValueError as exc:
        d1 = d2 = None
        payload["pipeline_error"] = str(exc)
    if d1 is not None and not same(d1, d2.reshape(d1.shape) if d2.size == d1.size else d2):
        rep.violation("post-processing evaluated by DisCoPy differs from its independent contraction",
                      dict(payload, d1=d1.tolist().__repr__(), d2=d2.tolist().__repr__()))
    ok_a = d1 is not None and same(d1, ref)
    rep.count("oracle_a:" + ("pass" if ok_a else "fail"))
    if not ok_a:
        payload["simulated"] = None if d1 is None else repr(np.round(d1, 6).tolist())
        payload["evaluated"] = repr(np.round(ref, 6).tolist())
        known_or_violation("exact simulation of to_tk(c) with post-selection, scalar and post-processing "
                           "differs from c.init_and_discard().eval(mixed=True)", (not rok) or bool(flags[F34_FLAG]))
    else:
        # (b) mock backend with exact frequencies
        res = common.with_timeout(20, lambda: c.eval(backend=dtk.mockBackend(tksim.exact_counts(tkc))))
        if not same(np.asarray(res.array), ref):
            rep.violation("eval(backend) on exact frequencies differs from local evaluation",
                          dict(payload, backend=repr(np.asarray(res.array).tolist()),
                               evaluated=repr(np.round(ref, 6).tolist())))
        counts = common.with_timeout(20, lambda: c.get_counts(backend=dtk.mockBackend(tksim.exact_counts(tkc))))
        got = counts_array(counts, len(tkc.post_processing.cod))
        if got is None or not same(got, ref):
            raw = counts_array(counts, len(tkc.post_processing.dom))
            pre = None
            try:
                pre = tksim.postprocess_only_select_scale(tkc, tksim.simulate(tkc))
            except Exception:  # noqa
                pass
            if not FIXED["F35"] and tkc.post_processing.boxes and raw is not None and pre is not None \
                    and same(raw, pre):
                rep.known_finding("F35", FINDINGS["F35"])
                rep.count("oracle_b:known(F35)")
            else:
                rep.violation("get_counts(backend) on exact frequencies differs from local evaluation",
                              dict(payload, counts=repr(counts), evaluated=repr(np.round(ref, 6).tolist())))
        else:
            rep.count("oracle_b:pass")
    # (c) import the exported circuit back
    if d1 is not None:
        check_import(rep, ti, tksim, tkc, d1, dict(payload, replay=snippet("roundtrip", prog)), "roundtrip",
                     f32=bool(agree and flags[3]))


def check_import(rep, ti, tksim, tkc, want, payload, family, f32=False):
    """from_tk on one tket circuit: correspondence + oracle (same evaluation as `want`)."""
    from discopy.quantum.circuit import Circuit
    prog2 = ti.tk_to_model(tkc)
    written = {c[3][0] for c in prog2[0][2] if c[0] == 0 and c[3]}
    dangling = [k for k, _ in prog2[0][3] if k not in written]
    if dangling:
        # a post-selection on a bit no Measure writes: from_tk has no defined answer.  to_tk only
        # produces one through F32 (the post-selection moved to the swapped bit).
        if f32:
            rep.known_finding("F32", FINDINGS["F32"])
            rep.count(family + ":skipped(dangling post-selection, F32)")
        else:
            rep.violation("to_tk produced a post-selection on a bit that is never measured",
                          dict(payload, tk=repr(tkc)))
        return
    impl = common.with_timeout(20, ti.observe_from_tk, tkc)
    ans = common.run_model("tk", [[2, SWITCHES, prog2[0], prog2[1]]])[0]
    res, trace_ok, routing_ok, (f18, f33) = ans[1]
    model = [1, res[1]] if (len(res) == 2 and res[0] == 1 and not isinstance(res[1], list)) else [0, res]
    agree = freeze(impl) == freeze(model)
    rep.disagreements_checked += 1
    if not agree:
        rep.extra.setdefault("disagreements", []).append(
            {"family": "corr:tk:from_tk", "class": "tk", "program": prog2, "impl": impl, "model": model})
    rep.count(family + ":from_tk:" + ("value" if impl[0] == 0 else "err%d" % impl[1]))
    payload = dict(payload, tk=repr(tkc), tk_model_input=prog2, from_tk_impl=impl, from_tk_model=model,
                   model_trace_ok=trace_ok, model_routing_ok=routing_ok, f18_trigger=f18, f33_trigger=f33)
    psel = bool(prog2[0][3])
    f41 = psel and f41_trigger(prog2[0][2], {k for k, _ in prog2[0][3]})
    f42 = psel and f42_trigger(prog2[0][2], {k for k, _ in prog2[0][3]})
    pname = "+".join(n for n, on in (("F41", f41), ("F42", f42)) if on) or "no-trigger"
    if psel:
        rep.count(family + ":post-selected:" + (pname + "-trigger" if f41 or f42 else pname))
    payload["f41_trigger"], payload["f42_trigger"] = bool(f41), bool(f42)

    def known_or_violation(what):
        trig = []
        if f18 and psel and not FIXED["F18"]:
            trig.append("F18")
        if f33 and not trace_ok and not FIXED["F33"]:
            trig.append("F33")
        if f41 and not trace_ok:            # the model's imported trace is not the tket order
            trig.append("F41")
        if f42:     # no model verdict: the trace statement does not see bits (from_tk_trace_ok is true on the
            trig.append("F42")   # witness) and from_tk_routing_ok is only meaningful without post-selection
        if agree and trig:
            for fid in trig:
                rep.known_finding(fid, FINDINGS[fid])
            rep.count(family + ":known(" + "+".join(trig) + ")")
            return
        rep.violation(what, dict(payload, what=what))

    if impl[0] == 1:
        names = {cmd.op.type.name for cmd in tkc.get_commands()}
        supported = {"Measure", "H", "S", "T", "X", "Y", "Z", "CX", "CZ", "Rx", "Rz", "CRz"}
        if impl[1] == 6 and not names <= supported:
            rep.count(family + ":refusal:unsupported-op")
        else:
            known_or_violation("from_tk raised error code %d on a tket circuit over the supported operations" % impl[1])
        return
    c2 = Circuit.from_tk(tkc)
    if len(c2.dom) != 0 or any(x.name != "bit" for x in c2.cod):
        rep.violation("from_tk returned a circuit with inputs or qubit outputs", payload)
        return
    ev2 = reference(rep, tksim, c2, limit=7)    # from_tk keeps every qubit alive to the end
    ok = same(ev2, want)
    rep.count(family + ":oracle:" + ("pass" if ok else "fail"))
    if not ok:
        payload["imported_eval"] = repr(np.round(ev2, 6).tolist())
        payload["tket_distribution"] = repr(np.round(want, 6).tolist())
        known_or_violation("the circuit returned by from_tk does not compute the tket circuit")
    elif not psel and not (trace_ok and routing_ok):
        if FIXED["F33"]:
            # from_tk_refines_trace_stmt / routing for the repaired import, evaluated by the model
            rep.violation("the model's import applies a gate or a measurement to the wrong wire although "
                          "no known trigger holds (unclassified defect)", dict(payload))
        rep.count(family + ":model-flags-violation-but-numerically-equal")
        rep.extra.setdefault("numerically_invisible", []).append([repr(tkc), trace_ok, routing_ok])
    elif not psel:
        rep.count(family + ":model-trace-and-routing-ok")
    elif f41 or f42:
        rep.count(family + ":post-selected:" + pname + "-trigger-but-numerically-equal")
    else:
        rep.count(family + ":post-selected:no-trigger:oracle-pass")


def replay(kind, payload):
    """Stand-alone reproduction against the implementation (used by replay files)."""
    import tk_impl as ti
    import tksim
    if kind in ("export", "roundtrip"):
        c = ti.build_circuit(payload)
        print("circuit:", c)
        t = c.to_tk()
        print("to_tk:", repr(t))
        print("simulated :", np.round(tksim.distribution(t), 6).tolist())
        try:
            print("evaluated :", np.round(np.asarray(c.init_and_discard().eval(mixed=True).array), 6).tolist())
        except Exception as exc:  # noqa
            print("evaluated : raises", type(exc).__name__, exc)
            print("own eval  :", np.round(tksim.dsim(c.init_and_discard()), 6).tolist())
        if kind == "roundtrip":
            from discopy.quantum.circuit import Circuit
            c2 = Circuit.from_tk(t)
            print("from_tk:", c2)
            print("own eval of import:", np.round(tksim.dsim(c2), 6).tolist())
    else:
        import pytket as tk
        from discopy.quantum.circuit import Circuit
        t = build_tk(tk, payload)
        print("tket:", t.get_commands(), "post_selection:", getattr(t, "post_selection", {}))
        up = t if isinstance(t, ti.dtk.Circuit) else ti.dtk.Circuit.upgrade(t)
        print("distribution:", np.round(tksim.distribution(up), 6).tolist())
        c2 = Circuit.from_tk(t)
        print("from_tk:", c2)
        print("own eval of import:", np.round(tksim.dsim(c2), 6).tolist())


# ---------------------------------------------------------------- driver
class MiniRep:
    """The part of common.Report the per-case checks use; picklable, merged by the parent."""

    def __init__(self):
        self.hist, self.known, self.violations, self.extra = {}, [], [], {}
        self.disagreements_checked = 0
        self.cases = []

    def count(self, key, n=1):
        self.hist[key] = self.hist.get(key, 0) + n

    def known_finding(self, fid, what):
        if (fid, what) not in self.known:
            self.known.append((fid, what))

    def violation(self, what, payload, found_input=True):
        self.violations.append((what, payload, found_input))

    def case(self, canonical, nontrivial=True, sample=None):
        self.cases.append((canonical, nontrivial, sample))


def _worker(job):
    kind, items = job
    import tk_impl as ti
    import tksim
    import pytket as tk
    dtk = ti.dtk
    rep = MiniRep()
    for item in items:
        if kind == "export":
            name, prog, ans = item
            rep.count("stream:" + name)
            rep.count("depth:%d" % min(len(prog[1]), 10))
            rep.case(["export", prog], nontrivial=len(prog[1]) >= 2,
                     sample={"stream": name, "circuit": ti.pretty(prog)})
            try:
                check_export(rep, ti, tksim, dtk, prog, ans, name)
            except common.CaseTimeout:
                rep.violation("timeout while checking a circuit",
                              {"program": prog, "replay": snippet("export", prog)})
            except Exception as exc:   # noqa  (an oracle that cannot run is not a pass)
                rep.violation("the check itself failed on a circuit: %s: %s" % (type(exc).__name__, exc),
                              {"program": prog, "circuit": ti.pretty(prog), "replay": snippet("export", prog)})
        else:
            raw = item
            t = build_tk(tk, raw)
            rep.case(["import", raw], nontrivial=len(raw[2]) >= 2,
                     sample={"stream": "tket", "tk": repr(raw)})
            rep.count("stream:tket" + ("-post-selected" if len(raw) > 3 and raw[3] else ""))
            payload = {"tk_raw": raw, "replay": snippet("import", raw)}
            try:
                up = t if isinstance(t, dtk.Circuit) else dtk.Circuit.upgrade(t)
                want = tksim.distribution(up)
                check_import(rep, ti, tksim, t, want, payload, "tket")
            except common.CaseTimeout:
                rep.violation("timeout while checking a tket circuit", payload)
            except Exception as exc:   # noqa
                rep.violation("the check itself failed on a tket circuit: %s: %s" % (type(exc).__name__, exc),
                              payload)
    return rep


def build_tk(tk, raw):
    """[nq, nb, commands] -> a plain pytket circuit; [nq, nb, commands, post_selection] with a non-empty
    post_selection -> a discopy.quantum.tk.Circuit carrying it (post_processing = Id on the kept bits)."""
    nq, nb, cmds = raw[:3]
    if len(raw) > 3 and raw[3]:
        import tk_impl as ti
        t = ti.dtk.Circuit(nq, nb, post_selection={int(k): int(v) for k, v in raw[3]})
    else:
        t = tk.Circuit(nq, nb)
    for name, params, qs, bs in cmds:
        getattr(t, name)(*(list(params) + list(qs) + list(bs)))
    return t


def adjoint_and_batch_stream(rep, rng, count):
    """Oracle-only stream on the real objects, outside the integer-coded model: (a) circuits with
    the ADJOINTS of the named gates (S.dagger(), T.dagger(), Y.dagger(), daggered controlled gates):
    the exported tket circuit, run on the exact simulator and post-processed, gives the circuit's
    own mixed evaluation, and so does the re-imported circuit; (b) mixed scalars of either sign and
    (c) several circuits evaluated through one call of a backend returning exact frequencies: every
    circuit of the batch gets its own distribution."""
    import tksim
    from discopy.quantum import gates as G
    from discopy.quantum.circuit import Circuit, Measure, Id, qubit
    bad = 0

    class Exact:
        """A backend that returns exact frequencies (as get_counts expects them)."""
        def process_circuits(self, circuits, n_shots=None, seed=None):
            self.circuits = list(circuits)
            return list(range(len(self.circuits)))

        def get_result(self, handle):
            tkc = self.circuits[handle]

            class Res:
                def get_counts(self_inner):
                    return {k_: float(v) * 2 ** 20 for k_, v in tksim.exact_counts(tkc).items() if v > 1e-12}
            return Res()

        def default_compilation_pass(self):
            class P:
                def apply(self, c):
                    return None
            return P()

    def fail(what, payload):
        nonlocal bad
        bad += 1
        rep.count("oracle:adjoint-batch:FAIL")
        if bad <= 4:
            rep.violation(what, payload)

    def build():
        n = rng.randint(1, 2)
        c = G.Ket(*[0] * n)
        pool1 = [G.H, G.S, G.T, G.X, G.Y, G.Z, G.S.dagger(), G.T.dagger(), G.Y.dagger(), G.Rx(rng.choice([0.25, 0.125, 0.375])),
                 G.Rz(rng.choice([0.25, 0.125]))]
        pool2 = [G.CX, G.CZ, G.SWAP, G.CRz(0.25)]
        for _ in range(rng.randint(2, 5)):
            if n == 2 and rng.random() < 0.3:
                c = c >> rng.choice(pool2)
            else:
                off = rng.randint(0, n - 1)
                c = c >> Id(qubit ** off) @ rng.choice(pool1) @ Id(qubit ** (n - off - 1))
        return c >> Measure(n)
    for k in range(count):
        rep.count("stream:adjoint-batch")
        try:
            c = build()
            if rng.random() < 0.3:
                c = G.scalar(rng.choice([-1, -0.5, 2]), is_mixed=True) @ c
            want = np.asarray(c.eval(mixed=True).array, dtype=complex).flatten()
            t = c.to_tk()
            got = np.asarray(tksim.distribution(t), dtype=complex).flatten()
            if got.shape != want.shape or not np.allclose(got, want, atol=1e-9):
                fail("the exported circuit simulates to %r, the circuit evaluates to %r" % (list(np.round(got, 6)), list(np.round(want, 6))),
                     {"circuit": repr(c), "commands": [str(x) for x in t.get_commands()]})
                continue
            back = Circuit.from_tk(t)
            again = np.asarray(back.eval(mixed=True).array, dtype=complex).flatten()
            if again.shape != want.shape or not np.allclose(again, want, atol=1e-9):
                fail("from_tk(to_tk(c)) evaluates to %r, c to %r" % (list(np.round(again, 6)), list(np.round(want, 6))),
                     {"circuit": repr(c)})
                continue
            # a batch through one backend call
            c2 = build()
            if len(c2.cod) == len(c.cod) or True:
                ev = c.eval(c2, backend=Exact(), n_shots=2 ** 20, compilation=None) \
                    if False else Circuit.eval(c, c2, backend=Exact(), n_shots=2 ** 20, compilation=None)
                w1 = want
                w2 = np.asarray(c2.eval(mixed=True).array, dtype=complex).flatten()
                g1 = np.asarray(ev[0].array, dtype=complex).flatten()
                g2 = np.asarray(ev[1].array, dtype=complex).flatten()
                if g1.shape != w1.shape or g2.shape != w2.shape or not np.allclose(g1, w1, atol=1e-6) \
                        or not np.allclose(g2, w2, atol=1e-6):
                    fail("two circuits evaluated through one backend call give %r and %r, alone they evaluate to %r and %r" % (
                        list(np.round(g1, 5)), list(np.round(g2, 5)), list(np.round(w1, 5)), list(np.round(w2, 5))),
                        {"first": repr(c), "second": repr(c2)})
                    continue
        except Exception as exc:   # noqa
            fail("adjoint / batch stream raised %s: %s" % (type(exc).__name__, exc), {})
            continue
        rep.count("oracle:adjoint-batch:pass")


def run(tier, seed):
    import multiprocessing
    import tk_impl as ti
    import tksim
    import pytket as tk
    rep = Report("C13", tier, seed)
    proof_ok = common.proof_stage(rep, "C13")
    rng = random.Random(seed)
    quick = tier == "quick"

    cases = [(name, p) for name, p in CORPUS]
    f10_prefix = [[[0, [1, 0]], 0]]
    scope = small_scope(f10_prefix, 3 if quick else 4)
    if quick:
        scope = [p for i, p in enumerate(scope) if i % 4 == 0 or len(p[1]) <= 3]
    else:       # every continuation by <= 3 layers, one in twelve of those by 4
        scope = [p for i, p in enumerate(scope) if i % 12 == 0 or len(p[1]) <= 4]
    cases += [("scope", p) for p in scope]
    n_rand = 600 if quick else 4000
    for i in range(n_rand):
        wild = 0.5 if i % 7 == 0 else 0.0           # ~15 % malformed / non-exportable stream
        clean = (i % 2 == 0) and not wild
        cases.append(("wild" if wild else "clean" if clean else "random",
                      gen_circuit(rng, ti, rng.randint(1, 9), wild=wild,
                                  open_dom=rng.random() < 0.25, clean=clean)))
    answers = common.run_model_parallel("tk", [[1, SWITCHES, p] for _, p in cases])
    seen, items = set(), []
    for (name, prog), ans in zip(cases, answers):
        key = common.to_sexp(prog)
        if key in seen:
            continue
        seen.add(key)
        if ans[0] != 0:
            raise RuntimeError("model could not decode %r" % (prog,))
        items.append((name, prog, ans))

    # (d) random tket circuits over (mostly) supported operations
    n_tk = 300 if quick else 2000
    hand = [tk.Circuit(4).X(0).CX(0, 3), tk.Circuit(4, 1).X(0).CX(0, 3).Measure(3, 0), tk.Circuit(4).X(3).CX(3, 0), tk.Circuit(3).H(1).CX(1, 2).CX(1, 0),
            tk.Circuit(3, 3).X(0).CX(0, 2).Measure(2, 0).Measure(0, 2), tk.Circuit(2).SWAP(0, 1),
            tk.Circuit(1, 1), tk.Circuit(0, 0), tk.Circuit(2, 1).Rx(0.5, 1).CRz(1.25, 1, 0).Measure(0, 0)]
    raws = []
    for t in hand + [gen_tk(rng, tk) for _ in range(n_tk)]:
        raws.append([t.n_qubits, len(t.bits), [[n, p, q, b] for n, p, q, b in tksim.commands(t)]])

    # (d') tket circuits with a post-selection: the post-selected Measure is / is not last on its qubit
    n_psel = 150 if quick else 1000
    raws += [list(r) for r in PSEL_CORPUS] + [gen_tk_psel(rng, tk) for _ in range(n_psel)]

    common.ensure_runner("tk")
    workers = 8
    jobs = [("export", items[k::workers]) for k in range(workers)] + \
           [("import", raws[k::workers]) for k in range(workers)]
    ctx = multiprocessing.get_context("fork")
    with ctx.Pool(workers) as pool:
        parts = pool.map(_worker, jobs, chunksize=1)
    for part in parts:
        for k, v in part.hist.items():
            rep.count(k, v)
        for fid, what in part.known:
            rep.known_finding(fid, what)
        for what, payload, found in part.violations:
            rep.violation(what, payload, found)
        rep.disagreements_checked += part.disagreements_checked
        for key in ("disagreements", "numerically_invisible"):
            if part.extra.get(key):
                rep.extra.setdefault(key, []).extend(part.extra[key])
        for canonical, nontrivial, sample in part.cases:
            rep.case(canonical, nontrivial=nontrivial, sample=sample)
            rep.programs += 1

    rep.extra["repair_switches"] = dict(FIXED)
    adjoint_and_batch_stream(rep, random.Random(seed + 1313), 40 if tier == "quick" else 500)
    base.settle(rep, "C13", proof_ok, "C13")
    return rep.finish(
        rule="to_tk: corpus of doc examples and finding reproducers; continuations by <= %d layers (all of them "
             "up to 2 (quick) / 3 (thorough) layers, a fixed sample of the longest) of Ket(1, 0) over {Measure (destructive or not), Bra(0), X, Swap, Bits(0), Ket(0), NOT} at every "
             "offset; %d random circuits grown forwards (<= 3 live qubits, <= 3 live bits, preparations / "
             "post-selections / measurements / swaps at any depth, phases k/16), half of them 'clean' (bits only "
             "added at the right end), one in seven from a malformed / non-exportable stream; from_tk: the export "
             "of every circuit above, %d random tket circuits (<= 5 qubits, <= 3 bits) and %d random tket circuits "
             "with a post-selection on bits that some Measure writes (<= 4 qubits, <= 4 bits; in about half "
             "of them gates / measurements follow the measurements, so that a post-selected Measure is not the "
             "last command on its qubit; in a quarter several Measures may write the same bit) plus nine "
             "hand-written ones; non-trivial = at least "
             "two layers / commands; distinct by program" % (3 if quick else 4, n_rand, n_tk, n_psel),
        trusted_base=[
            "Coq 8.16.1 kernel (coqc full .vo build; vm_compute only in closed refutation witnesses and Examples)",
            "hand-written Gallina model coq/Tk/Tk.v of discopy/quantum/tk.py (to_tk, from_tk, Circuit wrapper) and "
            "of Circuit.init_and_discard, tied to /repo only by this run's exact syntactic correspondence",
            "extraction: ExtrOcamlBasic only; OCaml 4.13.1; runner/main.ml",
            "pytket 2.18.3 as an external oracle: unit renaming, add_blank_wires filling the lowest free indices, "
            "parameters stored modulo 4, get_commands() returning a topological order (command lists are compared "
            "modulo commutation of commands on disjoint units), Op.get_unitary()",
            "harness/tksim.py (exact branching simulators of tket command lists and of bit/qubit circuits; the latter "
            "is cross-checked against DisCoPy's own mixed evaluation on every case where that runs), numpy",
        ],
        assumptions=[
            "phases are dyadic rationals (grid k/16), for which 2*x and x/2 are exact in floating point",
            "scalars are compared numerically at 1e-9 (product of the factors the model lists)",
            "classical gates are opaque to the model (name, arity); their arrays only enter the oracles",
            "the semantic (distribution) statement is checked by the oracles on every generated case, and proved "
            "only at the level of wire-labelled traces (to_tk_refines_trace) -- see notes/C13.md",
        ],
        checker_cmd="make -C coq Props/C13.vo  (coqc 8.16.1, Print Assumptions parsed)")
