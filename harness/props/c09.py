"""C09 -- evaluating a diagram computes its compositional meaning.

Proof stage (coq/Props/C09.v), then for every generated case {prog, style}:
  * correspondence: discopy.tensor.Functor / Diagram.eval from /repo against the
    extracted model coq/TFun/TFun.v (exact Gaussian-integer arrays, exception class);
  * oracles on the implementation alone:
      (1) the layer-by-layer composite id(F left) (x) F(box) (x) id(F right) built
          with Tensor.then / tensor / id, boxes interpreted by their defining tensors;
      (2) an independent numpy.einsum contraction of the whole diagram;
      (3) invariance under a random legal interchange and under normal_form();
      (4) eval() against the identity-on-arrays functor (tensor diagrams);
  * numpy.tensordot with axes lists (the one primitive added to the numpy model).
Finding F5 (winding number ignored without reversing) was fixed upstream by
/repo commit 413701f; its former minimal input is the first corpus case, as an
ordinary regression case: any oracle failure is a VIOLATION."""
import itertools
import os
import random

import numpy

import common
from common import Report, freeze
from props import base

JOBS = 8
MAX_RECORDED = 15
KBOX, KSWAP, KCUP, KCAP = 0, 1, 2, 3
DLIT, DSPIDER, DTERM = 0, 1, 2
TDIAG, TBOX, TBUBBLE, TSUM = 0, 1, 2, 3

def prod(l):
    r = 1
    for x in l:
        r *= x
    return r


def norm(l):
    return [x for x in l if x != 1]


# ====================================================================== independent semantics
class Sem:
    """What a case *should* evaluate to, from the definitions alone (numpy only for
    `einsum`; Tensor.then / tensor / id of the implementation for `layers`)."""

    def __init__(self, prog):
        self.mode, self.obs, self.env, self.terms, self.main = prog
        self.table = {}
        for name, img in self.obs:
            self.table.setdefault(name, img)
        self.envmap = {freeze(b): d for b, d in self.env}

    def img(self, ob):
        name, z = ob
        if self.mode == 1:
            return norm([name])
        d = norm(self.table[name])
        if any(x < 1 for x in d):
            raise ValueError
        return d[::-1] if z % 2 else d          # F(x.l) = F(x).l : reversed

    def F(self, t):
        return [x for ob in t for x in self.img(ob)]

    # ---- defining arrays
    def lit(self, b):
        return numpy.array(_py(self.envmap[freeze(b)][1]))

    def box_array(self, b, how):
        """array of shape F(dom) + F(cod)"""
        kind, name, dom, cod, dag, _ = b
        fd, fc = self.F(dom), self.F(cod)
        if kind == KSWAP:
            l, r = self.F(dom[:1]), self.F(dom[1:])
            a = numpy.zeros(tuple(l + r + r + l), dtype=int)
            for i in numpy.ndindex(*l):
                for j in numpy.ndindex(*r):
                    a[i + j + j + i] = 1
            return a
        if kind in (KCUP, KCAP):
            t = dom if kind == KCUP else cod
            l, r = self.F(t[:1]), self.F(t[1:])
            if l[::-1] != r:
                raise AssertionError("oracle: non-adjoint cup")
            a = numpy.zeros(tuple(l + r), dtype=int)
            for i in numpy.ndindex(*l):
                a[i + i[::-1]] = 1
            return a
        if dag:
            und = [kind, name, cod, dom, 0, []]
            a = self.box_array(und, how)             # shape F(cod) + F(dom) of the dagger
            n, m = len(fc), len(fd)                  # und: dom has n axes, cod has m
            return numpy.conjugate(numpy.transpose(a, list(range(n, n + m)) + list(range(n))))
        d = self.envmap[freeze(b)]
        if d[0] == DLIT:
            return numpy.array(_py(d[1])).reshape(tuple(fd + fc))
        if d[0] == DSPIDER:
            legs, dim = d[1] + d[2], d[3]
            if dim == 1:
                return numpy.array(1)
            a = numpy.zeros((dim,) * legs, dtype=int)
            for i in range(dim):
                a[(i,) * legs] = 1
            return a
        _, _, a = self.term(d[1], how)
        return a.reshape(tuple(fd + fc))

    # ---- terms
    def term(self, j, how):
        t = self.terms[j]
        if t[0] == TDIAG:
            return self.diagram(t[1], t[2], t[3], t[4], how)
        if t[0] == TBOX:
            b = t[1]
            return self.F(b[2]), self.F(b[3]), self.box_array(b, how)
        if t[0] == TBUBBLE:
            d, c, a = self.term(t[2], how)
            f = FUNCS[t[1]]
            flat = [f(x) for x in a.flatten().tolist()]
            return d, c, numpy.array(flat).reshape(a.shape)
        if t[0] == TSUM:
            d, c = self.F(t[2]), self.F(t[3])
            a = numpy.zeros(tuple(d + c), dtype=int)
            for k in t[1]:
                dk, ck, ak = self.term(k, how)
                if (dk, ck) != (d, c):
                    raise AssertionError("oracle: ill-typed sum")
                a = a + ak
            return d, c, a
        raise AssertionError

    def diagram(self, dom, cod, boxes, offs, how):
        if how == "einsum":
            return self.einsum(dom, cod, boxes, offs)
        return self.layers(dom, cod, boxes, offs)

    def layers(self, dom, cod, boxes, offs):
        """oracle (1): fold Tensor.then over Tensor.id(F l) @ F(box) @ Tensor.id(F r)"""
        from discopy.tensor import Tensor, Dim
        scan = list(dom)
        result = Tensor.id(Dim(*self.F(dom)))
        for b, off in zip(boxes, offs):
            left, right = scan[:off], scan[off + len(b[2]):]
            assert scan[off:off + len(b[2])] == b[2], "oracle: ill-typed diagram"
            t = Tensor(Dim(*self.F(b[2])), Dim(*self.F(b[3])), self.box_array(b, "layers"))
            layer = Tensor.id(Dim(*self.F(left))) @ t @ Tensor.id(Dim(*self.F(right)))
            result = result >> layer
            scan = left + b[3] + right
        assert scan == cod, "oracle: ill-typed diagram"
        return self.F(dom), self.F(cod), numpy.asarray(result.array).reshape(
            tuple(self.F(dom) + self.F(cod)))

    def einsum(self, dom, cod, boxes, offs):
        """oracle (2): one numpy.einsum over all boxes, wires of the image as labels"""
        fresh = itertools.count()
        operands = []
        ins, cur = [], []                       # cur: per object of scan, its list of labels
        for ob in dom:
            a, b = [], []
            for d in self.img(ob):
                i, o = next(fresh), next(fresh)
                operands += [numpy.eye(d, dtype=int), [i, o]]
                a.append(i)
                b.append(o)
            ins += a
            cur.append(b)
        for b, off in zip(boxes, offs):
            k = len(b[2])
            if b[0] == KSWAP:
                cur[off], cur[off + 1] = cur[off + 1], cur[off]
                continue
            used = [x for grp in cur[off:off + k] for x in grp]
            out = [[next(fresh) for _ in self.img(ob)] for ob in b[3]]
            operands += [self.box_array(b, "einsum"), used + [x for grp in out for x in grp]]
            cur[off:off + k] = out
        outs = [x for grp in cur for x in grp]
        if next(fresh) > 50:
            raise TooManyLabels()
        a = numpy.einsum(*operands, ins + outs, optimize="greedy") if operands \
            else numpy.array(1)
        return self.F(dom), self.F(cod), numpy.asarray(a)


class TooManyLabels(Exception):
    pass


FUNCS = {0: (lambda x: int(not x)), 1: (lambda x: x * x), 2: (lambda x: x + 1)}


def _py(data):
    if all(im == 0 for _, im in data):
        return [int(re) for re, _ in data]
    return [complex(re, im) for re, im in data]


def canon_sem(ti, res):
    d, c, a = res
    a = numpy.asarray(a)
    shape = d + c or [1]
    return [d, c, [shape, [ti.canon_entry(x) for x in a.flatten().tolist()]]]


# ====================================================================== generation
IMAGES = [[], [1], [2], [2], [3], [3], [2], [4], [2, 2], [3, 3], [2, 3], [3, 2], [2, 3, 2], [2, 1, 3]]


class Gen:
    def __init__(self, rng, cap):
        self.rng, self.cap = rng, cap

    def data(self, n, gauss):
        rng = self.rng
        if gauss:
            return [[rng.randint(-2, 3), rng.randint(-2, 2)] for _ in range(n)]
        return [[rng.randint(-2, 3), 0] for _ in range(n)]

    def new_case(self, mode):
        rng = self.rng
        self.mode = mode
        self.env, self.terms, self.counter = [], [], 10
        self.gauss = rng.random() < 0.3
        if mode == 0:
            names = [1, 2, 3, 4]
            self.table = {n: list(rng.choice(IMAGES)) for n in names}
            self.rigid = rng.random() < 0.6
        else:
            self.table = {2: [2], 3: [3], 4: [4]}
            self.rigid = rng.random() < 0.3
        self.peak = 1

    def img(self, ob):
        d = norm(self.table[ob[0]])
        return d[::-1] if ob[1] % 2 else d

    def F(self, t):
        return [x for ob in t for x in self.img(ob)]

    def ob(self):
        rng = self.rng
        if self.mode == 1:
            return [rng.choice([2, 2, 3, 3, 4]), 0]
        z = 0
        if self.rigid and rng.random() < 0.3:
            z = rng.choice([-2, -1, -1, 1, 1, 2])
        return [rng.choice(sorted(self.table)), z]

    def ty(self, lo, hi, budget):
        """a type of lo..hi objects whose image has at most `budget` entries"""
        t = []
        for _ in range(self.rng.randint(lo, hi)):
            ob = self.ob()
            if prod(self.F(t + [ob])) <= budget:
                t.append(ob)
        return t

    def fresh(self):
        self.counter += 1
        return self.counter

    def plain_box(self, dom, cod):
        b = [KBOX, self.fresh(), dom, cod, 0, []]
        n = prod(self.F(dom)) * prod(self.F(cod))
        self.env.append([b, [DLIT, self.data(n, self.gauss)]])
        return b

    def grow(self, dom, n_boxes, allow_special=True):
        """a well-typed (dom, cod, boxes, offsets) grown forwards from dom, keeping
        prod(F dom) * prod(F scan) under the cap"""
        rng = self.rng
        d0 = prod(self.F(dom))
        scan, boxes, offs = list(dom), [], []
        for _ in range(n_boxes):
            room = max(1, self.cap // max(1, d0 * prod(self.F(scan))))
            k = rng.randint(0, min(2, len(scan)))
            off = rng.randint(0, len(scan) - k)
            bdom = scan[off:off + k]
            r = rng.random()
            b = None
            pairs = [i for i in range(len(scan) - 1) if self.is_adjoint(scan[i:i + 2])]
            if pairs and rng.random() < 0.3:         # close an adjoint pair with a Cup
                off, k = rng.choice(pairs), 2
                bdom = scan[off:off + 2]
                r = 0.2
            if r < 0.13 and self.rigid and self.mode == 0 or (r < 0.08 and self.mode == 1):
                x = self.ob()
                y = [x[0], x[1] + 1] if self.mode == 0 else x
                pair = [x, y] if rng.random() < 0.5 else [y, x]
                if prod(self.F(pair)) <= room:
                    b, off, bdom = [KCAP, -3, [], pair, 0, []], rng.randint(0, len(scan)), []
            elif r < 0.3 and k == 2 and self.is_adjoint(bdom):
                b = [KCUP, -2, bdom, [], 0, []]
            elif r < 0.45 and k == 2:
                b = [KSWAP, -1, bdom, bdom[::-1], 0, []]
            elif r < 0.55 and self.mode == 1 and allow_special:
                b, off, bdom = self.spider(scan, room)
            elif r < 0.63 and self.mode == 1 and allow_special and len(self.terms) < 6:
                b = self.bubble_box(bdom, room)
            if b is None:
                bcod = self.ty(0, 2, room * prod(self.F(bdom)))
                if rng.random() < 0.25:
                    und = self.plain_box(bcod, bdom)
                    b = [KBOX, und[1], bdom, bcod, 1, []]
                else:
                    b = self.plain_box(bdom, bcod)
            boxes.append(b)
            offs.append(off)
            scan = scan[:off] + b[3] + scan[off + len(b[2]):]
            self.peak = max(self.peak, d0 * prod(self.F(scan)))
            if b[0] in (KCUP, KCAP):     # Tensor.cups starts from id(left @ right)
                self.peak = max(self.peak, prod(self.F(b[2] + b[3])) ** 2)
        return dom, scan, boxes, offs

    def is_adjoint(self, pair):
        (a, za), (b, zb) = pair
        if self.mode == 1:
            return a == b
        return a == b and abs(za - zb) == 1

    def spider(self, scan, room):
        rng = self.rng
        dim = rng.choice([2, 2, 3, 1])
        run_len, off = 0, 0
        if dim != 1:
            starts = [i for i, ob in enumerate(scan) if ob[0] == dim]
            if starts and rng.random() < 0.8:
                off = rng.choice(starts)
                run_len = 1 + (1 if off + 1 < len(scan) and scan[off + 1][0] == dim
                               and rng.random() < 0.5 else 0)
            else:
                off = rng.randint(0, len(scan))
        else:
            off = rng.randint(0, len(scan))
        n_out = rng.randint(0, 2)
        while dim ** n_out > room * dim ** run_len and n_out > 0:
            n_out -= 1
        dom = [[dim, 0]] * run_len if dim != 1 else []
        cod = [[dim, 0]] * n_out if dim != 1 else []
        n_in = run_len if dim != 1 else rng.randint(0, 2)
        if dim == 1:
            n_out = rng.randint(0, 2)
        b = [KBOX, 1000 + 100 * n_in + 10 * n_out + dim, dom, cod, 0, []]
        if all(freeze(e[0]) != freeze(b) for e in self.env):
            self.env.append([b, [DSPIDER, n_in, n_out, dim]])
        return b, off, dom

    def bubble_box(self, bdom, room):
        rng = self.rng
        dom, cod, boxes, offs = self.grow(bdom, rng.randint(0, 2), allow_special=rng.random() < 0.3)
        if prod(self.F(cod)) > room * prod(self.F(bdom)):
            return None
        self.terms.append([TDIAG, dom, cod, boxes, offs])
        inside = len(self.terms) - 1
        if rng.random() < 0.3:                      # a bubble around a sum
            clone = self.clone(self.terms[inside])
            self.terms.append(clone)
            self.terms.append([TSUM, [inside, len(self.terms) - 1], dom, cod])
            inside = len(self.terms) - 1
        self.terms.append([TBUBBLE, rng.choice([0, 0, 1, 2]), inside])
        b = [KBOX, self.fresh(), dom, cod, 0, []]
        self.env.append([b, [DTERM, len(self.terms) - 1]])
        return b

    def clone(self, term):
        """the same diagram shape with fresh literal boxes (same dom and cod)"""
        _, dom, cod, boxes, offs = term
        out = []
        for b in boxes:
            d = self.lookup(b)
            if b[0] == KBOX and not b[4] and d is not None and d[0] == DLIT and self.rng.random() < 0.7:
                out.append(self.plain_box(b[2], b[3]))
            else:
                out.append(b)
        return [TDIAG, dom, cod, out, offs]

    def lookup(self, b):
        for k, d in self.env:
            if freeze(k) == freeze(b):
                return d
        return None

    def style(self):
        rng = self.rng
        ints = [n for n, img in self.table.items() if len(img) == 1 and rng.random() < 0.5]
        return {"int_obs": ints, "call_ob": rng.random() < 0.4, "call_ar": rng.random() < 0.4}

    def finish(self, main):
        obs = [[n, img] for n, img in sorted(self.table.items())] if self.mode == 0 else []
        prog = [self.mode, obs, self.env, self.terms, main]
        return {"prog": prog, "style": self.style() if self.mode == 0 else {}, "peak": self.peak}

    def case(self, mode):
        rng = self.rng
        self.new_case(mode)
        dom = self.ty(0, 3, 12)
        dom, cod, boxes, offs = self.grow(dom, rng.randint(0, 6))
        self.terms.append([TDIAG, dom, cod, boxes, offs])
        main = len(self.terms) - 1
        r = rng.random()
        if r < 0.12:                                 # a formal sum
            ts = [main]
            for _ in range(rng.randint(0, 2)):
                self.terms.append(self.clone(self.terms[main]))
                ts.append(len(self.terms) - 1)
            if rng.random() < 0.15:
                ts = []
            self.terms.append([TSUM, ts, dom, cod])
            main = len(self.terms) - 1
        elif r < 0.2 and mode == 1:                  # a bubble at top level
            self.terms.append([TBUBBLE, rng.choice([0, 1, 2]), main])
            main = len(self.terms) - 1
        elif r < 0.3 and boxes:                      # a single box
            b = rng.choice(boxes)
            if mode == 0 or b[0] in (KBOX, KSWAP):   # rigid.Cup / Cap have no eval()
                self.terms.append([TBOX, b])
                main = len(self.terms) - 1
        return self.finish(main)

    def malformed(self):
        """wrong array sizes, missing keys, ob mapped to 0 / negative ints"""
        rng = self.rng
        for _ in range(20):
            case = self.case(0 if rng.random() < 0.8 else 1)
            mode, obs, env, terms, main = case["prog"]
            lits = [i for i, (b, d) in enumerate(env) if d[0] == DLIT]
            kind = rng.choice(["size", "size", "key", "obkey", "zero"])
            if kind == "size" and lits:
                i = rng.choice(lits)
                n = len(env[i][1][1])
                env[i][1][1] = self.data(rng.choice([n + 1, n + 2, max(0, n - 1), 2 * n + 1]), False)
                if len(env[i][1][1]) == n:
                    continue
                return "size", case
            if kind == "key" and lits and mode == 0:
                del env[rng.choice(lits)]
                return "key", case
            if kind == "obkey" and mode == 0 and obs:
                del obs[rng.randrange(len(obs))]
                return "obkey", case
            if kind == "zero" and mode == 0 and obs:
                i = rng.randrange(len(obs))
                obs[i][1] = [rng.choice([0, -1, 0, 2, 0])]     # an int (a Dim cannot hold it)
                case["style"]["int_obs"] = [obs[i][0]]
                return "zero", case
        return "none", case


# ---------------------------------------------------------------------- corpus
def corpus():
    """hand-written edge cases; the first ones are the former minimal inputs of F5
    (fixed by /repo commit 413701f), now ordinary regression cases"""
    x, y, xl, xr, yl = [1, 0], [2, 0], [1, -1], [1, 1], [2, -1]
    d = lambda n, k=1: [[(i * k) % 5 - 1, 0] for i in range(n)]   # noqa: E731
    g = lambda n: [[(i % 4) - 1, (i % 3) - 1] for i in range(n)]   # noqa: E731
    f = [KBOX, 11, [x], [y], 0, []]
    fd = [KBOX, 11, [y], [x], 1, []]
    s = [KBOX, 12, [], [], 0, []]
    h = [KBOX, 13, [x, y], [x], 0, []]
    sw = [KSWAP, -1, [x, y], [y, x], 0, []]
    out = []

    def case(obs, env, terms, main=None, mode=0, peak=0, **style):
        out.append({"prog": [mode, obs, env, terms, len(terms) - 1 if main is None else main],
                    "style": style, "peak": peak})
    # formerly F5: Functor({y: Dim(3, 2)}, {})(Cap(y, y.l)) raised AxiomError
    case([[2, [3, 2]]], [], [[TBOX, [KCAP, -3, [], [y, yl], 0, []]]])
    case([[2, [3, 2]]], [], [[TDIAG, [yl, y], [], [[KCUP, -2, [yl, y], [], 0, []]], [0]]])
    case([[1, [2, 3]]], [], [[TDIAG, [xl], [xl], [], []]])
    # palindromic images: cups and caps are fine
    case([[2, [3, 3]]], [], [[TBOX, [KCAP, -3, [], [y, yl], 0, []]]])
    case([[1, [2]]], [], [[TDIAG, [x], [x], [[KCAP, -3, [], [xr, x], 0, []], [KCUP, -2, [x, xr], [], 0, []]],
                           [1, 0]]], int_obs=[1])
    case([[1, [2, 3, 2]]], [], [[TDIAG, [x, xr], [], [[KCUP, -2, [x, xr], [], 0, []]], [0]]], peak=20736)
    case([[1, [2, 2]]], [], [[TDIAG, [x, xr], [], [[KCUP, -2, [x, xr], [], 0, []]], [0]]])
    # boxes, daggers, scalars, empty images, Dim(1)
    for img_x, img_y in ([[2], [3]], [[2, 3], [2]], [[], [3]], [[1], [2, 2]], [[2], []]):
        fx, fy = norm(img_x), norm(img_y)
        nx, ny = prod(fx), prod(fy)
        env = [[f, [DLIT, d(nx * ny)]], [s, [DLIT, [[3, 0]]]], [h, [DLIT, g(nx * ny * nx)]]]
        obs = [[1, img_x], [2, img_y]]
        case(obs, env, [[TDIAG, [x], [y], [f], [0]]])
        case(obs, env, [[TBOX, f]], call_ob=True)
        case(obs, env, [[TBOX, fd]], call_ar=True)
        case(obs, env, [[TDIAG, [x], [x], [f, fd], [0, 0]]])
        case(obs, env, [[TDIAG, [x, y], [x], [s, h, s], [1, 0, 0]]])
        case(obs, env, [[TDIAG, [x, y], [y, x], [sw], [0]]])
        case(obs, env, [[TBOX, sw]])
        case(obs, env, [[TDIAG, [x, x, y], [x, y], [sw, h, f], [1, 0, 1]]], call_ob=True, call_ar=True)
        case(obs, env, [[TDIAG, [], [], [s, s], [0, 0]]])
        case(obs, env, [[TDIAG, [], [], [], []]])
        case(obs, env, [[TDIAG, [x], [y], [f], [0]], [TDIAG, [x], [y], [f], [0]], [TSUM, [0, 1], [x], [y]]])
        case(obs, env, [[TSUM, [], [x], [y]]])
    # tensor diagrams: eval
    t2, t3 = [2, 0], [3, 0]
    m = [KBOX, 21, [t2], [t3], 0, []]
    md = [KBOX, 21, [t3], [t2], 1, []]
    v = [KBOX, 22, [], [t2], 0, []]
    sp12 = [KBOX, 1122, [t2], [t2, t2], 0, []]
    sp20 = [KBOX, 1203, [t3, t3], [], 0, []]
    sp00 = [KBOX, 1002, [], [], 0, []]
    sp1 = [KBOX, 1211, [], [], 0, []]
    env = [[m, [DLIT, g(6)]], [v, [DLIT, d(2, 3)]], [sp12, [DSPIDER, 1, 2, 2]], [sp20, [DSPIDER, 2, 0, 3]],
           [sp00, [DSPIDER, 0, 0, 2]], [sp1, [DSPIDER, 2, 1, 1]]]
    case([], env, [[TDIAG, [t2], [t3], [m], [0]]], mode=1)
    case([], env, [[TBOX, md]], mode=1)
    case([], env, [[TDIAG, [], [t2, t2], [v, sp12, sp00, sp1], [0, 0, 1, 2]]], mode=1)
    case([], env, [[TDIAG, [t2], [], [m, v, m, sp20], [0, 1, 1, 0]]], mode=1)
    case([], env, [[TDIAG, [t2, t2], [], [[KCUP, -2, [t2, t2], [], 0, []]], [0]]], mode=1)
    case([], env, [[TDIAG, [t2], [t3, t2, t3], [[KCAP, -3, [], [t3, t3], 0, []],
                                               [KSWAP, -1, [t2, t3], [t3, t2], 0, []]], [1, 0]]], mode=1)
    bub = [KBOX, 31, [t2], [t3], 0, []]
    envb = env + [[bub, [DTERM, 1]]]
    for func in (0, 1, 2):
        case([], envb, [[TDIAG, [t2], [t3], [m], [0]], [TBUBBLE, func, 0],
                        [TDIAG, [t2], [t2], [bub, md], [0, 0]]], mode=1)
        case([], envb, [[TDIAG, [t2], [t3], [m], [0]], [TBUBBLE, func, 0]], main=1, mode=1)
    case([], env, [[TDIAG, [t2], [t3], [m], [0]], [TSUM, [0, 0, 0], [t2], [t3]]], mode=1)
    return out


# ---------------------------------------------------------------------- numpy.tensordot with axes
def gen_tensordot(rng, n):
    reqs = []
    for _ in range(n):
        ra, rb = rng.randint(0, 4), rng.randint(0, 4)
        sa = [rng.choice([1, 2, 2, 3]) for _ in range(ra)]
        k = rng.randint(0, min(ra, rb))
        axa = rng.sample(range(ra), k)
        sb = [rng.choice([1, 2, 2, 3]) for _ in range(rb)]
        axb = rng.sample(range(rb), k)
        r = rng.random()
        if r < 0.75:
            for i, j in zip(axa, axb):
                sb[j] = sa[i]
        elif r < 0.8 and k:
            axa[rng.randrange(k)] = rng.choice(axa)           # repeated axis
        elif r < 0.85:
            axa = axa + [rng.randint(0, ra + 1)]              # length mismatch
        elif r < 0.9 and k:
            axa[0] = ra + rng.randint(0, 1)                   # out of range
            if k > 1 or True:
                pass
        a = [sa, [[rng.randint(-2, 3), rng.randint(-1, 1) if rng.random() < 0.3 else 0] for _ in range(prod(sa))]]
        b = [sb, [[rng.randint(-2, 3), 0] for _ in range(prod(sb))]]
        reqs.append([20, a, b, axa, axb])
    return reqs


def tensordot_reachable(q):
    """numpy checks the contracted axes pair by pair (IndexError as soon as one is out of
    range, ValueError at the first mismatch); the model checks all ranges first.  The two
    orders can only differ when both defects are present, which tensor.py never produces."""
    _, a, b, axa, axb = q
    if len(axa) != len(axb):
        return True
    bad_range = any(i >= len(a[0]) for i in axa) or any(j >= len(b[0]) for j in axb)
    if not bad_range:
        return True
    mism = any(i < len(a[0]) and j < len(b[0]) and a[0][i] != b[0][j] for i, j in zip(axa, axb))
    return not mism


# ====================================================================== model runs
def case_cost(case):
    return max(1, case.get("peak", 1)) ** 2


def run_model_balanced(programs, costs):
    if not programs:
        return []
    order = sorted(range(len(programs)), key=lambda i: -costs[i])
    jobs = min(JOBS, len(programs))
    buckets = [[] for _ in range(jobs)]
    loads = [0] * jobs
    for i in order:
        k = loads.index(min(loads))
        buckets[k].append(i)
        loads[k] += costs[i] + 1000
    from concurrent.futures import ThreadPoolExecutor
    with ThreadPoolExecutor(jobs) as ex:
        parts = list(ex.map(lambda idx: common.run_model("tfun", [programs[i] for i in idx]), buckets))
    out = [None] * len(programs)
    for idx, ans in zip(buckets, parts):
        for i, a in zip(idx, ans):
            out[i] = a
    return out


# ====================================================================== the check
def map_stream(rep, rng, count):
    """Oracle-only stream on the real objects: bubbles / Tensor.map with Python functions whose
    return TYPE depends on the entry (int for some entries, float, Fraction or complex for others):
    the tensor of a bubble is the function applied entry by entry to the tensor of its inside,
    whatever the order of the entries."""
    import numpy
    from fractions import Fraction
    from discopy import tensor
    from discopy.tensor import Dim, Tensor
    funcs = [("x / 2 if x else 0", lambda x: x / 2 if x else 0),
             ("0 if x < 2 else x + 0.5", lambda x: 0 if x < 2 else x + 0.5),
             ("x if x % 2 == 0 else x * 1j", lambda x: x if x % 2 == 0 else x * 1j),
             ("Fraction(x, 3) if x else 0", lambda x: Fraction(int(x), 3) if x else 0),
             ("int(not x)", lambda x: int(not x)),
             ("x ** 2 + 1", lambda x: x ** 2 + 1)]
    bad = 0
    for k in range(count):
        dom = [rng.choice([2, 3]) for _ in range(rng.randint(0, 1))]
        cod = [rng.choice([2, 3]) for _ in range(rng.randint(1, 2))]
        size = int(numpy.prod(dom or [1])) * int(numpy.prod(cod))
        entries = [rng.randint(0, 4) for _ in range(size)]
        if k % 3 == 0:
            entries[0] = 0                      # the first entry decides what numpy.vectorize would infer
        name, fn = funcs[k % len(funcs)]
        rep.count("stream:map")
        what = None
        try:
            want = [fn(x) for x in entries]
            t = Tensor(Dim(*dom), Dim(*cod), entries)
            got = list(numpy.asarray(t.map(fn).array, dtype=object).flatten())
            if len(got) != len(want) or any(complex(a) != complex(b) for a, b in zip(got, want)):
                what = "Tensor.map(%s) on %r gives %r, entry-wise application gives %r" % (name, entries, got, want)
            else:
                box = tensor.Box("b", Dim(*dom), Dim(*cod), entries)
                ev = box.bubble(func=fn).eval()
                got2 = list(numpy.asarray(ev.array, dtype=object).flatten())
                if len(got2) != len(want) or any(complex(a) != complex(b) for a, b in zip(got2, want)):
                    what = "bubble(func=%s).eval() on %r gives %r, entry-wise application gives %r" % (
                        name, entries, got2, want)
        except Exception as exc:   # noqa
            what = "Tensor.map / bubble with %s raised %s: %s" % (name, type(exc).__name__, exc)
        if what:
            bad += 1
            rep.count("oracle:map:FAIL")
            if bad <= 3:
                rep.violation(what, {"dom": dom, "cod": cod, "entries": entries, "func": name})
        else:
            rep.count("oracle:map:pass")


def run(tier, seed):
    import tfun_impl as tf
    import tensor_impl as ti
    monoidal, InterchangerError = tf.monoidal, tf.InterchangerError
    rep = Report("C09", tier, seed)
    if os.environ.get("VERIF_C09_SKIP_PROOF", "") == "1":
        proof_ok = True
        rep.notes.append("proof stage SKIPPED (VERIF_C09_SKIP_PROOF=1): test run of the Python side only")
    else:
        proof_ok = common.proof_stage(rep, "C09")
    rng = random.Random(seed * 9 + 9)
    quick = tier == "quick"
    replay_repo = common.REPO

    # ---------------------------------------------------------------- generation
    # cases whose estimated cost for the unary-nat model exceeds the cap are oracle-only
    costcap = float(os.environ.get("VERIF_C09_MODEL_COSTCAP", "") or (2e6 if quick else 2e6))
    cases = [("corpus", c) for c in corpus()]
    gen_small = Gen(rng, 400)
    gen_big = Gen(rng, 10000)
    n_random = 1100 if quick else 20000
    for i in range(n_random):
        g = gen_big if i % 10 == 9 else gen_small
        if rng.random() < 0.15:
            kind, c = g.malformed()
            cases.append(("malformed:" + kind, c))
        else:
            cases.append(("random", g.case(0 if rng.random() < 0.6 else 1)))
    seen, uniq = set(), []
    for name, c in cases:
        key = common.to_sexp(c["prog"]) + repr(sorted(c["style"].items()))
        if key not in seen:
            seen.add(key)
            uniq.append((name, c))
    cases = uniq
    nreqs = gen_tensordot(rng, 500 if quick else 5000)
    nreqs = [q for q in nreqs if tensordot_reachable(q)]

    # ---------------------------------------------------------------- implementation
    impl, values = [], []
    for _, c in cases:
        out, v = tf.observe_value(c)
        impl.append(out)
        values.append(v)
    nimpl = [tf.numpy_observe(q) for q in nreqs]

    # ---------------------------------------------------------------- model
    sendable = [i for i, (_, c) in enumerate(cases) if case_cost(c) <= costcap]
    programs = nreqs + [tf.request(cases[i][1]) for i in sendable]
    costs = [prod(q[1][0]) * prod(q[2][0]) for q in nreqs] + [case_cost(cases[i][1]) for i in sendable]
    answers = run_model_balanced(programs, costs)
    nmodel = answers[:len(nreqs)]
    model = [None] * len(cases)
    for i, a in zip(sendable, answers[len(nreqs):]):
        model[i] = a
    rep.programs = len(programs)

    def record(what, payload):
        if sum(1 for _ in rep.violations) < MAX_RECORDED:
            rep.violation(what, payload)
        else:
            rep.count("oracle-failures-not-recorded")

    # ---------------------------------------------------------------- numpy suite
    for q, a, b in zip(nreqs, nimpl, nmodel):
        rep.count("numpy:tensordot-axes")
        rep.count("numpy-outcome:" + ("value" if a[0] == 0 else tf.err_name(a[1])))
        rep.disagreements_checked += 1
        rep.case(["numpy", q], nontrivial=True)
        if freeze(a) != freeze(b):
            rep.extra.setdefault("disagreements", []).append(
                {"family": "corr:numpy_model:tensordot_axes", "class": "numpy", "case": q,
                 "impl": a, "model": b})

    # ---------------------------------------------------------------- cases
    orng = random.Random(seed + 99)
    for (name, c), out, v, mod in zip(cases, impl, values, model):
        prog = c["prog"]
        mode, obs, env, terms, main = prog
        rep.count("stream:" + name.split(":")[0])
        if name.startswith("malformed:"):
            rep.count(name)
        rep.count("mode:" + ("eval" if mode else "functor"))
        rep.count("outcome:" + ("value" if out[0] == 0 else tf.err_name(out[1])))
        mt = terms[main]
        rep.count("main:" + ["diagram", "box", "bubble", "sum"][mt[0]])
        kinds = set()
        for t in terms:
            if t[0] == TDIAG:
                rep.count("boxes:%d" % min(len(t[3]), 8))
                for b in t[3]:
                    d = None
                    for k, dd in env:
                        if freeze(k) == freeze(b):
                            d = dd
                    kinds.add(["box", "swap", "cup", "cap"][b[0]] if b[0] or not b[4] else "dagger")
                    if d is not None and d[0] != DLIT:
                        kinds.add(["", "spider", "bubble-box"][d[0]])
            kinds.add(["", "", "bubble", "sum"][t[0]])
        for k in kinds - {""}:
            rep.count("uses:" + k)
        if mode == 0:
            rep.count("style:ob-%s,ar-%s" % ("callable" if c["style"].get("call_ob") else "dict",
                                              "callable" if c["style"].get("call_ar") else "dict"))
            if c["style"].get("int_obs"):
                rep.count("style:some-int-objects")
            if any(len(norm(img)) == 0 for _, img in obs):
                rep.count("style:some-empty-image")
            if any(len(norm(img)) >= 2 for _, img in obs):
                rep.count("style:some-composite-image")
        entries = len(out[1][2][1]) if out[0] == 0 else 0
        rep.count("result-entries:" + ("0" if not entries else "<=%d" % (4 ** len("%d" % entries))))
        rep.case([prog, sorted(c["style"].items())], nontrivial=(out[0] == 1 or entries >= 2),
                 sample={"case": c, "impl": out if entries <= 16 else "value with %d entries" % entries}
                 if name == "random" and rep.evaluations % 97 == 0 else None)
        payload = {"case": c, "impl": out if entries <= 64 else "value with %d entries" % entries,
                   "replay": tf.snippet({"prog": prog, "style": c["style"]}, replay_repo)}

        # ---- correspondence
        agree = None
        if mod is None:
            rep.count("skipped:model-cost")
        elif mod[0] == 1 and mod[1] in (7, 8):
            rep.count("skipped:model-fuel-or-decode")
            if mod[1] == 8:
                raise RuntimeError("model could not decode %r" % (prog,))
        else:
            rep.disagreements_checked += 1
            agree = freeze(out) == freeze(mod)

        # ---- oracles (1), (2): what the case should evaluate to
        failures = []
        if name.startswith("malformed:"):
            expected = None
        else:
            sem = Sem(prog)
            expected = {}
            for how in ("layers", "einsum"):
                try:
                    expected[how] = [0, canon_sem(ti, sem.term(main, how))]
                except TooManyLabels:
                    rep.count("oracle:einsum-skipped-too-many-labels")
                except ti.NonInteger:
                    rep.count("oracle:non-integer")
            for how, exp in expected.items():
                rep.count("oracle:" + how)
                if freeze(exp) != freeze(out):
                    failures.append("evaluation differs from the %s" % (
                        "layer-by-layer composite of Tensor.id(F left) @ F(box) @ Tensor.id(F right)"
                        if how == "layers" else "independent numpy.einsum contraction"))
        if failures:
            record(failures[0], payload)
        elif agree is False:
            rep.extra.setdefault("disagreements", []).append(
                {"family": "corr:tfun", "class": "tensor.Functor", "case": c, "impl": out, "model": mod})
        if agree is False and failures:
            rep.extra.setdefault("disagreements", []).append(
                {"family": "corr:tfun", "class": "tensor.Functor", "case": c, "impl": out, "model": mod})

        # ---- oracle (3): interchange and normal form leave the evaluation unchanged
        if out[0] == 0 and mt[0] == TDIAG and not failures and len(mt[3]) >= 2:
            try:
                build = tf.Build(prog, c["style"])
                d = build.term(main)
                F = build.functor() if mode == 0 else build.identity_functor()
                variants = []
                idx = list(range(len(d.boxes) - 1))
                orng.shuffle(idx)
                for i in idx[:3]:
                    try:
                        variants.append(("interchange(%d, %d)" % (i, i + 1), d.interchange(i, i + 1)))
                        break
                    except InterchangerError:
                        continue
                try:
                    nf = common.with_timeout(5.0, lambda: monoidal.Diagram.normal_form(d))
                    if nf != d:
                        variants.append(("normal_form()", nf))
                except Exception:   # noqa: NotImplementedError (disconnected), timeouts
                    rep.count("oracle:normal-form-unavailable")
                for what, d2 in variants:
                    rep.count("oracle:" + what.split("(")[0])
                    r2 = common.with_timeout(20.0, F, d2)
                    if freeze([0, tf.canon_result(r2)]) != freeze(out):
                        record("evaluation changes under %s" % what, payload)
            except AssertionError:
                raise
            except Exception as exc:   # noqa
                record("evaluating an interchanged / normalised diagram raised %s" % type(exc).__name__, payload)

        # ---- oracle (4): eval() is the identity-on-arrays functor
        if mode == 1 and out[0] == 0:
            try:
                build = tf.Build(prog, c["style"])
                m = build.term(main)
                a = m.eval()
                b = build.identity_functor()(m)
                rep.count("oracle:eval-vs-identity-functor")
                if mt[0] == TSUM and not mt[1]:
                    if a != 0:
                        record("eval() of an empty sum is not 0", payload)
                elif freeze(tf.canon_result(a)) != freeze(tf.canon_result(b)) or freeze(tf.canon_result(a)) != freeze(out[1]):
                    record("eval() differs from the identity-on-arrays functor", payload)
            except AssertionError:
                raise
            except Exception as exc:   # noqa
                record("eval() / identity functor raised %s" % type(exc).__name__, payload)

    for key, n in tf.COUNTS["other_exception"].items():
        rep.count("impl:exception:" + key, n)
    if tf.COUNTS["non_integer"]:
        rep.count("impl:non_integer", tf.COUNTS["non_integer"])
    if tf.COUNTS["timeout"]:
        rep.count("impl:timeout", tf.COUNTS["timeout"])

    map_stream(rep, random.Random(seed + 909), 60 if tier == "quick" else 1000)
    # ---------------------------------------------------------------- settle
    found = any(f for _, _, f in rep.violations)
    dis = rep.extra.get("disagreements", [])
    if dis and not found:
        first = dis[0]
        rep.violation(
            "correspondence %s no longer checks: implementation and model differ on %d case(s); "
            "no input violating the property itself was found" % (first["family"], len(dis)),
            {"broken": first["family"], "first_disagreement": first, "n_disagreements": len(dis),
             "replay": tf.snippet(first["case"], replay_repo)},
            found_input=False)
    if not proof_ok and not found:
        rep.violation("theorems of coq/Props/C09.v no longer check",
                      {"broken": "coq/Props/C09.v", "notes": rep.notes}, found_input=False)
    rep.extra["n_disagreements"] = len(dis)
    if len(dis) > 20:
        rep.extra["disagreements"] = dis[:20]

    trusted = [t for t in base.TRUSTED_CORE]
    trusted[1] = trusted[1].replace(
        "coq/Core/*.v", "coq/TFun/TFun.v (on coq/Tensor/NumpyModel.v, coq/Tensor/Tensor.v, coq/Core/Diagram.v)")
    trusted += [
        "numpy primitives are modelled, not verified (reshape, moveaxis, transpose, identity, conjugate, "
        "tensordot: compared with the installed numpy by the C08 run; tensordot with axes lists: by this run)",
        "oracles: Tensor.then / tensor / id of the implementation (layer composite), numpy.einsum "
        "(optimize='greedy'), numpy.ndindex-built swap / cup / spider arrays",
    ]
    return rep.finish(
        rule="hand-written corpus (former F5 minimal input first; boxes, daggers, scalars, empty / Dim(1) / composite "
             "images, swaps, cups, caps, spiders, bubbles, sums, single boxes), then %d random cases: rigid "
             "diagrams grown forwards (0..6 boxes: boxes, daggered boxes, swaps, cups, caps, windings -2..2) "
             "under random interpretations (images from %s as ints or Dims, dict or callable), and tensor "
             "diagrams (dims 2, 3, 4; spiders, bubbles with func in {not, square, +1}, sums) under eval(); "
             "about 15 %% malformed (wrong array sizes, missing box / object keys, non-positive ints); "
             "peak array size <= 400 entries (every tenth case <= 10^4, oracle-only when the unary-nat model "
             "would be too slow); non-trivial = result with at least two entries or a refusal; distinct by "
             "(program, style)" % (n_random, sorted(set(map(tuple, IMAGES)))),
        trusted_base=trusted,
        assumptions=[
            "data restricted to (Gaussian) integers; floating point rounding out of scope",
            "bubbles / sums used as boxes have the domain and codomain of their inside (the default)",
            "a top-level Sum in eval mode is evaluated through the identity-on-arrays functor (Sum.eval "
            "starts Python's sum() from the int 0; oracle (4) compares the two on non-empty sums)",
            "numpy.tensordot((axes_a, axes_b)) requests with both an out-of-range axis and a shape mismatch "
            "are not generated (numpy checks pair by pair; unreachable from tensor.py)",
        ],
        checker_cmd="make -C coq Props/C09.vo  (coqc 8.16.1, Print Assumptions parsed)")
