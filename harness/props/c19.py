"""C19 -- cartesian diagrams compute the function they draw."""
import itertools
import json
import random

import common
from common import Report, run_model_parallel, freeze
from props import base

FAMILY = "corr:cart:call"
MAX_RECORDED = 20      # replay files written per run; further oracle failures are only counted
BIG = 1 << 60          # runner/main.ml carries wire integers in 62 bits


def snippet(program):
    return ("cd /verif/harness && PYTHONPATH=/repo /venv/bin/python -B -c \"import cart_impl as ci; "
            "ci.replay(%s)\"" % json.dumps(program))


# ------------------------------------------------------------------ generators
def values(rng, n, lo=-9, hi=9):
    return [rng.randint(lo, hi) for _ in range(n)]


def layer_prog(ci, left, i, right):
    """Id(left) @ box_i @ Id(right) through the public operators."""
    return [ci.TENSOR, [ci.TENSOR, [ci.ID, left], [ci.BOX, i]], [ci.ID, right]]


def layers_to_prog(ci, rng, dom, layers, style):
    """A list of (box id, offset) over domain width dom as a diagram program:
    style 0 = raw constructor, 1 = composition of whiskered boxes."""
    width, widths = dom, []
    for i, off in layers:
        widths.append(width)
        width = width - ci.DOM[i] + ci.COD[i]
    if style == 0:
        return [ci.MK, dom, width, [i for i, _ in layers], [o for _, o in layers]], width
    prog = [ci.ID, dom]
    for (i, off), w in zip(layers, widths):
        prog = [ci.THEN, prog, layer_prog(ci, off, i, w - off - ci.DOM[i])]
    return prog, width


def gen_layers(ci, rng, pool, dom, depth, maxw=7):
    layers, width = [], dom
    for _ in range(depth):
        fits = [i for i in pool if ci.DOM[i] <= width and width - ci.DOM[i] + ci.COD[i] <= maxw]
        if not fits:
            break
        i = rng.choice(fits)
        off = rng.randint(0, width - ci.DOM[i])
        layers.append((i, off))
        width = width - ci.DOM[i] + ci.COD[i]
    return layers


def gen_tree(ci, rng, pool, dom, depth, maxw=7):
    """Random well-typed diagram program of domain width dom -> (program, cod)."""
    if depth <= 0 or rng.random() < 0.2:
        opts = [("id",), ("discard",)]
        opts += [("box", i) for i in pool if ci.DOM[i] == dom] * 2
        opts += [("swap", l) for l in range(dom + 1)] if dom <= 6 else []
        if dom <= 3:
            opts.append(("copy",))
        fits = [i for i in pool if ci.DOM[i] <= dom]
        if fits:
            opts += [("layer",)] * 3
        o = rng.choice(opts)
        if o[0] == "id":
            return [ci.ID, dom], dom
        if o[0] == "discard":
            return [ci.DISCARD, dom], 0
        if o[0] == "box":
            return [ci.BOX, o[1]], ci.COD[o[1]]
        if o[0] == "swap":
            return [ci.SWAP, o[1], dom - o[1]], dom
        if o[0] == "copy":
            return [ci.COPY, dom], 2 * dom
        i = rng.choice(fits)
        off = rng.randint(0, dom - ci.DOM[i])
        return layers_to_prog(ci, rng, dom, [(i, off)], rng.randint(0, 1))
    if rng.random() < 0.55:
        a, mid = gen_tree(ci, rng, pool, dom, depth - 1, maxw)
        if mid > maxw:
            keep = rng.randint(0, maxw)
            a, mid = [ci.THEN, a, [ci.TENSOR, [ci.ID, keep], [ci.DISCARD, mid - keep]]], keep
        b, cod = gen_tree(ci, rng, pool, mid, depth - 1, maxw)
        return [ci.THEN, a, b], cod
    d1 = rng.randint(0, dom)
    a, c1 = gen_tree(ci, rng, pool, d1, depth - 1, maxw)
    b, c2 = gen_tree(ci, rng, pool, dom - d1, depth - 1, maxw)
    return [ci.TENSOR, a, b], c1 + c2


def gen_ftree(ci, rng, pool, dom, depth):
    """Random Function-level program of domain width dom -> (program, cod)."""
    if depth <= 0 or rng.random() < 0.25:
        fits = [i for i in pool if ci.DOM[i] == dom]
        if fits and rng.random() < 0.75:
            i = rng.choice(fits)
            return [ci.FLIB, i], ci.COD[i]
        return [ci.FID, dom], dom
    if rng.random() < 0.5:
        a, mid = gen_ftree(ci, rng, pool, dom, depth - 1)
        b, cod = gen_ftree(ci, rng, pool, mid, depth - 1)
        return [ci.FTHEN, a, b], cod
    d1 = rng.randint(0, dom)
    a, c1 = gen_ftree(ci, rng, pool, d1, depth - 1)
    b, c2 = gen_ftree(ci, rng, pool, dom - d1, depth - 1)
    return [ci.FTENSOR, a, b], c1 + c2


def build_cases(ci, tier, rng):
    """List of (program, meta).  meta['kind'] selects the oracle."""
    quick = tier == "quick"
    cases = []

    def call(dp, vals, kind="call", **kw):
        cases.append(([ci.CALL, dp, list(vals)], dict(kind=kind, **kw)))

    # ---- corpus: hand-written edge cases (1-tuple convention, arity 0, docstrings)
    corpus = [
        ([ci.ID, 0], []), ([ci.ID, 1], [5]), ([ci.ID, 2], [1, 2]),
        ([ci.BOX, 6], []), ([ci.BOX, 7], []), ([ci.BOX, 8], []), ([ci.BOX, 16], [4]),
        ([ci.TENSOR, [ci.BOX, 7], [ci.BOX, 6]], []),
        ([ci.THEN, [ci.BOX, 7], [ci.BOX, 0]], []),
        ([ci.TENSOR, [ci.BOX, 8], [ci.BOX, 8]], []),
        ([ci.MK, 1, 1, [8], [1]], [3]), ([ci.MK, 1, 1, [8], [0]], [3]),
        ([ci.MK, 2, 3, [6], [1]], [1, 2]), ([ci.MK, 2, 4, [15], [2]], [1, 2]),
        ([ci.THEN, [ci.TENSOR, [ci.BOX, 0], [ci.BOX, 0]],
          [ci.TENSOR, [ci.TENSOR, [ci.ID, 1], [ci.BOX, 1]], [ci.ID, 1]]], [1, 2]),
        ([ci.THEN, [ci.BOX, 1], [ci.THEN, [ci.BOX, 3], [ci.BOX, 0]]], [3, 4]),
        ([ci.SWAP, 2, 3], [0, 1, 2, 3, 4]), ([ci.COPY, 3], [0, 1, 2]),
        ([ci.DISCARD, 3], [0, 1, 2]), ([ci.DISCARD, 1], [4]), ([ci.COPY, 1], [3]),
        ([ci.COPY, 0], []), ([ci.SWAP, 0, 0], []), ([ci.SWAP, 0, 2], [1, 2]),
        ([ci.SWAP, 1, 0], [4]), ([ci.DISCARD, 0], []),
        ([ci.THEN, [ci.COPY, 4], [ci.SWAP, 4, 4]], [42, 43, 44, 45]),
        ([ci.THEN, [ci.BOX, 20], [ci.BOX, 5]], [-1]),
        ([ci.TENSOR, [ci.BOX, 20], [ci.BOX, 20]], [-1, -2]),
    ]
    for dp, vals in corpus:
        call(dp, vals, "call", stream="corpus")
        cases.append(([ci.DESCRIBE, dp], dict(kind="describe", stream="corpus")))

    # ---- Swap / Copy / Discard as a whole, every width in scope
    ws = 5 if quick else 7
    for l in range(ws + 1):
        for r in range(ws + 1):
            cases.append(([ci.DESCRIBE, [ci.SWAP, l, r]], dict(kind="describe", stream="whole")))
            for _ in range(2):
                call([ci.SWAP, l, r], values(rng, l + r, -99, 99), "swap", l=l, r=r, stream="whole")
    for n in range((6 if quick else 9) + 1):
        cases.append(([ci.DESCRIBE, [ci.COPY, n]], dict(kind="describe", stream="whole")))
        cases.append(([ci.DESCRIBE, [ci.DISCARD, n]], dict(kind="describe", stream="whole")))
        for _ in range(3):
            call([ci.COPY, n], values(rng, n, -99, 99), "copy", n=n, stream="whole")
            call([ci.DISCARD, n], values(rng, n, -99, 99), "discard", n=n, stream="whole")

    # ---- exhaustive small scope: every diagram of <= 2 (thorough: 3 over a smaller
    # pool) honest boxes over domain widths 0..3, every in-range offset
    def all_layers(pool, dom, nboxes):
        if nboxes == 0:
            yield []
            return
        for i in pool:
            for off in range(dom - ci.DOM[i] + 1):
                for rest in all_layers(pool, dom - ci.DOM[i] + ci.COD[i], nboxes - 1):
                    yield [(i, off)] + rest
    pool2 = [0, 1, 2, 3, 5, 6, 7, 8, 9, 10, 11, 15, 16, 19, 20] if quick else ci.HONEST
    pool3 = [0, 1, 2, 3, 6, 8, 10] if not quick else []
    scope = []
    for dom in range(4):
        scope += [(dom, ls) for ls in all_layers(ci.HONEST, dom, 1)]
        scope += [(dom, ls) for ls in all_layers(pool2, dom, 2)]
        scope += [(dom, ls) for ls in all_layers(pool3, dom, 3)] if pool3 else []
    for n, (dom, ls) in enumerate(scope):
        dp, _ = layers_to_prog(ci, rng, dom, ls, n % 2)
        call(dp, [3, -2, 5][:dom], "call", stream="exhaustive", boxes=len(ls))
        if len(ls) == 1:
            call(dp, values(rng, dom), "call", stream="exhaustive", boxes=1)

    # ---- structured random: layered diagrams and then/tensor trees
    for _ in range(1500 if quick else 12000):
        dom = rng.randint(0, 5)
        ls = gen_layers(ci, rng, ci.HONEST, dom, rng.randint(1, 9))
        dp, _ = layers_to_prog(ci, rng, dom, ls, rng.randint(0, 1))
        call(dp, values(rng, dom), "call", stream="random-layers", boxes=len(ls))
    for _ in range(1500 if quick else 12000):
        dom = rng.randint(0, 5)
        dp, _ = gen_tree(ci, rng, ci.HONEST, dom, rng.randint(1, 4))
        call(dp, values(rng, dom), "call", stream="random-tree")
        if rng.random() < 0.2:
            cases.append(([ci.DESCRIBE, dp], dict(kind="describe", stream="random-tree")))

    # ---- cartesian axioms: naturality of swap, copy, discard on generated inputs
    for _ in range(400 if quick else 3000):
        a, c = rng.randint(0, 3), rng.randint(0, 3)
        f, b = gen_tree(ci, rng, ci.TOTAL, a, rng.randint(0, 3), 4)
        g, d = gen_tree(ci, rng, ci.TOTAL, c, rng.randint(0, 3), 4)
        vals = values(rng, a + c)
        lhs = [ci.THEN, [ci.TENSOR, f, g], [ci.SWAP, b, d]]
        rhs = [ci.THEN, [ci.SWAP, a, c], [ci.TENSOR, g, f]]
        call(lhs, vals, "natural", other=rhs, axiom="swap", stream="axioms")
        call(rhs, vals, "call", stream="axioms")
        pool = ci.HONEST if rng.random() < 0.3 else ci.TOTAL
        f, b = gen_tree(ci, rng, pool, a, rng.randint(0, 3), 4)
        vals = values(rng, a)
        lhs = [ci.THEN, f, [ci.COPY, b]]
        rhs = [ci.THEN, [ci.COPY, a], [ci.TENSOR, f, f]]
        call(lhs, vals, "natural", other=rhs, axiom="copy", stream="axioms")
        call(rhs, vals, "call", stream="axioms")
        f, b = gen_tree(ci, rng, ci.TOTAL, a, rng.randint(0, 3), 4)
        lhs = [ci.THEN, f, [ci.DISCARD, b]]
        rhs = [ci.DISCARD, a]
        call(lhs, vals, "natural", other=rhs, axiom="discard", stream="axioms")

    # ---- Function level: then / tensor / id / __call__ used directly
    fpool = [i for i in range(len(ci.LIB_SPEC)) if ci.FUNCS[i] is not None]
    for _ in range(600 if quick else 4000):
        dom = rng.randint(0, 4)
        pool = ci.HONEST if rng.random() < 0.8 else fpool
        fp, _ = gen_ftree(ci, rng, pool, dom, rng.randint(0, 4))
        n = dom if rng.random() < 0.85 else rng.randint(0, 5)
        cases.append(([ci.FCALL, fp, values(rng, n)], dict(kind="fcall", stream="function")))
    for _ in range(60 if quick else 400):     # non-composable Function.then
        a, _ = gen_ftree(ci, rng, ci.HONEST, rng.randint(0, 3), 1)
        b, _ = gen_ftree(ci, rng, ci.HONEST, rng.randint(0, 3), 1)
        cases.append(([ci.FCALL, [ci.FTHEN, a, b], values(rng, rng.randint(0, 3))],
                      dict(kind="fcall", stream="malformed")))

    # ---- malformed stream (~15 %)
    nmal = len(cases) * 15 // 85
    allids = list(range(len(ci.LIB_SPEC)))
    for n in range(nmal):
        k = n % 6
        dom = rng.randint(0, 4)
        if k == 0:      # wrong number of inputs
            dp, _ = gen_tree(ci, rng, ci.HONEST, dom, rng.randint(0, 3))
            m = rng.choice([x for x in (dom - 1, dom + 1, dom + 2, 0) if x >= 0 and x != dom])
            call(dp, values(rng, m), "call", stream="malformed")
        elif k == 1:    # raw constructor with a perturbed offset / codomain / length
            ls = gen_layers(ci, rng, ci.HONEST, dom, rng.randint(1, 4))
            dp, cod = layers_to_prog(ci, rng, dom, ls, 0)
            what = rng.randint(0, 3)
            if what == 0 and dp[4]:
                j = rng.randrange(len(dp[4]))
                dp[4][j] += rng.choice([-3, -2, -1, 1, 2, 3])
            elif what == 1:
                dp[2] = max(0, cod + rng.choice([-1, 1]))
            elif what == 2:
                dp[4] = dp[4] + [0] if rng.random() < 0.5 else dp[4][:-1]
            else:
                dp[1] = max(0, dom + rng.choice([-1, 1]))
            call(dp, values(rng, dp[1]), "call", stream="malformed")
        elif k == 2:    # non-composable then
            a, mid = gen_tree(ci, rng, ci.HONEST, dom, 2)
            b, _ = gen_tree(ci, rng, ci.HONEST, mid + rng.choice([1, 2]) if rng.random() < 0.7
                            else max(0, mid - 1), 2)
            call([ci.THEN, a, b], values(rng, dom), "call", stream="malformed")
        elif k == 3:    # dishonest / function-less boxes inside diagrams
            ls = gen_layers(ci, rng, allids, dom, rng.randint(1, 5))
            dp, _ = layers_to_prog(ci, rng, dom, ls, rng.randint(0, 1))
            call(dp, values(rng, dom), "call", stream="malformed")
        elif k == 4:    # bare dishonest boxes and small trees over the whole library
            dp, _ = gen_tree(ci, rng, allids, dom, rng.randint(0, 2))
            call(dp, values(rng, dom), "call", stream="malformed")
        else:           # partial box on negative inputs: the box's exception propagates
            ls = gen_layers(ci, rng, [20, 20, 5, 3, 0, 1, 16], dom, rng.randint(1, 5))
            dp, _ = layers_to_prog(ci, rng, dom, ls, rng.randint(0, 1))
            call(dp, values(rng, dom, -9, 2), "call", stream="malformed")
    return cases


# ------------------------------------------------------------------ oracles
def oracle(ci, prog, meta, runs):
    """Direct statements of C19 on the implementation; None or a message.
    runs maps the wire form of a Call program to (diagram, raw outcome)."""
    kind = meta["kind"]
    if kind in ("describe", "fcall"):
        return None
    dp, vals = prog[1], prog[2]
    d, raw = runs[common.to_sexp(prog)]
    bad = ci.oracle_call(dp, vals, d, raw)
    if bad:
        return bad
    got = ci.plain(raw)
    if kind == "swap":
        want = ("ok", tuple(vals[meta["l"]:] + vals[:meta["l"]]))
        if got != want:
            return "Swap(%d, %d) gives %r instead of %r" % (meta["l"], meta["r"], got, want)
    elif kind == "copy":
        want = ("ok", tuple(vals + vals))
        if got != want:
            return "Copy(%d) gives %r instead of %r" % (meta["n"], got, want)
    elif kind == "discard":
        if got != ("ok", ()):
            return "Discard(%d) gives %r instead of ()" % (meta["n"], got)
    elif kind == "natural":
        key = common.to_sexp([ci.CALL, meta["other"], vals])
        if key not in runs:
            runs[key] = ci.run_call(meta["other"], vals)
        other = ci.plain(runs[key][1])
        if got != other:
            return "naturality of %s fails: %r on one side, %r on the other" % (
                meta["axiom"], got, other)
        if meta["axiom"] == "discard" and got != ("ok", ()):
            return "discarding all outputs gives %r instead of ()" % (got,)
    return None


def differential(rep, ci, cases):
    progs = [p for p, _ in cases]
    runs, impl = {}, []
    for p in progs:
        if p[0] == ci.CALL:
            key = common.to_sexp(p)
            if key not in runs:
                runs[key] = ci.run_call(p[1], p[2])
            impl.append(ci.canon_outcome(runs[key][1]))
        else:
            impl.append(ci.observe(p))
    mod = run_model_parallel("cart", progs)
    out = []
    for (p, meta), a, b in zip(cases, impl, mod):
        if b[0] == 2 or (b[0] == 1 and b[1] in (7, 8)):
            raise RuntimeError("model could not run %r: %r" % (p, b))
        if a[0] == 0 and a[1][0] in (0, 1):
            flat = [a[1][1]] if a[1][0] == 0 else a[1][1]
            if any(abs(x) >= BIG for x in flat):
                rep.count("skipped:result-exceeds-62-bits")
                continue
        rep.count("outcome:" + ("value" if a[0] == 0 else "err%d" % a[1]))
        rep.disagreements_checked += 1
        if freeze(a) != freeze(b):
            rep.extra.setdefault("disagreements", []).append(
                {"family": FAMILY, "class": "cartesian", "program": p, "impl": a, "model": b})
        out.append((p, meta, a, b))
    return out, runs


def opaque_stream(rep, rng, n_cases):
    """Oracle-only stream: wires carrying arbitrary Python values (lists, strings, None,
    dicts) through diagrams of structural boxes and value-agnostic functions; the result
    must be what the independent list-splicing evaluator computes.  (Tuples on a single
    wire are excluded: they are ambiguous under the 1-tuple convention, see notes/C19.md.)"""
    from discopy.cartesian import Box, Id, Swap, Copy, Discard
    import cart_impl as ci
    pool_vals = [[1, 2], [], "ab", None, {"k": 1}, [[3]], 7, [0], "", [None, "x"]]
    lib = [Box("ident", 1, 1, lambda a: a), Box("dup", 1, 2, lambda a: (a, a)),
           Box("flip", 2, 2, lambda a, b: (b, a)), Box("first", 2, 1, lambda a, b: a),
           Box("pair", 2, 1, lambda a, b: [a, b]), Box("unit", 0, 1, lambda: []),
           Box("drop", 1, 0, lambda a: ()), Box("wrap", 1, 1, lambda a: [a])]
    # one Python function object shared by boxes of different arities (variadic functions, builtins)
    rev, fst, lst = (lambda *xs: tuple(reversed(xs))), (lambda *xs: xs[0]), (lambda *xs: list(xs))
    lib += [Box("rev2", 2, 2, rev), Box("rev3", 3, 3, rev), Box("fst2", 2, 1, fst), Box("fst3", 3, 1, fst),
            Box("fst1", 1, 1, fst), Box("lst1", 1, 1, lst), Box("lst2", 2, 1, lst), Box("lst3", 3, 1, lst),
            Box("len2", 2, 1, lambda *xs: len(xs)), Box("id1", 1, 1, rev)]
    # boxes whose function is itself a cartesian diagram (a callable), with and without boxes inside
    lib += [Box("sub-id2", 2, 2, Id(2)), Box("sub-swap", 2, 2, Swap(1, 1)), Box("sub-copy", 1, 2, Copy(1)),
            Box("sub-id1", 1, 1, Id(1)), Box("sub-dup", 1, 2, Box("dup", 1, 2, lambda a: (a, a))),
            Box("sub-id0", 0, 0, Id(0))]
    bad = []
    for _ in range(n_cases):
        n = rng.randint(0, 4)
        d = Id(n)
        for _ in range(rng.randint(1, 5)):
            w = len(d.cod)
            r = rng.random()
            if r < 0.2 and w >= 2:
                k = rng.randint(1, w - 1)
                layer, off, used = Swap(k, w - k), 0, w
            elif r < 0.35 and w >= 1:
                k = rng.randint(1, w)
                off = rng.randint(0, w - k)
                layer, used = Copy(k), k
            elif r < 0.45 and w >= 1:
                k = rng.randint(1, w)
                off = rng.randint(0, w - k)
                layer, used = Discard(k), k
            else:
                b = rng.choice([x for x in lib if len(x.dom) <= w])
                off = rng.randint(0, w - len(b.dom))
                layer, used = b, len(b.dom)
            d = d >> Id(off) @ layer @ Id(w - off - used)
        vals = tuple(rng.choice(pool_vals) for _ in range(n))
        try:
            shown = repr(d)
            want = ci.splice_eval(d, vals)
        except Exception as exc:   # noqa: a box that cannot be printed or read back is broken
            bad.append(("a cartesian diagram built from boxes with callable functions cannot be read back: %s: %s"
                        % (type(exc).__name__, exc), {"boxes": [str(getattr(b, "name", "?")) for b in d.boxes],
                                                     "inputs": repr(vals)}))
            continue
        rep.case(["opaque", shown, repr(vals)], nontrivial=True)
        rep.count("stream:opaque-values")
        try:
            got = d(*vals)
        except Exception as exc:   # noqa
            got = ("raise", type(exc).__name__)
        else:
            got = ("ok", got if isinstance(got, tuple) and len(d.cod) != 1 else (got,))
        if want[0] == "ok" and len(d.cod) == 1 and isinstance(want[1][0], tuple):
            continue
        if got != want:
            bad.append(("calling a diagram on opaque (non-numeric) wire values differs from feeding them through the "
                        "boxes in order", {"diagram": repr(d), "inputs": repr(vals), "got": repr(got), "want": repr(want)}))
    for what, payload in bad[:MAX_RECORDED]:
        rep.violation(what, payload)


def run(tier, seed):
    import cart_impl as ci
    rep = Report("C19", tier, seed)
    proof_ok = common.proof_stage(rep, "C19")
    rng = random.Random(seed)
    cases = build_cases(ci, tier, rng)
    rep.programs = len(cases)
    results, runs = differential(rep, ci, cases)
    for p, meta, impl, _ in results:
        nontrivial = impl[0] == 1 or len(json.dumps(p[1])) > 12
        rep.case(p, nontrivial=nontrivial,
                 sample={"program": ci.pretty(p), "impl": impl})
        rep.count("stream:" + meta.get("stream", "?"))
        rep.count("kind:" + meta["kind"])
        if p[0] == ci.CALL:
            rep.count("inputs:%d" % len(p[2]))
            ids = ci.dprog_ids(p[1])
            rep.count("boxes:%s" % (len(ids) if len(ids) < 8 else "8+"))
            rep.count("zero-input-boxes:%d" % min(3, sum(1 for i in ids if ci.DOM[i] == 0)))
            rep.count("zero-output-boxes:%d" % min(3, sum(1 for i in ids if ci.COD[i] == 0)))
        bad = oracle(ci, p, meta, runs)
        if bad and len(rep.violations) >= MAX_RECORDED:
            rep.count("violations-beyond-the-first-%d-not-recorded" % MAX_RECORDED)
        elif bad:
            rep.violation(bad, {"program": p, "pretty": ci.pretty(p), "impl": impl,
                                "replay": snippet(p)})
    opaque_stream(rep, random.Random(seed + 19), 300 if tier == "quick" else 6000)
    saved = base.snippet
    base.snippet = lambda cls_name, program: snippet(program)
    try:
        base.settle(rep, "C19", proof_ok, "C19")
    finally:
        base.snippet = saved
    return rep.finish(
        rule="programs over a fixed library of 26 named functions (arities 0..3 in and out, "
             "one-tuple returns, zero-input constants, zero-output sinks, one partial, five "
             "dishonest / function-less for the malformed stream): hand-written corpus; Swap(l, r), "
             "Copy(n), Discard(n) for every width in scope with their box/offset lists; every "
             "diagram of <= 2 honest boxes over domain widths 0..3 at every offset (raw constructor "
             "and whiskered composition alternately); random layered diagrams (depth <= 9, width <= 7) "
             "and random then/tensor trees with Swap/Copy/Discard leaves; both sides of swap / copy / "
             "discard naturality for random diagrams f, g; Function.then/tensor/id/__call__ used "
             "directly; ~15 % malformed (wrong input count, bad offsets / codomain / lengths, "
             "non-composable then, dishonest and function-less boxes, a raising box); inputs are "
             "integers in [-9, 9]; non-trivial = refusal or a program with at least one box or "
             "structural diagram; distinct by program",
        trusted_base=[
            "Coq 8.16.1 kernel (coqc full .vo build; no native_compute; vm_compute only in closed Examples)",
            "hand-written Gallina model coq/Cart/Cartesian.v of discopy/cartesian.py and of the "
            "monoidal.Functor / Diagram constructor code it goes through, tied to /repo only by this "
            "run's correspondence check (differential testing)",
            "the box library is defined twice (lib_table in Cartesian.v, LIB_SPEC in cart_impl.py); "
            "their agreement is itself checked by the correspondence",
            "extraction: ExtrOcamlBasic directives only; no Extract Constant; OCaml 4.13.1; "
            "runner/main.ml (tokenizer, printer, int<->Z, 62-bit wire integers)",
            "Python harness (generators, canonicaliser, splice oracle), CPython 3.12",
        ],
        assumptions=[
            "values on wires are integers; tuple-valued wire contents are not representable under "
            "the 1-tuple convention (API design) and are outside the model",
            "theorems quantify over arbitrary box functions list Z -> res pyval that respect their "
            "declared arities (honest_box); totality is assumed where the axiom needs it "
            "(swap and discard naturality)",
            "diagrams are those the constructor accepts (wf_diagram: offsets in range)",
        ],
        checker_cmd="make -C coq Props/C19.vo  (coqc 8.16.1, Print Assumptions parsed)")
