"""Shared logic of the per-property checks built on the structural model."""
import json
import os
import random

import common
from common import Report, run_model_parallel, freeze

TRUSTED_CORE = [
    "Coq 8.16.1 kernel (coqc full .vo build; no native_compute; vm_compute only in "
    "closed Examples and the thorough cross-check)",
    "hand-written Gallina model coq/Core/*.v of the corresponding DisCoPy code, tied "
    "to /repo only by this run's correspondence check (differential testing)",
    "extraction: ExtrOcamlBasic directives only (bool, option, unit, list, prod, "
    "sumbool, sumor); no Extract Constant; OCaml 4.13.1; runner/main.ml "
    "(tokenizer, printer, int<->Z)",
    "Python harness (generators, canonicaliser, oracles), CPython 3.12",
]


def snippet(cls_name, program):
    return ("cd /verif/harness && PYTHONPATH=/repo /venv/bin/python -B -c \"import core_impl as ci; "
            "print(ci.observe(ci.Cls('%s'), %s))\"" % (cls_name, json.dumps(program)))


def project_public(outcome):
    """dom, cod, boxes, offsets of every diagram in an outcome (what == compares)."""
    if outcome[0] != 0:
        return outcome
    kind, val = outcome[1]
    if kind == 0:
        return [0, [0, val[:4]]]
    return [0, [1, [d[:4] for d in val]]]


def differential(report, ci, cls_name, programs, project=None, model="core",
                 family="corr:core"):
    """Run programs on the implementation (class cls_name) and on the model.
    Returns list of (program, impl_outcome, model_outcome); disagreements are
    recorded in report.disagreements (not yet violations)."""
    cls = ci.Cls(cls_name)
    impl = [ci.observe(cls, p) for p in programs]
    # a watchdog timeout on a loaded machine is not an observation of the library: look again,
    # alone and with a budget twelve times as large, before calling it one
    for k, (p, a) in enumerate(zip(programs, impl)):
        if a == [1, 101]:
            import gc
            gc.collect()
            impl[k] = ci.observe(cls, p, seconds=120.0)
            report.count("timeout-retried:" + ("still-timeout" if impl[k] == [1, 101] else "answered"))
    mod = run_model_parallel(model, programs)
    out = []
    for p, a, b in zip(programs, impl, mod):
        if b[0] == 1 and b[1] in (7, 8):     # model out of fuel / undecodable: no verdict
            report.count("skipped:model-fuel-or-decode")
            if b[1] == 8:
                raise RuntimeError("model could not decode %r" % (p,))
            continue
        pa, pb = (project(a), project(b)) if project else (a, b)
        report.count("outcome:" + ("value" if a[0] == 0 else "err%d" % a[1]))
        report.disagreements_checked += 1
        if freeze(pa) != freeze(pb):
            report.extra.setdefault("disagreements", []).append(
                {"family": family, "class": cls_name, "program": p,
                 "impl": pa, "model": pb})
        out.append((p, a, b))
    return out


def settle(report, prop, proof_ok, proof_file):
    """Turn unexplained correspondence disagreements / a broken proof stage into
    violations (after the oracles had their chance to find a failing input)."""
    found = any(f for _, _, f in report.violations)
    dis = report.extra.get("disagreements", [])
    if dis and not found:
        first = dis[0]
        report.violation(
            "correspondence %s no longer checks: implementation and model differ on %d case(s); "
            "no input violating the property itself was found" % (first["family"], len(dis)),
            {"broken": first["family"], "first_disagreement": first,
             "n_disagreements": len(dis),
             "replay": snippet(first["class"], first["program"])},
            found_input=False)
    if not proof_ok and not found:
        report.violation(
            "theorems of coq/Props/%s.v no longer check" % proof_file,
            {"broken": "coq/Props/%s.v" % proof_file, "notes": report.notes},
            found_input=False)
    report.extra["n_disagreements"] = len(dis)
    if len(dis) > 20:
        report.extra["disagreements"] = dis[:20]
