"""C10 -- swaps and permutations realise exactly the requested wire permutation."""
import itertools
import random

import common
from common import Report
from props import base


def trace_swaps(ci, d, width):
    """Follow wires through a diagram made of adjacent swaps only.  Returns the
    list pos with pos[i] = output position of input wire i, or a string saying
    why the diagram is not a swap network."""
    from discopy import monoidal
    at = list(range(width))          # at[p] = input wire currently at position p
    for box, off in zip(d.boxes, d.offsets):
        if not isinstance(box, monoidal.Swap):
            return "box %r is not a swap" % (box,)
        if len(box.dom) != 2 or len(box.cod) != 2:
            return "swap of arity %d" % len(box.dom)
        if not 0 <= off <= len(at) - 2:
            return "offset %r out of range" % (off,)
        at[off], at[off + 1] = at[off + 1], at[off]
    pos = [None] * width
    for p, w in enumerate(at):
        pos[w] = p
    return pos


def gen_types(names, max_total):
    for n in range(max_total + 1):
        for t in itertools.product(names, repeat=n):
            yield [[x, 0] for x in t]


def run(tier, seed):
    import core_impl as ci
    rep = Report("C10", tier, seed)
    ci.CHECK_PURITY = True      # every operation must leave its arguments as they were
    proof_ok = common.proof_stage(rep, "C10")
    rng = random.Random(seed)
    maxw = 4 if tier == "quick" else 5
    maxp = 5 if tier == "quick" else 6
    classes = {"monoidal": [1, 2, 3, 4, 5, 6, 7], "rigid": [1, 2, 3, 4, 5, 6, 7],
               "tensor": [1, 2, 3, 4, 5, 6, 7], "circuit": [1, 2], "zx": [1]}
    for cname, names in classes.items():
        cls = ci.Cls(cname)
        progs, meta = [], []
        # --- swaps: all (left, right) splits of widths up to maxw, wires named apart
        for nl in range(maxw + 1):
            for nr in range(maxw + 1 - nl):
                pools = []
                if len(names) >= nl + nr:
                    pools.append([names[i] for i in range(nl + nr)])
                pools.append([rng.choice(names) for _ in range(nl + nr)])
                pools.append([names[0]] * (nl + nr))
                for pool in pools:
                    l = [[x, 0] for x in pool[:nl]]
                    r = [[x, 0] for x in pool[nl:]]
                    progs.append([ci.SWAP, l, r])
                    meta.append(("swap", l, r))
        # --- permutations: every permutation up to maxp, plus malformed requests
        for n in range(maxp + 1):
            for perm in itertools.permutations(range(n)):
                if n >= 5 and tier == "quick" and rng.random() < 0.5:
                    continue
                dom = [[names[i % len(names)], 0] for i in range(n)]
                progs.append([ci.PERMUTATION, list(perm), dom])
                meta.append(("perm", list(perm), dom))
        for _ in range(60 if tier == "quick" else 400):
            n = rng.randint(0, maxp)
            perm = [rng.randint(-1, n) for _ in range(n)]
            m = n if rng.random() < 0.6 else rng.randint(0, maxp)
            dom = [[rng.choice(names), 0] for _ in range(m)]
            if rng.random() < 0.5:
                perm = list(range(n))
                rng.shuffle(perm)
            progs.append([ci.PERMUTATION, perm, dom])
            meta.append(("perm", perm, dom))
        # --- two faults together: a list with repeated entries whose SET is range(len(dom)), and an
        # explicit dom shorter than the list (or longer, with missing entries)
        for _ in range(40 if tier == "quick" else 300):
            m = rng.randint(1, 3)
            basep = list(range(m))
            rng.shuffle(basep)
            perm = basep + [rng.choice(basep) for _ in range(rng.randint(1, 3))]
            if rng.random() < 0.5:
                rng.shuffle(perm)
            dom = [[names[i % len(names)], 0] for i in range(m)]
            progs.append([ci.PERMUTATION, perm, dom])
            meta.append(("perm", perm, dom))
            if rng.random() < 0.5:
                progs.append([ci.PERMUTE, [ci.ID, dom], perm])
                meta.append(("perm", perm, dom))
        # --- permute on top of an identity of the class
        for _ in range(30 if tier == "quick" else 200):
            n = rng.randint(0, maxp)
            perm = list(range(n))
            rng.shuffle(perm)
            dom = [[rng.choice(names), 0] for _ in range(n)]
            progs.append([ci.PERMUTE, [ci.ID, dom], perm])
            meta.append(("perm", perm, dom))
        results = base.differential(rep, ci, cname, progs, project=base.project_public,
                                    family="corr:core:swap/permutation")
        index = {common.to_sexp(p): m for p, m in zip(progs, meta)}
        for p, impl, _ in results:
            kind, a, b = index[common.to_sexp(p)]
            rep.case([cname, p], nontrivial=(len(a) + len(b) >= 2 or impl[0] == 1),
                     sample={"class": cname, "program": ci.pretty(p), "impl": "value" if impl[0] == 0 else impl})
            rep.count("class:" + cname)
            rep.count("op:" + kind)
            bad = oracle(ci, cls, kind, a, b, p)
            if bad:
                rep.violation(bad, {"class": cname, "program": p, "impl": impl,
                                    "replay": base.snippet(cname, p)})
    # tensor.Tensor.swap (the array-level swap of the tensor class): the block permutation,
    # checked entry by entry for all small dimension tuples with unequal block lengths
    bad = tensor_swap_oracle(rep, rng, 3 if tier == "quick" else 4)
    for what, payload in bad:
        rep.violation(what, payload)
    empty_dom_stream(rep)
    base.settle(rep, "C10", proof_ok, "C10")
    return rep.finish(
        rule="per class (monoidal, rigid, tensor, circuit, zx): every (left, right) split of "
             "width <= %d with distinct / random / equal wire names, every permutation of length "
             "<= %d, random malformed permutations and domains; non-trivial = at least two wires "
             "or a refusal; distinct by (class, program)" % (maxw, maxp),
        trusted_base=base.TRUSTED_CORE,
        assumptions=["wires are followed through Swap boxes by position only (oracle)",
                     "tensor/circuit/zx classes share monoidal.Diagram.swap/permutation via "
                     "ar_factory/swap_factory; their type constructors are exercised, not modelled"],
        checker_cmd="make -C coq Props/C10.vo  (coqc 8.16.1, Print Assumptions parsed)")


def empty_dom_stream(rep):
    """Oracle-only: in every class that has its own `permutation` entry point (monoidal, rigid,
    tensor, circuit, zx) a non-empty list with an explicitly given EMPTY domain is a length
    mismatch and is refused with ValueError; the empty list on the empty domain is the identity."""
    from discopy import monoidal, rigid, tensor
    from discopy.quantum import circuit, zx
    classes = [("monoidal", monoidal.Diagram, monoidal.Ty()), ("monoidal-PRO", monoidal.Diagram, monoidal.PRO(0)),
               ("rigid", rigid.Diagram, rigid.Ty()), ("rigid-PRO", rigid.Diagram, rigid.PRO(0)),
               ("tensor", tensor.Diagram, tensor.Dim(1)), ("circuit", circuit.Circuit, circuit.Ty()),
               ("zx", zx.Diagram, rigid.PRO(0))]
    for name, D, empty in classes:
        for perm in ([0], [1, 0], [0, 1], [2, 0, 1]):
            rep.count("stream:empty-dom")
            try:
                r = D.permutation(list(perm), empty)
            except ValueError:
                rep.count("oracle:empty-dom:pass")
                continue
            except Exception as exc:   # noqa
                rep.violation("%s: permutation(%r, <empty domain>) raised %s instead of ValueError" % (
                    name, perm, type(exc).__name__), {"class": name, "perm": perm})
                continue
            rep.violation("%s: permutation(%r, <empty domain>) is accepted and returns %r" % (name, perm, r),
                          {"class": name, "perm": perm})
        try:
            r = D.permutation([], empty)
            if len(r.boxes) != 0 or len(r.dom) != 0:
                rep.violation("%s: permutation([], <empty domain>) is not the empty identity" % name, {"class": name})
        except Exception as exc:   # noqa
            rep.violation("%s: permutation([], <empty domain>) raised %s" % (name, type(exc).__name__), {"class": name})


def oracle(ci, cls, kind, a, b, p):
    """Direct statement of C10 on the implementation."""
    try:
        d = ci.interp(cls, p)
    except Exception as exc:   # noqa
        if kind == "swap":
            return "swap of two types refused with %s" % type(exc).__name__
        perm, dom = a, b
        legit = sorted(perm) == list(range(len(perm))) and len(dom) == len(perm)
        if legit:
            return "legitimate permutation refused with %s" % type(exc).__name__
        return None
    if kind == "swap":
        l, r = a, b
        n = len(l) + len(r)
        if ci.canon_ty(d.dom) != l + r or ci.canon_ty(d.cod) != r + l:
            return "swap has wrong domain or codomain"
        pos = trace_swaps(ci, d, n)
        if isinstance(pos, str):
            return pos
        want = [len(r) + i for i in range(len(l))] + list(range(len(r)))
        if pos != want:
            return "swap moves wires to %s instead of %s" % (pos, want)
        return None
    perm, dom = a, b
    legit = sorted(perm) == list(range(len(perm))) and len(dom) == len(perm)
    if not legit:
        return "non-permutation or length mismatch accepted"
    pos = trace_swaps(ci, d, len(perm))
    if isinstance(pos, str):
        return pos
    if pos != perm:
        return "permutation sends wires to %s instead of %s" % (pos, perm)
    cod = ci.canon_ty(d.cod)
    if ci.canon_ty(d.dom) != dom or any(cod[perm[i]] != dom[i] for i in range(len(perm))):
        return "codomain is not the permuted domain"
    return None


def tensor_swap_oracle(rep, rng, maxw):
    import itertools as it
    import numpy
    from discopy.tensor import Tensor, Dim
    out = []
    dims_pool = [2, 3]
    for nl in range(maxw + 1):
        for nr in range(maxw + 1 - nl):
            for _ in range(2):
                l = [rng.choice(dims_pool) for _ in range(nl)]
                r = [rng.choice(dims_pool) for _ in range(nr)]
                rep.case(["tensor-array", l, r], nontrivial=(nl + nr >= 2))
                rep.count("class:tensor-array")
                try:
                    t = Tensor.swap(Dim(*l), Dim(*r))
                except Exception as exc:   # noqa
                    out.append(("Tensor.swap refused two dimension types with %s" % type(exc).__name__,
                                {"left": l, "right": r, "replay": "Tensor.swap(Dim(*%r), Dim(*%r))" % (l, r)}))
                    continue
                arr = numpy.array(t.array).reshape(tuple(l + r + r + l) or (1,))
                ok = list(t.dom) == l + r and list(t.cod) == r + l
                if ok and l + r:
                    for idx in it.product(*[range(d) for d in l + r]):
                        il, ir = idx[:nl], idx[nl:]
                        for jdx in it.product(*[range(d) for d in r + l]):
                            want = 1 if (jdx[:nr] == ir and jdx[nr:] == il) else 0
                            if arr[idx + jdx] != want:
                                ok = False
                                break
                        if not ok:
                            break
                if not ok:
                    out.append(("Tensor.swap does not move the left block of wires to the right of the right block",
                                {"left": l, "right": r, "replay": "Tensor.swap(Dim(*%r), Dim(*%r)).array" % (l, r)}))
    return out
