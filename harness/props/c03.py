"""C03 -- equality is structural, hash-consistent and printable.

Values of the classes monoidal and rigid (objects, types, boxes incl. Swap / Cup /
Cap, diagrams, sums) are built in *buckets*: one seed value, the same value
rebuilt along different routes (f >> Id, Id @ f, slicing and recomposing, dagger
twice, layer by layer, ...) and near-misses (one offset / name / dagger flag /
payload / winding number apart).  Within each bucket every pair is compared on
the implementation (==, both directions, !=, hash, dict lookup) and on the
extracted model (repr verbatim, deqb / box_eqb / ty_eqb / sum_eqb, parse of the
implementation's repr).  Independent oracles run on the implementation alone."""
import random

import common
from common import Report, with_timeout
from props import base
import gen as G

KBOX, KSWAP, KCUP, KCAP = 0, 1, 2, 3
TIMEOUT = 10.0


# ------------------------------------------------------------------ generators
class Gen:
    def __init__(self, rng, cname):
        self.rng, self.cname, self.rigid = rng, cname, cname == "rigid"
        self.g = G.G(rng, rigid=self.rigid, names=(1, 2, 3))

    def ob(self):
        o = self.g.ob()
        if self.rng.random() < 0.1:
            o = [self.rng.choice([0, 7, 10, 123, -4]), o[1]]
        return o

    def ty(self, lo=0, hi=3):
        return [self.ob() for _ in range(self.rng.randint(lo, hi))]

    def spice(self, b):
        """more payloads (0 included, negatives) and daggers than gen.G.box gives"""
        if b[0] == KBOX and self.rng.random() < 0.3:
            b = b[:5] + [[self.rng.choice([0, 0, 1, -1, 7, -12, 123])]]
        return b

    def box(self):
        r = self.rng.random()
        if r < 0.12:
            return self.g.swap_box(self.ob(), self.ob())
        if self.rigid and r < 0.2:
            return self.g.cup_box(self.ob())
        if self.rigid and r < 0.28:
            return self.g.cap_box(self.ob())
        return self.spice(self.g.box(self.ty(0, 2), self.ty(0, 2)))

    def diagram(self):
        dom, cod, boxes, offs = self.g.grow(n_boxes=self.rng.choice([0, 1, 1, 2, 2, 3, 3, 4, 5]))
        return [dom, cod, [self.spice(b) for b in boxes], offs]


def ty_bucket(gen, t):
    rng, rec = gen.rng, []
    add = lambda route, w, p=0: rec.append(["ty", gen.cname, route, w, p])   # noqa: E731
    i = rng.randint(0, len(t))
    add("ctor", t)
    add("tensor", t, i)
    add("unit_l", t)
    add("unit_r", t)
    add("slices", t, rng.randint(-1, len(t) + 1))
    add("objects", t)
    if all(z == 0 for _, z in t):
        add("names", t)
        add("cat_obs", t)
    if gen.rigid:
        add("r_l", t)
        add("l_r", t)
    if t and all(x == t[0] for x in t):
        add("pow", t)
    # near-misses
    if t:
        k = rng.randrange(len(t))
        add("ctor", t[:k] + [[t[k][0] + 1, t[k][1]]] + t[k + 1:])
        add("ctor", t[:k] + t[k + 1:])
        add("ctor", t[:k] + [t[k]] + t[k:])
        if t[::-1] != t:
            add("ctor", t[::-1])
        if gen.rigid:
            add("ctor", t[:k] + [[t[k][0], t[k][1] + rng.choice([-1, 1])]] + t[k + 1:])
            add("ctor", t[:k] + [[t[k][0], -t[k][1] if t[k][1] else 2]] + t[k + 1:])
    else:
        add("ctor", [gen.ob()])
    return rec


def box_bucket(gen, b):
    rng, rec = gen.rng, []
    add = lambda route, w: rec.append(["box", gen.cname, route, w, 0])   # noqa: E731
    for route in ("ctor", "dagger2", "rev2", "of_dagger", "of_dagger_rev"):
        add(route, b)
    kind, name, dom, cod, dag, data = b
    if kind == KBOX:
        add("keywords", b)
        add("ctor", [kind, name + 1, dom, cod, dag, data])
        add("ctor", [kind, name, dom, cod, 1 - dag, data])
        add("ctor", [kind, name, dom, cod, dag, [0] if not data else []])
        add("ctor", [kind, name, dom, cod, dag, [data[0] + 1] if data else [1]])
        add("ctor", [kind, name, dom + [gen.ob()], cod, dag, data])
        add("ctor", [kind, name, dom, cod + [gen.ob()], dag, data])
        if dom != cod:
            add("ctor", [kind, name, cod, dom, dag, data])
            add("ctor", [kind, name, cod, dom, 1 - dag, data])     # what dagger() returns
        if len(dom) == 2 and cod == dom[::-1]:
            add("ctor", [KSWAP, -1, dom, cod, 0, []])
    elif kind == KSWAP:
        add("ctor", [KSWAP, -1, cod, dom, 0, []])
        add("ctor", [KBOX, 1, dom, cod, 0, []])
        other = [dom[0], [dom[1][0] + 1, dom[1][1]]]
        add("ctor", [KSWAP, -1, other, other[::-1], 0, []])
    else:
        wires = dom if kind == KCUP else cod
        flip = wires[::-1]
        if kind == KCUP:
            add("ctor", [KCAP, -3, [], wires, 0, []])
            add("ctor", [KCUP, -2, flip, [], 0, []])
        else:
            add("ctor", [KCUP, -2, wires, [], 0, []])
            add("ctor", [KCAP, -3, [], flip, 0, []])
        add("ctor", [KBOX, 2, dom, cod, 0, []])
        up = [[n, z + 1] for n, z in wires]
        add("ctor", [kind, name, up if kind == KCUP else [], [] if kind == KCUP else up, 0, []])
    return rec


def diagram_bucket(gen, w, ri):
    rng, rec = gen.rng, []
    dom, cod, boxes, offs = w
    n = len(boxes)
    add = lambda route, ww, p=0: rec.append(["diagram", gen.cname, route, ww, p])   # noqa: E731
    for route in ("ctor", "layers", "layers_no_id", "then_id", "id_then", "unit_l", "unit_r",
                  "dagger2", "dagger2m", "items"):
        add(route, w)
    add("split", w, rng.randint(0, n))
    add("split", w, rng.randint(-n - 1, n + 1))
    add("then_star", w, rng.randint(0, n))
    if n == 1 and boxes[0][2] == dom and offs == [0]:
        add("box", w)
    # near-misses, all well-typed
    if n:
        k = rng.randrange(n)
        b = boxes[k]
        if b[0] == KBOX:
            add("ctor", [dom, cod, boxes[:k] + [[KBOX, b[1] + 1] + b[2:]] + boxes[k + 1:], offs])
            add("ctor", [dom, cod, boxes[:k] + [b[:4] + [1 - b[4], b[5]]] + boxes[k + 1:], offs])
            add("ctor", [dom, cod, boxes[:k] + [b[:5] + [[0] if not b[5] else []]] + boxes[k + 1:], offs])
        shifted = 0
        for kk in rng.sample(range(n), n):       # one offset apart, still well-typed
            for delta in (1, -1, 2, -2):
                o2 = offs[:kk] + [offs[kk] + delta] + offs[kk + 1:]
                if ri.reads(dom, boxes, o2) == cod:
                    add("ctor", [dom, cod, boxes, o2])
                    shifted += 1
                    break
            if shifted >= 2:
                break
        if n >= 2:                                # two boxes exchanged where that is well-typed
            j = rng.randrange(n - 1)
            b2 = boxes[:j] + [boxes[j + 1], boxes[j]] + boxes[j + 2:]
            for o2 in (offs[:j] + [offs[j + 1], offs[j]] + offs[j + 2:], offs):
                if ri.reads(dom, b2, o2) == cod:
                    add("ctor", [dom, cod, b2, o2])
        if ri.reads(dom, boxes[:-1], offs[:-1]) is not None:
            add("ctor", [dom, ri.reads(dom, boxes[:-1], offs[:-1]), boxes[:-1], offs[:-1]])
    x = gen.ob()
    add("ctor", [dom + [x], cod + [x], boxes, offs])
    add("ctor", [[x] + dom, [x] + cod, boxes, [o + 1 for o in offs]])
    s = [KBOX, 9, [], [], 0, []]
    add("ctor", [dom, cod, boxes + [s], offs + [0]])
    if len(cod) >= 1:
        add("ctor", [dom, cod, boxes + [s], offs + [1]])
    return rec


def sum_bucket(gen, w):
    rng, rec = gen.rng, []
    dom, cod = w[0], w[1]
    par = [KBOX, 21, dom, cod, 0, []]
    par2 = [KBOX, 22, dom, cod, 1, [0]]
    a = ["ctor", w, 0]
    a_alt = [rng.choice(["layers", "then_id", "unit_l", "dagger2"]), w, 0]
    b = ["ctor", [dom, cod, [par], [0]], 0]
    b_box = ["box", [dom, cod, [par], [0]], 0]
    c = ["ctor", [dom, cod, [par2], [0]], 0]
    add = lambda route, terms, d=dom, cd=cod: rec.append(["sum", gen.cname, route, [d, cd, terms], 0])   # noqa: E731
    for route in ("ctor", "ctor_typed", "plus", "unit_plus", "plus_unit", "sums_plus", "builtin_sum"):
        add(route, [a, b, c])
    add("ctor", [a_alt, b_box, c])
    add("plus", [a_alt, b_box, c])
    # near-misses
    add("ctor", [b, a, c])
    add("ctor", [a, b])
    add("ctor", [a, b, c, c])
    add("ctor", [a, c, c])
    add("ctor", [])
    add("ctor", [], dom + [[1, 0]], cod + [[1, 0]])
    add("ctor", [a])
    add("plus", [a_alt])
    return rec


def buckets_for(cname, tier, seed, ri):
    rng = random.Random(seed * 31 + (7 if cname == "rigid" else 0))
    gen = Gen(rng, cname)
    scale = 1 if tier == "quick" else 12
    out = []
    # corpus / exhaustive small scope
    names = [1, 2]
    zs = [0, 1, -1] if gen.rigid else [0]
    obs = [[n, z] for n in names for z in zs]
    small_tys = [[]] + [[a] for a in obs] + [[a, b] for a in obs for b in obs]
    for t in small_tys:
        out.append(ty_bucket(gen, t))
    sig = [b for b in G.small_signature() if len(b[2]) + len(b[3]) <= 3]
    for b in sig:
        for dag in (0, 1):
            for data in ([], [0]):
                out.append(box_bucket(gen, [KBOX, b[1], b[2], b[3], dag, data]))
    a, bb = [1, 0], [2, 0]
    out.append(box_bucket(gen, [KSWAP, -1, [a, bb], [bb, a], 0, []]))
    out.append(box_bucket(gen, [KSWAP, -1, [a, a], [a, a], 0, []]))
    if gen.rigid:
        ar, al = [1, 1], [1, -1]
        for wires in ([a, ar], [al, a], [ar, a], [a, al]):
            out.append(box_bucket(gen, [KCUP, -2, wires, [], 0, []]))
            out.append(box_bucket(gen, [KCAP, -3, [], wires, 0, []]))
    small = G.enumerate_diagrams(2, [[], [a], [a, bb]], sig[::3], max_width=3)
    rng.shuffle(small)
    for dom, cod, boxes, offs in small[:60 * scale]:
        out.append(diagram_bucket(gen, [dom, cod, boxes, offs], ri))
    # hand-written: scalars at different offsets, daggered boxes, payload 0
    s0 = [KBOX, 60, [], [], 0, []]
    s1 = [KBOX, 60, [], [], 1, [0]]
    f = [KBOX, 61, [a], [bb], 0, []]
    for w in ([[a, bb], [a, bb], [s0], [0]], [[a, bb], [a, bb], [s0], [1]], [[a, bb], [a, bb], [s0], [2]],
              [[a], [bb], [s0, f, s1], [1, 0, 0]], [[a], [bb], [f], [0]], [[], [], [s0, s1], [0, 0]],
              [[a, a], [bb, bb], [f, f], [0, 1]], [[a, a], [bb, bb], [f, f], [1, 0]]):
        out.append(diagram_bucket(gen, w, ri))
    # structured random
    for _ in range(70 * scale):
        out.append(ty_bucket(gen, gen.ty(0, 4)))
    for _ in range(100 * scale):
        out.append(box_bucket(gen, gen.box()))
    for _ in range(150 * scale):
        out.append(diagram_bucket(gen, gen.diagram(), ri))
    for _ in range(50 * scale):
        out.append(sum_bucket(gen, gen.diagram()))
    return out


# ------------------------------------------------------------------ the check
class Checker:
    def __init__(self, rep, ri):
        self.rep, self.ri = rep, ri
        self.pending = []        # (programs, callback)

    def fail(self, what, cname, recipes, evalflag=False, extra=None):
        payload = {"class": cname, "recipes": recipes, "eval": evalflag}
        payload["replay"] = self.ri.replay_cmd(payload)
        payload["oracle"] = what
        if extra:
            payload.update(extra)
        self.rep.violation(what, payload)

    def disagree(self, family, cname, recipe, impl, model):
        self.rep.extra.setdefault("disagreements", []).append(
            {"family": family, "class": cname, "program": recipe, "impl": impl, "model": model})

    def bucket(self, recipes):
        rep, ri = self.rep, self.ri
        kind, cname = recipes[0][0], recipes[0][1]
        ns = ri.namespace(cname)
        vals = []
        for r in recipes:
            try:
                v = with_timeout(TIMEOUT, ri.build, r)
            except AssertionError:
                raise
            except Exception as exc:   # noqa: a route that is refused is not a value
                rep.count("route-refused:%s:%s:%s" % (kind, r[2], type(exc).__name__))
                if r[2] != "ctor":
                    rep.notes.append("route %s refused for %s: %s" % (r[2], r[3], type(exc).__name__))
                continue
            try:
                canon_v = ri.canon(kind, v)
            except AssertionError as exc:
                # the value cannot be read back as (name, winding) objects: it is not the value its
                # construction route describes (e.g. an object whose name is itself an object)
                rep.count("oracle:unreadable-value:FAIL")
                self.unreadable = getattr(self, "unreadable", 0) + 1
                if self.unreadable <= 3:
                    rep.violation("route %s builds a %s that is not made of the named objects it was given: %s"
                                  % (r[2], kind, exc),
                                  {"class": cname, "recipe": r, "repr": repr(v)[:400]})
                continue
            vals.append((r, v, canon_v, repr(v), hash(v)))
            rep.count("value:%s:%s" % (cname, kind))
            rep.count("route:" + r[2])
        n = len(vals)
        eq = [[None] * n for _ in range(n)]
        for i in range(n):
            for j in range(n):
                eq[i][j] = bool(with_timeout(TIMEOUT, lambda a, b: a == b, vals[i][1], vals[j][1]))
        # ---------------- oracles on the implementation alone
        for i in range(n):
            ri_, vi, ci_, si, hi = vals[i]
            rep.case([cname, ri_], nontrivial=(kind != "ty" or len(ci_) > 0),
                     sample={"class": cname, "recipe": ri_, "repr": si} if rep.evaluations % 1499 == 0 else None)
            if not eq[i][i]:
                self.fail("equality is not reflexive: v == v is False", cname, [ri_])
            try:
                back = with_timeout(TIMEOUT, eval, si, dict(ns))
                ok = (back == vi) and (vi == back) and hash(back) == hi and repr(back) == si \
                    and ri.canon(kind, back) == ci_
                if not ok:
                    self.fail("eval(repr(v)) is not equal to v (or hashes / prints differently)",
                              cname, [ri_], True, {"repr": si})
            except AssertionError:
                raise
            except Exception as exc:   # noqa
                self.fail("repr(v) does not evaluate: %s" % type(exc).__name__, cname, [ri_], True,
                          {"repr": si})
            for j in range(n):
                rj, vj, cj, sj, hj = vals[j]
                if i < j:
                    rep.count("pair:%s:%s" % (kind, "equal" if eq[i][j] else "unequal"))
                    if eq[i][j] != eq[j][i]:
                        self.fail("equality is not symmetric", cname, [ri_, rj])
                    if eq[i][j] != (ci_ == cj):
                        self.fail("== %s although domain, codomain, boxes and offsets %s"
                                  % (("holds", "differ") if eq[i][j] else ("fails", "are the same")),
                                  cname, [ri_, rj])
                    if (vi != vj) == eq[i][j]:
                        self.fail("!= is not the negation of ==", cname, [ri_, rj])
                    if eq[i][j]:
                        if hi != hj:
                            self.fail("equal values have different hashes", cname, [ri_, rj])
                        else:
                            try:
                                if {vi: 1}[vj] != 1 or vi not in {vj}:
                                    raise KeyError
                            except KeyError:
                                self.fail("an equal value is not found as a dict key", cname, [ri_, rj])
        for i in range(n):
            for j in range(n):
                if eq[i][j]:
                    for k in range(n):
                        if eq[j][k] and not eq[i][k]:
                            self.fail("equality is not transitive", cname,
                                      [vals[i][0], vals[j][0], vals[k][0]])
        # ---------------- correspondence with the model (deferred: one runner call)
        progs = [ri.repr_prog(kind, cname, v[2]) for v in vals]
        progs += [ri.parse_prog(kind, v[3]) for v in vals]
        pairs = [(i, j) for i in range(n) for j in range(i, n)]
        progs += [ri.eq_prog(kind, vals[i][2], vals[j][2]) for i, j in pairs]

        def settle(ans):
            mrep = [ri.decode_str(a) for a in ans[:n]]
            for v, m in zip(vals, mrep):
                rep.disagreements_checked += 1
                if m != v[3]:
                    self.disagree("corr:repr:verbatim", cname, v[0], v[3], m)
            for v, a in zip(vals, ans[n:2 * n]):
                rep.disagreements_checked += 1
                if a != [0, v[2]]:
                    self.disagree("corr:repr:parse-of-printed", cname, v[0], [0, v[2]], a)
            for (i, j), a in zip(pairs, ans[2 * n:]):
                rep.disagreements_checked += 1
                if a != [0, 1 if eq[i][j] else 0]:
                    self.disagree("corr:repr:eq", cname, [vals[i][0], vals[j][0]], eq[i][j], a)
                if (vals[i][4] == vals[j][4]) != (mrep[i] == mrep[j]):
                    self.disagree("corr:repr:hash", cname, [vals[i][0], vals[j][0]],
                                  vals[i][4] == vals[j][4], mrep[i] == mrep[j])
        self.pending.append((progs, settle))

    def flush(self):
        progs = [p for ps, _ in self.pending for p in ps]
        self.rep.programs += len(progs)
        ans = common.run_model_parallel("repr", progs)
        k = 0
        for ps, cb in self.pending:
            cb(ans[k:k + len(ps)])
            k += len(ps)
        self.pending = []


def box_vs_diagram(chk, cname, seed, tier):
    """A box against one-box diagrams wrapping it (and not quite wrapping it), both
    operand orders, and against the model's two methods."""
    rep, ri = chk.rep, chk.ri
    import core_impl as ci
    c = ci.Cls(cname)
    rng = random.Random(seed * 17 + len(cname))
    gen = Gen(rng, cname)
    progs, expect = [], []
    for _ in range(150 if tier == "quick" else 1500):
        b = gen.box()
        x = gen.ob()
        box = c.box(b)
        cands = [("wrap", [b[2], b[3], [b], [0]]),
                 ("right", [b[2] + [x], b[3] + [x], [b], [0]]),
                 ("left", [[x] + b[2], [x] + b[3], [b], [1]]),
                 ("other", [b[2], b[3], [ri.dagger_wire(ri.dagger_wire(b))[:1] + [b[1] + 1] + b[2:]], [0]]),
                 ("two", [b[2], b[3], [b, [KBOX, 9, [], [], 0, []]], [0, 0]])]
        for label, w in cands:
            if label == "other" and b[0] != KBOX:
                continue
            recipes = [["box", cname, "ctor", b, 0], ["diagram", cname, "ctor", w, 0]]
            try:
                d = with_timeout(TIMEOUT, ri.build, recipes[1])
            except Exception:   # noqa
                continue
            e1 = bool(box == d)
            e2 = bool(d == box)
            same = ri.canon_diagram(box) == ri.canon_diagram(d)
            rep.case([cname, "box-vs-diagram", recipes], nontrivial=True)
            rep.count("box-vs-diagram:%s:%s" % (label, "equal" if e1 else "unequal"))
            if e1 != e2:
                chk.fail("box == diagram and diagram == box differ", cname, recipes)
            if e1 != same:
                chk.fail("a box %s a diagram whose fields %s the box's own"
                         % (("equals", "differ from") if e1 else ("differs from", "are")), cname, recipes)
            if e1 and (hash(box) != hash(d) or {box: 1}.get(d) != 1 or {d: 1}.get(box) != 1):
                chk.fail("a box and its wrapping diagram hash differently / miss as dict keys",
                         cname, recipes)
            if label == "wrap" and not e1:
                chk.fail("a box is not equal to the one-box diagram that wraps it", cname, recipes)
            for route in ("id_then", "then_id", "unit_l", "layers"):   # other wrappers of the same box
                if label == "wrap":
                    d2 = ri.build(["diagram", cname, route, w, 0])
                    if not (d2 == box and box == d2 and hash(d2) == hash(box)):
                        chk.fail("a box is not equal to / hashes unlike %s of itself" % route, cname,
                                 [recipes[0], ["diagram", cname, route, w, 0]])
            progs.append([ri.OP_BOX_VS_DIAGRAM, ri.canon("box", box), ri.canon_diagram(d)])
            expect.append((recipes, e1, e2))

    def settle(ans):
        for (recipes, e1, e2), a in zip(expect, ans):
            rep.disagreements_checked += 1
            if a != [0, [1 if e1 else 0, 1 if e2 else 0]]:
                chk.disagree("corr:repr:box-vs-diagram", cname, recipes, [e1, e2], a)
    chk.pending.append((progs, settle))


def cat_stream(chk, seed, tier):
    """The plain category (cat.Ob / Box / Arrow / Id / Sum): oracles on the
    implementation only (the model covers the monoidal and rigid classes)."""
    rep = chk.rep
    from discopy import cat
    rng = random.Random(seed * 5 + 3)
    ns = dict(vars(cat))

    def arrow(spec):          # spec = (dom, [(name, dom, cod, dag, data)...])
        dom, bs = spec
        boxes = [cat.Box("n%d" % n, cat.Ob("n%d" % d), cat.Ob("n%d" % c), data=dt, _dagger=bool(dg))
                 for n, d, c, dg, dt in bs]
        cod = bs[-1][2] if bs else dom
        return cat.Arrow(cat.Ob("n%d" % dom), cat.Ob("n%d" % cod), boxes)

    def routes(spec):
        dom, bs = spec
        a = arrow(spec)
        out = [a, cat.Id(cat.Ob("n%d" % dom)).then(*[arrow((b[1], [b])) for b in bs]),
               a >> cat.Id(a.cod), cat.Id(a.dom) >> a, a[::-1][::-1], a.dagger().dagger()]
        k = rng.randint(0, len(bs))
        out.append(a[:k] >> a[k:])
        if len(bs) == 1:
            out.append(a.boxes[0])
        return out

    def near(spec):
        dom, bs = spec
        out = []
        if bs:
            k = rng.randrange(len(bs))
            n, d, c, dg, dt = bs[k]
            for nb in ((n + 1, d, c, dg, dt), (n, d, c, 1 - dg, dt), (n, d, c, dg, 0 if dt is None else None)):
                out.append(arrow((dom, bs[:k] + [nb] + bs[k + 1:])))
            out.append(arrow((dom, bs[:-1])))
        out.append(arrow((dom + 1, [])))
        return out

    for _ in range(120 if tier == "quick" else 1500):
        dom = rng.randint(1, 3)
        bs, cur = [], dom
        for _ in range(rng.choice([0, 1, 1, 2, 3])):
            nxt = rng.randint(1, 3)
            bs.append((rng.randint(10, 13), cur, nxt, int(rng.random() < 0.25),
                       rng.choice([None, None, None, 0, 1, -2])))
            cur = nxt
        spec = (dom, bs)
        same, others = routes(spec), near(spec)
        vals = same + others
        key = lambda v: (v.dom.name, v.cod.name,   # noqa: E731
                         [(b.name, b.dom.name, b.cod.name, b.data, b.is_dagger) for b in v.boxes])
        for i, a in enumerate(vals):
            rep.case(["cat", repr(a), i], nontrivial=bool(bs))
            rep.count("value:cat:arrow")
            payload = {"class": "cat", "spec": [dom, bs], "repr": repr(a),
                       "replay": "PYTHONPATH=/repo /venv/bin/python -B -c \"from discopy.cat import *; "
                                 "v = %s; print(v == eval(repr(v)), hash(v))\"" % repr(a)}
            try:
                back = eval(repr(a), dict(ns))
                if not (back == a and a == back and hash(back) == hash(a)):
                    rep.violation("cat: eval(repr(v)) is not equal to v", payload)
            except Exception as exc:   # noqa
                rep.violation("cat: repr(v) does not evaluate: %s" % type(exc).__name__, payload)
            for j, b in enumerate(vals):
                e = bool(a == b)
                if e != bool(b == a):
                    rep.violation("cat: equality is not symmetric", dict(payload, other=repr(b)))
                if e != (key(a) == key(b)):
                    rep.violation("cat: == disagrees with sameness of dom, cod, boxes",
                                  dict(payload, other=repr(b)))
                if e and (hash(a) != hash(b) or {a: 1}.get(b) != 1):
                    rep.violation("cat: equal arrows hash differently", dict(payload, other=repr(b)))
        # sums of parallel arrows
        if bs:
            a = arrow(spec)
            p = cat.Box("n40", a.dom, a.cod)
            sums = [cat.Sum([a, p]), a + p, cat.Sum([a]) + cat.Sum([p]), cat.Sum([], a.dom, a.cod) + a + p,
                    cat.Sum([p, a]), cat.Sum([a]), cat.Sum([], a.dom, a.cod)]
            for i, s in enumerate(sums):
                rep.count("value:cat:sum")
                payload = {"class": "cat", "repr": repr(s)}
                back = eval(repr(s), dict(ns))
                if not (back == s and s == back and hash(back) == hash(s)):
                    rep.violation("cat: eval(repr(sum)) is not equal to the sum", payload)
                for j, t in enumerate(sums):
                    e = bool(s == t)
                    want = (i < 4) == (j < 4) if (i < 4 or j < 4) else i == j
                    if e != want or e != bool(t == s) or (e and hash(s) != hash(t)):
                        rep.violation("cat: sum equality / hash wrong", dict(payload, other=repr(t)))
    # objects
    for n in range(4):
        x, y = cat.Ob("n%d" % n), cat.Ob("n%d" % n)
        if not (x == y and hash(x) == hash(y) and eval(repr(x), dict(ns)) == x and x != cat.Ob("n9")):
            rep.violation("cat.Ob equality / hash / repr", {"class": "cat", "repr": repr(x)})


def ob_stream(chk, seed, tier):
    """rigid.Ob / cat.Ob on their own: __eq__, __hash__ (which does not go through
    repr), __repr__; the model prints them (op 4) and compares them as one-object types."""
    rep, ri = chk.rep, chk.ri
    from discopy import cat, rigid
    progs, expect = [], []
    ns = dict(vars(rigid))
    zs = [-3, -2, -1, 0, 1, 2, 3]
    obs = []
    for n in (1, 2, 12):
        for z in zs:
            name = "n%d" % n
            same = [("ctor", rigid.Ob(name, z)), ("r", rigid.Ob(name, z - 1).r), ("l", rigid.Ob(name, z + 1).l),
                    ("from_ty", rigid.Ty(rigid.Ob(name, z))[0]), ("kw", rigid.Ob(name, z=z))]
            for label, v in same:
                obs.append((n, z, label, v))
        obs.append((n, 0, "cat", cat.Ob("n%d" % n)))
    for (n1, z1, l1, a) in obs:
        rep.case(["ob", n1, z1, l1], nontrivial=True)
        rep.count("value:ob")
        pay = {"class": "rigid", "ob": [n1, z1, l1], "repr": repr(a),
               "replay": "PYTHONPATH=/repo /venv/bin/python -B -c \"from discopy.rigid import *; "
                         "from discopy import cat; a = %s; print(repr(a), hash(a))\""
                         % (repr(a) if l1 != "cat" else "cat." + repr(a))}
        if l1 != "cat":
            back = eval(repr(a), dict(ns))
            if not (back == a and a == back and hash(back) == hash(a)):
                rep.violation("rigid.Ob: eval(repr(x)) is not equal to x", pay)
            progs.append([4, 1, [n1, z1]])
            expect.append((("repr", n1, z1, l1), repr(a)))
        for (n2, z2, l2, b) in obs:
            e = bool(a == b)
            if e != bool(b == a):
                rep.violation("Ob: equality is not symmetric", dict(pay, other=[n2, z2, l2]))
            if e != ((n1, z1) == (n2, z2)):
                rep.violation("Ob: == disagrees with sameness of name and winding number",
                              dict(pay, other=[n2, z2, l2]))
            if e and (hash(a) != hash(b) or {a: 1}.get(b) != 1):
                rep.violation("Ob: equal objects hash differently / miss as dict keys",
                              dict(pay, other=[n2, z2, l2]))
            if (a != b) == e:
                rep.violation("Ob: != is not the negation of ==", dict(pay, other=[n2, z2, l2]))
            if l1 == "ctor" and l2 == "ctor":
                progs.append([10, [[n1, z1]], [[n2, z2]]])
                expect.append((("eq", n1, z1, n2, z2), e))

    def settle(ans):
        for (what, want), a in zip(expect, ans):
            rep.disagreements_checked += 1
            got = ri.decode_str(a) if what[0] == "repr" else (a == [0, 1])
            if got != want:
                chk.disagree("corr:repr:ob", "rigid", list(what), want, got)
    chk.pending.append((progs, settle))


def numeric_tower(rep):
    """F14: payloads / names / winding numbers / offsets that are equal across
    Python's numeric tower (1 == 1.0 == True) but print differently.  Outside the
    payload universe of the model (None | int, interned names); reported as the
    known finding F14 when -- and only when -- hash-consistency fails on them."""
    from discopy import monoidal, rigid
    Ty, Box, Diagram = monoidal.Ty, monoidal.Box, monoidal.Diagram
    x, y = Ty("n1"), Ty("n2")
    s = Box("n3", Ty(), Ty())
    pairs = [
        ("Box data=1 vs data=1.0", Box("n3", x, y, data=1), Box("n3", x, y, data=1.0)),
        ("Box data=1 vs data=True", Box("n3", x, y, data=1), Box("n3", x, y, data=True)),
        ("Box data=0 vs data=False", Box("n3", x, y, data=0), Box("n3", x, y, data=False)),
        ("Box data=0 vs data=-0.0", Box("n3", x, y, data=0), Box("n3", x, y, data=-0.0)),
        ("Ty(1) vs Ty(1.0)", Ty(1), Ty(1.0)),
        ("Ty(1) vs Ty(True)", Ty(1), Ty(True)),
        ("Box name 1 vs 1.0", Box(1, x, y), Box(1.0, x, y)),
        ("rigid.Ty(Ob('n1', z=1)) vs z=True", rigid.Ty(rigid.Ob("n1", 1)), rigid.Ty(rigid.Ob("n1", True))),
        ("Diagram offsets [1] vs [True]", Diagram(x @ y, x @ y, [s], [1]), Diagram(x @ y, x @ y, [s], [True])),
        ("diagram with payload 2 vs 2.0", Box("n3", x, y, data=2) >> Box("n4", y, x),
         Box("n3", x, y, data=2.0) >> Box("n4", y, x)),
    ]
    failing, bad_eval = [], []
    for label, a, b in pairs:
        rep.case(["numeric-tower", label], nontrivial=True)
        rep.count("numeric-tower:pairs")
        if a == b and b == a:
            if hash(a) != hash(b) or {a: 1}.get(b) != 1:
                failing.append(label)
                rep.count("numeric-tower:equal-but-hash-differs")
        for v in (a, b):      # printing itself must still round-trip for each single value
            ns = dict(vars(monoidal))
            ns.update(vars(rigid) if "rigid" in label else {})
            try:
                if not (eval(repr(v), ns) == v):
                    bad_eval.append(label)
            except Exception:   # noqa
                bad_eval.append(label)
    if failing:
        rep.known_finding("F14", "values equal across the numeric tower hash differently, e.g. "
                          "Box('f', x, y, data=1) == Box('f', x, y, data=1.0) but hash(a) != hash(b) "
                          "(__hash__ goes through repr); %d of %d such pairs: %s"
                          % (len(failing), len(pairs), "; ".join(failing)))
    if bad_eval:
        rep.violation("numeric-tower values do not survive eval(repr(v))",
                      {"labels": bad_eval, "replay": "see harness/props/c03.py numeric_tower"})
    rep.extra["numeric_tower"] = {"pairs": len(pairs), "equal_but_hash_differs": failing}


def probes(rep):
    """Out-of-universe observations recorded in the evidence (neither violations
    nor known findings: outside the classes / input domain the property names)."""
    from discopy import monoidal
    Ty, Box, Sum, Bubble, Swap = monoidal.Ty, monoidal.Box, monoidal.Sum, monoidal.Bubble, monoidal.Swap
    x, y = Ty("n1"), Ty("n2")
    f, g = Box("n3", x, y), Box("n4", x, y)
    out = {}
    try:
        a, b = Sum((f, g)), Sum([f, g])
        out["Sum(tuple) == Sum(list) but hashes differ"] = bool(a == b and hash(a) != hash(b))
        a, b = Bubble(f), Bubble(g)
        out["Bubble(f) == Bubble(g) for different insides"] = bool(a == b)
        bb = Bubble(f, dom=x @ x, cod=y)
        try:
            eval(repr(bb), dict(vars(monoidal)))
            out["Bubble repr with explicit dom/cod evaluates"] = True
        except SyntaxError:
            out["Bubble repr with explicit dom/cod evaluates"] = False
        a, b = Swap(x, y), Box("Swap(n1, n2)", x @ y, y @ x)
        out["Swap(x, y) == Box('Swap(n1, n2)', ...) but hashes differ"] = bool(a == b and hash(a) != hash(b))
    except Exception as exc:   # noqa
        out["probe error"] = type(exc).__name__
    rep.extra["out_of_universe_probes"] = out


def mutable_data_stream(rep, rng, count):
    """Oracle-only stream on the real objects: boxes carrying MUTABLE data (lists, dicts, sets - the
    library documents `data` as arbitrary payload).  Equality and hash are functions of the current
    value: after the payload is updated in place, a value that was hashed before still hashes like
    an equal value built afresh, and its repr still evaluates to an equal value."""
    from discopy import monoidal, rigid
    bad = 0
    for k in range(count):
        mod = monoidal if k % 2 == 0 else rigid
        Ty, Box, Id = mod.Ty, mod.Box, mod.Id
        x, y = Ty("x"), Ty("y")
        payload = rng.choice([[1], [], {"a": 1}, [[2]], [0, 1]])
        f = Box("f", x, y, data=payload)
        g = Box("g", y, x)
        d = rng.choice([lambda: f >> g, lambda: f @ g, lambda: Id(x) @ f >> Id(x) @ g, lambda: (f >> g)[::-1]])()
        rep.count("stream:mutable-data")
        what = None
        try:
            h0 = hash(d)
            table = {d: "v"}
            if isinstance(payload, list):
                payload.append(rng.randint(5, 9))
            else:
                payload["b"] = 2
            import copy
            f2 = Box("f", x, y, data=copy.deepcopy(payload))
            fresh = {0: lambda: f2 >> g, 1: lambda: f2 @ g}
            # rebuild the same shape as d from the fresh box
            d2 = eval(repr(d), {**vars(mod), "Ob": getattr(mod, "Ob", None) or __import__("discopy.cat", fromlist=["Ob"]).Ob})
            if d != d2 or d2 != d:
                what = "repr of a diagram whose box data was updated in place does not evaluate to an equal value"
            elif hash(d) != hash(d2):
                what = ("equal diagrams hash differently after the data of a box was updated in place "
                        "(the first was hashed before the update)")
        except Exception as exc:   # noqa
            what = "mutable-data stream raised %s: %s" % (type(exc).__name__, exc)
        if what:
            bad += 1
            rep.count("oracle:mutable-data:FAIL")
            if bad <= 3:
                rep.violation(what, {"class": mod.__name__, "diagram": repr(d)})
        else:
            rep.count("oracle:mutable-data:pass")


def run(tier, seed):
    rep = Report("C03", tier, seed)
    proof_ok = common.proof_stage(rep, "C03")
    import repr_impl as ri
    record = rep.violation

    def capped(what, payload, found_input=True):     # a systematic defect fails thousands of cases:
        if found_input and len(rep.violations) >= 60:   # keep the first 60 replays, count the rest
            rep.count("violations-not-recorded")
            return
        record(what, payload, found_input)
    rep.violation = capped
    missing = ri.model_available()
    if missing:
        rep.violation(missing, {"broken": "runner/models.txt"}, found_input=False)
    else:
        chk = Checker(rep, ri)
        for cname in ("monoidal", "rigid"):
            for recipes in buckets_for(cname, tier, seed, ri):
                chk.bucket(recipes)
            box_vs_diagram(chk, cname, seed, tier)
        ob_stream(chk, seed, tier)
        chk.flush()
        cat_stream(chk, seed, tier)
        numeric_tower(rep)
        probes(rep)
    mutable_data_stream(rep, random.Random(seed + 303), 60 if tier == "quick" else 1000)
    base.settle(rep, "C03", proof_ok, "C03")
    return rep.finish(
        rule="classes monoidal and rigid, kinds object / type / box (incl. Swap, Cup, Cap) / diagram / "
             "sum: buckets of one seed value rebuilt along up to 14 routes plus up to 10 well-typed "
             "near-misses; seeds = all types of length <= 2 over two names (x three winding numbers "
             "in rigid), every box of a 25-box signature x dagger x payload {None, 0}, every diagram "
             "with <= 2 boxes over a sub-signature, hand-written scalar/offset cases, random grown "
             "diagrams (<= 5 boxes, swaps, cups, caps, payloads incl. 0 and negatives); all ordered "
             "pairs and all triples inside a bucket; box vs five wrapping / non-wrapping diagrams; "
             "cat class by oracles only; non-trivial = everything but the empty type; distinct by "
             "(class, recipe)",
        trusted_base=[t.replace("coq/Core/*.v", "coq/Core/Diagram.v + coq/Repr/Repr.v")
                      for t in base.TRUSTED_CORE],
        assumptions=["names are interned strings 'n<k>', payloads are None or an int: the model's "
                     "universe; mixing int / float / bool payloads is the separate numeric-tower "
                     "stream (known finding F14), not modelled",
                     "eval(repr(v)) is evaluated in the namespace of the class's module; for rigid "
                     "the monoidal names are visible underneath because sums of rigid diagrams are "
                     "monoidal.Sum objects",
                     "hash agreement with the model means: hash(a) == hash(b) exactly when the "
                     "model's repr strings are equal (PYTHONHASHSEED fixed; 64-bit collisions ignored)",
                     "cat.Ob / cat.Box / cat.Arrow / cat.Id / cat.Sum are checked by the oracles "
                     "only, they have no Gallina model",
                     "Python's eval is the real parser; the Gallina parse covers the grammar of the "
                     "modelled universe and is tied to it by parsing every printed string"],
        checker_cmd="make -C coq Props/C03.vo  (coqc 8.16.1, Print Assumptions parsed)")
