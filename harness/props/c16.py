"""C16 -- circuits translate to ZX diagrams denoting the same linear map.

Stages: (0) proof stage (coq/Props/C16.v); (1) EXACT SYNTACTIC correspondence of
circuit2zx(c) and of d.dagger() (boxes, offsets, spider phases as exact rationals,
scalars) between the bug-compatible model coq/ZX/ZX.v (extracted runner `zx`) and the
implementation; (2) property oracles on the implementation's results, independent of
the model: O_sem (numeric standard interpretation of the produced ZX diagram,
written here with numpy, against Circuit.eval(): proportional with one non-zero
factor), O_arity, O_accept, O_dagger (interpretation of d.dagger() = conjugate
transpose, on random ZX diagrams and on every produced diagram); (3) the harness's
numeric interpretation is itself validated against the exact zx_sem of the model on
a sample.

Known finding F13 (CRz / CRx / CU1 decomposed with `phase` where `phase / 2` is
needed, CRx moreover with the wrong colour on the control): an O_sem failure is
reported as KNOWN-FINDING only when the implementation's diagram equals the
bug-compatible model's, the model itself violates the property there (exact
computation in Cyc32) and the circuit contains a controlled rotation satisfying the
trigger (zx_impl.f13_trigger); anything else is a VIOLATION."""
import itertools
import os
import random

import numpy

import common
from common import Report

ATOL = 1e-9
F13_WHAT = ("gate2zx decomposes CRz(p), CRx(p), CU1(p) with spider phases p where p/2 is "
            "required (and CRx with X spiders on the control): circuit2zx(c) does not denote "
            "c.eval() up to a scalar as soon as c contains CRz(p) or CRx(p) with p not an even "
            "integer, or CU1(p) with p not an integer (the diagram of CRz(p) denotes CRz(2p)); "
            "minimal input circuit2zx(CRz(0.375)); invisible at phase 0, the only value the "
            "repository's tests use")

H, S, T, X, Y, Z = ([0, g, 0] for g in range(6))
SDG, TDG, YDG = [0, 1, 1], [0, 2, 1], [0, 4, 1]
CZ, SWAP = [2], [5]
CX = [3, [0, 3, 0]]


def circ(n, layers):
    return [0, n, [[off, b] for off, b in layers]]


def scal(pairs, d=1):
    nums = [0] * 16
    for j, n in pairs:
        nums[j] = n
    return [8, nums, d]


# ------------------------------------------------------------------ generators: circuits
def rand_k(rng):
    return rng.randrange(32) if rng.random() < 0.9 else rng.randint(-48, 80)


def rand_ctrl_k(rng):
    """Phases of controlled rotations stay on multiples of 1/8 turn (even k), so that the
    halves the repaired code would need are still on the grid; a third are trivial ones
    (no F13 trigger)."""
    r = rng.random()
    if r < 0.2:
        return rng.choice([0, 32, -32, 64])
    if r < 0.3:
        return rng.choice([16, -16, 48])
    return 2 * rng.randint(-20, 36)


def rand_scalar(rng):
    nums = [0] * 16
    for _ in range(rng.randint(1, 3)):
        nums[rng.randrange(16)] = rng.randint(-3, 3)
    return [8, nums, rng.choice([1, 1, 2, 3, 4])]


def rand_bits(rng, n):
    return [rng.randrange(2) for _ in range(n)]


def rand_box(rng, w, cap):
    """A supported box that fits on w wires and leaves at most cap wires."""
    opts = [("scalar", 3), ("sqrt", 2)]
    if w >= 1:
        opts += [("named", 22), ("rot", 16)]
    if w >= 2:
        opts += [("cz", 7), ("cx", 9), ("rot2", 14), ("swap", 7)]
    opts += [("bra", 7 if w else 1)]
    opts += [("ket", 8 if w < cap else 1)]
    kind = rng.choices([o for o, _ in opts], [x for _, x in opts])[0]
    if kind == "named":
        return rng.choice([H, X, Y, Z, YDG, H, X, Z])
    if kind == "rot":
        return [1, rng.choice([0, 2]), rand_k(rng)]
    if kind == "cz":
        return [2]
    if kind == "cx":
        return [3, [0, 3, 0]]
    if kind == "rot2":
        return [4, rng.randrange(3), rand_ctrl_k(rng)]
    if kind == "swap":
        return [5]
    if kind == "ket":
        room = cap - w
        return [6, rand_bits(rng, 0 if room <= 0 else min(room, rng.choice([1, 1, 1, 2, 0, 3])))]
    if kind == "bra":
        return [7, rand_bits(rng, 0 if w == 0 else min(w, rng.choice([1, 1, 1, 2, 0, 3])))]
    if kind == "scalar":
        return rand_scalar(rng)
    return [9, rng.randint(-3, 4)]


def gen_layers(zi, rng, n, nboxes, cap):
    w, layers = n, []
    for _ in range(nboxes):
        b = rand_box(rng, w, cap)
        d, c = zi.box_dom(b), zi.box_cod(b)
        layers.append((rng.randint(0, w - d), b))
        w = w - d + c
    return layers


UNSUPPORTED = [S, T, SDG, TDG, [1, 1, 5], [1, 1, 0], [3, Z], [3, H], [3, [1, 2, 4]], [3, S],
               [3, Y], [3, [1, 0, 6]]]


def case(stream, prog, expect=None):
    return {"stream": stream, "prog": prog, "expect": expect}


def corpus(zi):
    out = []
    add = lambda p, s="corpus": out.append(case(s, p))   # noqa: E731
    # the minimal inputs of F13 first (the witnesses of crz_refuted / cu1_refuted / crx_refuted)
    for r in (1, 0, 2):
        add(circ(2, [(0, [4, r, 6])]), "corpus:F13")
    for b in (H, X, Y, Z, YDG, CZ, CX, SWAP):
        add(circ(zi.box_dom(b), [(0, b)]))
    for r in (0, 2):
        for k in list(range(32)) + [-5, 37, 32, -16, 48, -33]:
            add(circ(1, [(0, [1, r, k])]))
    for r in range(3):
        for k in list(range(0, 32, 2)) + [32, -16, 48, -32, 64, -6, 38]:
            add(circ(2, [(0, [4, r, k])]))
    for n in range(4):
        for bits in itertools.product([0, 1], repeat=n):
            add(circ(0, [(0, [6, list(bits)])]))
            add(circ(n, [(0, [7, list(bits)])]))
    for sc in (scal([(0, 1)]), scal([(8, 1)]), scal([(0, -1)]), scal([(1, 1)]), scal([(0, 0)]),
               scal([(0, 1), (8, 1)], 2), scal([(0, 3)], 2), scal([(4, 1), (12, -1)], 3),
               scal([(15, 2), (3, -1)], 4)):
        add(circ(0, [(0, sc)]))
    for k in range(-3, 5):
        add(circ(0, [(0, [9, k])]))
    for n in range(4):
        add(circ(n, []))
    # every two-box circuit over a base set on two wires, every pair of offsets
    base = [H, X, Y, Z, YDG, [1, 0, 5], [1, 2, 11], CZ, CX, SWAP, [4, 0, 0], [4, 1, 32], [4, 2, 0],
            [4, 0, 6], [4, 1, 10], [4, 2, 14], [6, [1]], [7, [0]], [7, [1, 0]], scal([(8, 1)]), [9, 1]]
    for a in base:
        for b in base:
            da, ca = zi.box_dom(a), zi.box_cod(a)
            if da > 2:
                continue
            for oa in range(0, 2 - da + 1):
                w = 2 - da + ca
                db = zi.box_dom(b)
                if db > w or w - db + zi.box_cod(b) > 4:
                    continue
                for ob in range(0, w - db + 1):
                    add(circ(2, [(oa, a), (ob, b)]), "exhaustive:pairs")
    # hand-written circuits
    bell = circ(0, [(0, [6, [0, 0]]), (0, H), (0, CX)])
    ghz = circ(0, [(0, [6, [0, 0, 0]]), (0, H), (0, CX), (1, CX)])
    for p in (bell, ghz,
              circ(2, [(0, CX), (0, H), (0, [9, 1]), (0, [7, [0, 0]])]),
              circ(2, [(0, H), (1, H), (0, CZ), (0, H), (1, H)]),
              circ(2, [(0, CX), (0, SWAP), (0, CX), (0, SWAP)]),
              circ(3, [(1, CX), (0, H), (0, CZ), (2, [1, 2, 2])]),
              circ(1, [(0, [6, [1]]), (0, X), (1, [7, [1]])]),
              circ(0, [(0, [6, [1, 0]]), (0, SWAP), (0, [7, [0, 1]])]),
              circ(1, [(0, Y), (0, YDG)]), circ(1, [(0, [1, 2, 3]), (0, [1, 2, -3])]),
              circ(2, [(0, [4, 1, 0]), (0, [4, 0, 16]), (0, [4, 2, 32])]),
              circ(3, [(0, [4, 1, 6]), (1, [4, 0, 6]), (0, [7, [0]])])):
        add(p)
    return out


def malformed(zi, rng, count):
    out = []
    ax, key, nie = zi.ERR["AxiomError"], zi.ERR["KeyError"], zi.ERR["NotImplementedError"]
    while len(out) < count:
        kind = rng.choice(["offset", "unsupported", "unsupported", "mixed"])
        n = rng.randint(0, 3)
        layers = gen_layers(zi, rng, n, rng.randint(1, 6), 3)
        i = rng.randrange(len(layers))
        w = n
        for _, b in layers[:i]:
            w = w - zi.box_dom(b) + zi.box_cod(b)
        if kind == "offset":
            layers[i] = (w - zi.box_dom(layers[i][1]) + 1 + rng.randint(0, 2), layers[i][1])
            out.append(case("malformed:offset", circ(n, layers), expect=ax))
            continue
        if kind == "mixed":
            new = [10, rand_scalar(rng)[1], rng.choice([1, 2])]
        else:
            cands = [b for b in UNSUPPORTED if zi.box_dom(b) <= w]
            if not cands:
                continue
            new = rng.choice(cands)
        # replace layer i and regrow the rest so that everything fits
        head = layers[:i] + [(rng.randint(0, w - zi.box_dom(new)), new)]
        w = w - zi.box_dom(new) + zi.box_cod(new)
        tail = []
        for _ in range(rng.randint(0, 3)):
            b = rand_box(rng, w, 3)
            tail.append((rng.randint(0, w - zi.box_dom(b)), b))
            w = w - zi.box_dom(b) + zi.box_cod(b)
        out.append(case("malformed:" + kind, circ(n, head + tail),
                        expect=nie if kind == "mixed" else key))
    return out


# ------------------------------------------------------------------ generators: ZX diagrams
def rand_zscal(rng):
    r = rng.random()
    if r < 0.35:
        return [0, rng.randint(-4, 4)]
    if r < 0.55:
        return [1, rng.randrange(2)]
    s = rand_scalar(rng)
    return [2, s[1], s[2]]


def rand_zbox(rng, w, cap):
    opts = [("scalar", 2), ("spider", 12)]
    if w >= 1:
        opts.append(("had", 3))
    if w >= 2:
        opts.append(("swap", 3))
    kind = rng.choices([o for o, _ in opts], [x for _, x in opts])[0]
    if kind == "scalar":
        return [3, rand_zscal(rng)]
    if kind == "had":
        return [1]
    if kind == "swap":
        return [2]
    n = rng.randint(0, min(w, 3))
    m = rng.randint(0, max(0, min(3, cap - (w - n))))
    return [0, rng.randrange(3), n, m, rng.choice([0, 8, 16]) if rng.random() < 0.2 else rng.randint(-40, 72)]


def gen_zx(zi, rng, n, nboxes, cap):
    w, layers = n, []
    for _ in range(nboxes):
        z = rand_zbox(rng, w, cap)
        layers.append([rng.randint(0, w - zi.zbox_dom(z)), z])
        w = w - zi.zbox_dom(z) + zi.zbox_cod(z)
    return layers


def zx_cases(zi, rng, count):
    out = []
    for kind in range(3):                    # every single spider of small arity, a few phases
        for n in range(4):
            for m in range(4):
                for k in (0, 5, 8, -3, 16, 37):
                    out.append(case("zx:spider", [1, n, [[0, [0, kind, n, m, k]]]]))
    for z in ([1], [2], [3, [0, -3]], [3, [1, 0]], [3, [1, 1]], [3, [2, [1, 2] + [0] * 14, 3]]):
        out.append(case("zx:box", [1, zi.zbox_dom(z), [[0, z]]]))
    bialgebra = [1, 2, [[0, [0, 0, 1, 2, 4]], [2, [0, 0, 1, 2, 12]], [1, [2]],
                        [0, [0, 1, 2, 1, 8]], [1, [0, 1, 2, 1, 8]]]]
    out.append(case("zx:corpus", bialgebra))
    while len(out) < count:
        n = rng.randint(0, 3)
        layers = gen_zx(zi, rng, n, rng.randint(1, 7), 4)
        if rng.random() < 0.1:
            i = rng.randrange(len(layers))
            w = zi.zx_width_after(n, layers[:i])
            layers[i] = [w - zi.zbox_dom(layers[i][1]) + 1 + rng.randint(0, 2), layers[i][1]]
            out.append(case("zx:malformed", [1, n, layers], expect=zi.ERR["AxiomError"]))
        else:
            out.append(case("zx:random", [1, n, layers]))
    return out


def gen_cases(zi, rng, tier):
    scale = 1 if tier == "quick" else 8
    cases = corpus(zi)
    for _ in range(1400 * scale):
        n = rng.randint(0, 3)
        cases.append(case("random", circ(n, gen_layers(zi, rng, n, rng.randint(1, 8), 3))))
    cases += malformed(zi, rng, int(0.15 / 0.85 * len(cases)))
    cases += zx_cases(zi, rng, 700 * scale)
    return cases


# ------------------------------------------------------------------ settle
def settle(rep, zi, proof_ok):
    found = any(f for _, _, f in rep.violations)
    dis = rep.extra.get("disagreements", [])
    if dis and not found:
        first = dis[0]
        rep.violation(
            "correspondence %s no longer checks: implementation and model differ on %d case(s); "
            "no input violating the property itself was found" % (first["family"], len(dis)),
            {"broken": first["family"], "first_disagreement": first, "n_disagreements": len(dis),
             "replay": zi.snippet(first["program"])}, found_input=False)
    if not proof_ok and not found:
        rep.violation("theorems of coq/Props/C16.v no longer check",
                      {"broken": "coq/Props/C16.v", "notes": rep.notes}, found_input=False)
    rep.extra["n_disagreements"] = len(dis)
    if len(dis) > 20:
        rep.extra["disagreements"] = dis[:20]


class Verdicts:
    CAP = 3

    def __init__(self, rep, zi):
        self.rep, self.zi, self.fails = rep, zi, {}

    def ok(self, oracle):
        self.rep.count("oracle:%s:pass" % oracle)

    def fail(self, oracle, what, c, impl, model, **more):
        self.rep.count("oracle:%s:FAIL" % oracle)
        self.fails[oracle] = self.fails.get(oracle, 0) + 1
        if self.fails[oracle] > self.CAP:
            return
        p = c["prog"]
        payload = {"oracle": oracle, "stream": c["stream"], "program": p,
                   "pretty": self.zi.pretty(p), "impl": self.zi.jsonable(impl),
                   "model": self.zi.jsonable(model), "replay": self.zi.snippet(p)}
        payload.update(more)
        self.rep.violation("%s: %s" % (oracle, what), payload)


def close(x, y):
    return x.shape == y.shape and bool(numpy.allclose(x, y, atol=ATOL, rtol=0))


def syntactic_obs(zi, n, layers):
    """Observation-format diagram written directly from the program syntax (no discopy)."""
    return [0, [n, zi.zx_width_after(n, layers), [(off, zi.model_zbox(z)) for off, z in layers]]]


def float_phase_stream(rep, ver, zi, gi, rng, count):
    """Oracle-only stream on the real objects: circuits of rotations whose float phases are
    arbitrary (off the k/16 grid) and pairwise close (agree to several significant digits), so
    that any identification of distinct gates by a printed or rounded form shows.  No model is
    involved: the standard interpretation of circuit2zx(c) must be proportional to c.eval()."""
    from discopy.quantum import gates as G, circuit as C, zx as ZXM
    from discopy.quantum.circuit import Id
    bad = 0
    for i in range(count):
        n = rng.choice([1, 1, 2, 2, 3])
        base = rng.choice([rng.uniform(0, 1), rng.uniform(0, 1000), rng.uniform(-5, 5),
                           rng.randint(1, 400) + 0.25])
        eps = rng.choice([1e-3, 1e-4, 1e-6, 0.15, 1e-9])
        circ_, desc = Id(n), []
        for j in range(rng.randint(2, 5)):
            ph = base + rng.choice([0, 1, 2, 3, -1]) * eps
            kind = rng.choice(["Rz", "Rx"] + (["CRz", "CRx", "CU1"] if n >= 2 else []))
            g = getattr(G, kind)(ph)
            off = rng.randint(0, n - len(g.dom))
            circ_ = circ_ >> Id(off) @ g @ Id(n - off - len(g.dom))
            desc.append("%s(%r)@%d" % (kind, ph, off))
            if rng.random() < 0.3:
                off = rng.randint(0, n - 1)
                circ_ = circ_ >> Id(off) @ G.H @ Id(n - off - 1)
                desc.append("H@%d" % off)
        rep.count("stream:float-phases")
        try:
            d = common.with_timeout(20.0, ZXM.circuit2zx, circ_)
            m_zx = zi.interpret([0, zi.canon_zx(d)])
            arr = circ_.eval().array
            m_ev = numpy.asarray(arr, dtype=complex).reshape(2 ** n, 2 ** n).T
            ok, _ = zi.proportional(m_zx, m_ev, 1e-7)
            why = "the standard interpretation of circuit2zx(c) is not c.eval() up to a scalar"
        except Exception as exc:   # noqa: any refusal of a supported pure circuit is a failure
            ok, why = False, "circuit2zx / eval raised %s: %s" % (type(exc).__name__, exc)
        if ok:
            ver.ok("O_sem_float")
        else:
            bad += 1
            rep.count("oracle:O_sem_float:FAIL")
            if bad <= 3:
                rep.violation("float-phase circuit %s on %d qubits: %s" % (" >> ".join(desc), n, why),
                              {"oracle": "O_sem_float", "circuit": desc, "qubits": n,
                               "replay": "build the circuit with discopy.quantum.gates, compare "
                                         "circuit2zx(c) (standard interpretation) with c.eval()"})
    rep.count("float-phase-circuits", count)
    # dagger of ZX scalars whose data is a complex number of ANY numeric type: the conjugate
    import sympy
    from fractions import Fraction
    for z in (numpy.complex64(1j), numpy.complex128(2 - 1j), sympy.I, 1 + 2 * sympy.I, 1j, 0.5 - 0.25j, Fraction(1, 2), -1,
              numpy.float32(0.5)):
        rep.count("stream:scalar-dagger")
        try:
            sc = ZXM.scalar(z)
            got = complex(sc.dagger().data)
            d2 = (ZXM.Z(1, 1, 0.25) @ sc).dagger()
            inner = [complex(b.data) for b in d2.boxes if isinstance(b, ZXM.Scalar)]
            ok = abs(got - complex(z).conjugate()) < 1e-6 and len(inner) == 1 and abs(inner[0] - complex(z).conjugate()) < 1e-6
            why = "the dagger of the ZX scalar %r (%s) has data %r, not the conjugate" % (z, type(z).__name__, sc.dagger().data)
        except Exception as exc:   # noqa
            ok, why = False, "dagger of the ZX scalar %r raised %s: %s" % (z, type(exc).__name__, exc)
        if ok:
            ver.ok("O_scalar_dagger")
        else:
            rep.count("oracle:O_scalar_dagger:FAIL")
            rep.violation(why, {"oracle": "O_scalar_dagger", "data": repr(z)})


def run(tier, seed):
    import zx_impl as zi
    import gates_impl as gi
    rep = Report("C16", tier, seed)
    if os.environ.get("VERIF_C16_SKIP_PROOF") == "1":
        proof_ok = True
        rep.notes.append("proof stage skipped (VERIF_C16_SKIP_PROOF=1): harness-only run")
    else:
        proof_ok = common.proof_stage(rep, "C16")
    rng = random.Random(seed)
    cases = gen_cases(zi, rng, tier)

    # ---- the implementation
    for c in cases:
        p = c["prog"]
        c["impl"], obj = zi.observe(p)
        c["impl_dag"] = None
        if p[0] == zi.C2Z:
            if c["impl"][0] == 0:
                c["impl_dag"] = zi._guard(lambda o=obj: zi.canon_zx(o.dagger()))
            wf = zi.fits(p[1], p[2])
            c["eval"] = zi.observe_eval(p) if wf and all(zi.supported(b) for _, b in p[2]) else None
    # ---- the model, one batch
    answers = common.run_model_parallel("zx", [c["prog"] for c in cases])
    rep.programs += len(cases)
    for c, ans in zip(cases, answers):
        if ans[0] == 1 and ans[1] in (7, 8):
            raise RuntimeError("model could not run %r: %r" % (c["prog"], ans))
        c["model"], c["model_ok"] = zi.model_diagram(ans)

    # ---- validation of the numeric interpretation against the exact zx_sem of the model
    sample = []
    for c in cases:
        p = c["prog"]
        if p[0] == zi.ZXDAG and zi.zx_fits(p[1], p[2]):
            sample.append((c, [2, p[1], p[2]], syntactic_obs(zi, p[1], p[2])))
    limit = 400 if tier == "quick" else 3000
    if len(sample) > limit:
        sample = rng.sample(sample, limit)
    sem_answers = common.run_model_parallel("zx", [q for _, q, _ in sample])
    rep.programs += len(sample)
    bad_sem = []
    for (c, q, obs), ans in zip(sample, sem_answers):
        m = zi.model_sem(ans)
        if m[0] != 0:
            bad_sem.append({"program": q, "model": m})
            continue
        want = zi.interpret(obs)
        if not close(gi.out_in(m), want):
            bad_sem.append({"program": q, "pretty": zi.pretty(q), "model": zi.matrix_json(gi.out_in(m)),
                            "harness": zi.matrix_json(want)})
    rep.count("evaluator-vs-zx_sem:checked", len(sample))
    if bad_sem:
        rep.count("evaluator-vs-zx_sem:MISMATCH", len(bad_sem))
        rep.violation("the harness's numeric standard interpretation and the model's exact zx_sem "
                      "disagree on %d of %d ZX diagrams" % (len(bad_sem), len(sample)),
                      {"broken": "harness/zx_impl.py interpret vs coq/ZX/ZX.v zx_sem",
                       "mismatches": bad_sem[:5]}, found_input=False)

    ver = Verdicts(rep, zi)
    lam_checked = lam_bad = 0
    for c in cases:
        p, impl, model = c["prog"], c["impl"], c["model"]
        layers = [(off, b) for off, b in p[2]]
        is_c2z = p[0] == zi.C2Z
        # ---- bookkeeping
        rep.case(p, nontrivial=(len(layers) >= 2 or impl[0] == 1),
                 sample={"program": zi.pretty(p), "stream": c["stream"],
                         "impl": "%d -> %d wires, %d boxes" % (impl[1][0], impl[1][1], len(impl[1][2]))
                         if impl[0] == 0 else "raises " + zi.err_name(impl[1])})
        rep.count("stream:" + c["stream"])
        rep.count(("boxes:%d" % len(layers)) if len(layers) < 9 else "boxes:9+")
        rep.count("outcome:" + ("value" if impl[0] == 0 else zi.err_name(impl[1])))
        if is_c2z:
            for _, b in layers:
                rep.count("box:" + ("mixed-scalar" if b[0] == zi.B_MIXED else gi.KIND[b[0]]))
        else:
            for _, z in layers:
                rep.count("zbox:" + ("spider-" + zi.KINDS[z[1]] if z[0] == 0 else ["", "H", "SWAP", "scalar"][z[0]]))
        # ---- exact syntactic correspondence (not yet a violation)
        rep.disagreements_checked += 1
        corr = zi.same_outcome(impl, model)
        if not corr:
            rep.extra.setdefault("disagreements", []).append(
                {"family": "corr:circuit2zx" if is_c2z else "corr:zx-dagger", "program": p,
                 "pretty": zi.pretty(p), "impl": zi.jsonable(impl), "model": zi.jsonable(model)})
        rep.count("corr:" + ("agree" if corr else "DISAGREE"))

        if not is_c2z:
            # ---- O_dagger on ZX diagrams
            if c["expect"] is not None:
                if impl == [1, c["expect"]]:
                    ver.ok("O_refuse")
                else:
                    ver.fail("O_refuse", "ill-typed ZX diagram must raise %s but %s" % (
                        zi.err_name(c["expect"]),
                        "is built" if impl[0] == 0 else "raises " + zi.err_name(impl[1])), c, impl, model)
                continue
            if impl[0] == 1:
                ver.fail("O_dagger", "the dagger of a well-typed ZX diagram raises %s"
                         % zi.err_name(impl[1]), c, impl, model)
                continue
            src = syntactic_obs(zi, p[1], p[2])
            try:
                got, want = zi.interpret(impl), zi.interpret(src).conj().T
                good = impl[1][0] == src[1][1] and impl[1][1] == src[1][0] and close(got, want)
            except ValueError:
                good = False
            if good:
                ver.ok("O_dagger")
            else:
                ver.fail("O_dagger", "the standard interpretation of d.dagger() is not the conjugate "
                         "transpose of the interpretation of d", c, impl, model)
            continue

        # ---- circuits: refusals / acceptance
        sup = all(zi.supported(b) for _, b in layers)
        wf = zi.fits(p[1], layers)
        if c["expect"] is not None or not (sup and wf):
            rep.count("refusal-cases")
            if c["expect"] is not None and impl != [1, c["expect"]]:
                rep.count("refusal:unexpected-outcome:" + (
                    "value" if impl[0] == 0 else zi.err_name(impl[1])))
            continue
        if impl[0] == 1:
            ver.fail("O_accept", "circuit2zx refuses a pure circuit over the supported gates with %s"
                     % zi.err_name(impl[1]), c, impl, model)
            continue
        ver.ok("O_accept")
        trig = any(zi.f13_trigger(b) for _, b in layers)
        if trig:
            rep.count("f13-trigger-present")
        # ---- O_arity
        cod = zi.width_after(p[1], layers)
        try:
            m_zx = zi.interpret(impl)
            arity_ok = impl[1][0] == p[1] and impl[1][1] == cod
        except ValueError:
            m_zx, arity_ok = None, False
        if arity_ok:
            ver.ok("O_arity")
        else:
            ver.fail("O_arity", "circuit2zx(c) does not have c's numbers of input and output wires "
                     "(or is ill-typed)", c, impl, model)
            continue
        # ---- O_sem
        ev = c["eval"]
        if ev is None or ev[0] != 0:
            ver.fail("O_sem", "the circuit itself does not evaluate (%s)"
                     % ("not evaluated" if ev is None else gi.err_name(ev[1])), c, impl, model)
            continue
        m_ev = gi.out_in(ev)
        ok, lam = zi.proportional(m_zx, m_ev, ATOL)
        if ok:
            ver.ok("O_sem")
            if c["model_ok"] is False and corr:
                rep.extra.setdefault("disagreements", []).append(
                    {"family": "corr:sem-verdict", "program": p, "pretty": zi.pretty(p),
                     "impl": "numeric oracle: proportional", "model": "exact: not proportional"})
            if not trig and numpy.any(abs(m_ev) > ATOL):
                lam_checked += 1
                if abs(lam - zi.expected_lambda(layers)) > 1e-8:
                    lam_bad += 1
        else:
            known = corr and c["model_ok"] is False and trig
            if known:
                rep.count("oracle:O_sem:known-F13")
                rep.known_finding("F13", F13_WHAT)
            else:
                ver.fail("O_sem", "the standard interpretation of circuit2zx(c) is not c.eval() up to "
                         "a non-zero scalar factor", c, impl, model,
                         zx_interpretation=zi.matrix_json(m_zx), circuit_eval=zi.matrix_json(m_ev),
                         f13_trigger=trig, same_as_model=corr, model_violates=(c["model_ok"] is False))
        # ---- O_dagger on the produced diagram
        dag = c["impl_dag"]
        if dag is not None:
            try:
                good = dag[0] == 0 and dag[1][0] == impl[1][1] and dag[1][1] == impl[1][0] \
                    and close(zi.interpret(dag), m_zx.conj().T)
            except ValueError:
                good = False
            if good:
                ver.ok("O_dagger")
            else:
                ver.fail("O_dagger", "the interpretation of circuit2zx(c).dagger() is not the "
                         "conjugate transpose of that of circuit2zx(c)", c, impl, model,
                         impl_dagger=zi.jsonable(dag))
    float_phase_stream(rep, ver, zi, gi, rng, 150 if tier == "quick" else 1500)
    if tier == "thorough":
        # the same programs through vm_compute inside coqc and through the extracted runner
        common.cross_check_extraction(rep, "zx", ["DV.Common.Base", "DV.ZX.ZXProg"], "run_sexp",
                                      [c["prog"] for c in cases], rng, n=150)
    rep.extra["oracle_failures"] = ver.fails
    rep.extra["scalar_factor_as_in_theorem"] = {"checked": lam_checked, "different": lam_bad}
    rep.extra["impl_counts"] = dict(zi.COUNTS, unknown_classes=list(zi.UNKNOWN_CLASSES))
    settle(rep, zi, proof_ok)
    return rep.finish(
        rule="corpus (F13 minimal inputs CRz/CU1/CRx(3/8) first; every single-box circuit: H X Y "
             "Y.dagger() Z CX CZ SWAP, Rx Rz at all 32 grid phases and some outside, CU1 CRz CRx at "
             "all multiples of 1/8 turn and some outside, Ket / Bra of all bitstrings <= 3, scalars, "
             "sqrt(2 ** k), identities; EXHAUSTIVE: every two-box circuit over 21 base boxes on two "
             "wires with every pair of offsets; Bell, GHZ, ...), random well-typed circuits on 0..3 "
             "qubits with <= 8 boxes, ~15% malformed (unsupported gates S T Sdg Tdg Ry Controlled(g), "
             "mixed scalars, out-of-range offsets); ZX diagrams for the dagger: every Z / X / Y spider "
             "of arities <= 3 x 6 phases, every other box, random diagrams (width <= 4, <= 7 boxes, "
             "10% ill-typed); non-trivial = at least 2 boxes or a refusal; distinct by program",
        trusted_base=[
            "Coq 8.16.1 kernel (coqc full .vo build; no native_compute; vm_compute in the F13 "
            "witnesses and the non-vacuity examples)",
            "hand-written Gallina model coq/ZX/ZX.v of discopy/quantum/zx.py (gate2zx, circuit2zx "
            "as the functor loop, dagger rules) and of the standard interpretation; tied to /repo "
            "only by this run's exact syntactic correspondence",
            "coq/Quantum/Gates.v [eval] as the meaning of Circuit.eval() (validated by C11)",
            "extraction: ExtrOcamlBasic directives only; no Extract Constant; OCaml 4.13.1; "
            "runner/main.ml (tokenizer, printer, int<->Z)",
            "Python harness: generators, canonical observation, numpy standard interpretation "
            "(validated on every run against the model's exact zx_sem), oracles; CPython 3.12, numpy",
            "Circuit.eval() of the implementation as the reference of the semantic oracle (C11)",
        ],
        assumptions=[
            "floating point: comparisons at absolute tolerance 1e-9 (scalars in the syntactic "
            "correspondence at 1e-12); phases on the grid k/16, exact in binary; controlled "
            "rotations on multiples of 1/8 turn so that the halves a repaired gate2zx needs stay "
            "on the grid",
            "the standard interpretation of a Y spider is the Z spider in the eigenbasis "
            "(|0> +- i|1>)/sqrt2 of Y (no Y spider is produced by gate2zx)",
            "known finding F13 (CRz / CRx / CU1): recognised only when implementation == "
            "bug-compatible model, the model violates the property there and the trigger holds",
        ],
        checker_cmd="make -C coq Props/C16.vo  (coqc 8.16.1, Print Assumptions parsed)")
