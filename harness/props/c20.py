"""C20 -- the drawing layout is a faithful planar embedding of the diagram.

Stages: (1) theorems of coq/Props/C20.v re-checked; (2) correspondence of
drawing.diagram2nx with the extracted Gallina model coq/Draw/Layout.v on exact
rationals; (3) an independent geometric oracle on every layout the
implementation returns; (4) a smoke *test* of both drawing back-ends; (5) the
diagramize / nx2diagram round trip for planar-order bodies."""
import json
import random
import tempfile
import time
from fractions import Fraction

import common
from common import Report
from props import base

FAMILY = "corr:draw:diagram2nx"
FAMILY_NX = "corr:draw:nx2diagram"
QUARTER, ONE = Fraction(1, 4), Fraction(1)
MAX_DEN_EXP = 40


def snippet(program):
    return ("cd /verif/harness && MPLBACKEND=Agg PYTHONPATH=/verif/harness:%s /venv/bin/python -B -c "
            "\"import draw_impl as di; print(di.explain('%s'))\""
            % (common.REPO, json.dumps(program)))


# ------------------------------------------------------------------ model side
def canon_model(answer):
    """The runner's answer (0 (nodes edges)) | (1 code) as [0, nodes, sorted edges],
    every coordinate reduced to lowest terms."""
    if answer[0] != 0:
        return answer
    nodes, edges = answer[1]
    out = []
    for key, xn, xd, yn, yd in nodes:
        x, y = Fraction(xn, xd), Fraction(yn, yd)
        out.append([key, x.numerator, x.denominator, y.numerator, y.denominator])
    return [0, out, sorted(edges)]


def canon_impl(outcome):
    if outcome[0] != 0:
        return outcome
    out = []
    for key, xn, xd, yn, yd in outcome[1]:
        x, y = Fraction(xn, xd), Fraction(yn, yd)
        out.append([key, x.numerator, x.denominator, y.numerator, y.denominator])
    return [0, out, sorted(outcome[2])]


# ------------------------------------------------------------------ the oracle
def _key(node):
    """(kind, depth, i) of a drawing.Node, read off its attributes."""
    kind = node.kind
    if kind in ("input", "output"):
        return (kind, None, node.i)
    if kind == "box":
        return ("box", node.depth, None)
    if kind in ("dom", "cod"):
        return (kind, node.depth, node.i)
    return (kind, getattr(node, "depth", None), getattr(node, "i", None))


def oracle(d, graph, pos):
    """Direct statement of C20 on what diagram2nx returned for diagram d.
    Uses only d's public attributes (dom, cod, boxes, offsets), the graph and
    the positions; never the model.  Returns (failures, stats)."""
    bad, stats = [], {"den_exp": 0, "weak_only": 0}
    boxes, offsets, n = list(d.boxes), list(d.offsets), len(d.boxes)
    # ---- (i) the node set
    want = {}
    for i, ob in enumerate(d.dom):
        want[("input", None, i)] = ob
    for i, ob in enumerate(d.cod):
        want[("output", None, i)] = ob
    for j, box in enumerate(boxes):
        want[("box", j, None)] = box
        for i, ob in enumerate(box.dom):
            want[("dom", j, i)] = ob
        for i, ob in enumerate(box.cod):
            want[("cod", j, i)] = ob
    have = {}
    for node in pos:
        k = _key(node)
        if k in have:
            bad.append("(i) two positioned nodes for %s" % (k,))
        have[k] = node
    gkeys = [_key(node) for node in graph.nodes]
    if len(set(gkeys)) != len(gkeys) or set(gkeys) != set(have):
        bad.append("(i) graph.nodes and the keys of pos do not coincide")
    missing = sorted(map(str, set(want) - set(have)))
    extra = sorted(map(str, set(have) - set(want)))
    if missing:
        bad.append("(i) missing nodes %s" % ", ".join(missing[:4]))
    if extra:
        bad.append("(i) unexpected nodes %s" % ", ".join(extra[:4]))
    for k, node in have.items():
        if k not in want:
            continue
        if k[0] == "box":
            if not (node.box == want[k] and node.box.name == want[k].name):
                bad.append("(i) box node %s carries box %r" % (k, node.box))
        elif node.obj != want[k]:
            bad.append("(i) node %s carries object %r, expected %r" % (k, node.obj, want[k]))
    if bad:
        return bad, stats
    # ---- (ii) the wiring, recomputed by scanning
    scan = [("input", None, i) for i in range(len(d.dom))]
    scans, wires, edges = [list(scan)], [], []
    for j, (box, off) in enumerate(zip(boxes, offsets)):
        nd, nc = len(box.dom), len(box.cod)
        for i in range(nd):
            wires.append((scan[off + i], ("dom", j, i)))
            edges.append((("dom", j, i), ("box", j, None)))
        for i in range(nc):
            edges.append((("box", j, None), ("cod", j, i)))
        scan = scan[:off] + [("cod", j, i) for i in range(nc)] + scan[off + nd:]
        scans.append(list(scan))
    if len(scan) != len(d.cod):
        bad.append("(ii) the scan ends with %d wires, cod has %d" % (len(scan), len(d.cod)))
        return bad, stats
    for i in range(len(d.cod)):
        wires.append((scan[i], ("output", None, i)))
    got = sorted(((_key(a), _key(b)) for a, b in graph.edges()), key=str)
    if got != sorted(wires + edges, key=str):
        lost = [e for e in wires + edges if e not in got]
        more = [e for e in got if e not in wires + edges]
        bad.append("(ii) edges differ from the wiring: missing %s, unexpected %s"
                   % (lost[:3], more[:3]))
        return bad, stats
    # ---- (viii) exact coordinates
    X, Y = {}, {}
    for k, node in have.items():
        try:
            x, y = Fraction(pos[node][0]), Fraction(pos[node][1])
        except (ValueError, OverflowError, TypeError):
            bad.append("(viii) node %s has a non-finite coordinate %r" % (k, pos[node]))
            return bad, stats
        for v in (x, y):
            den = v.denominator
            if den & (den - 1) or den.bit_length() - 1 > MAX_DEN_EXP:
                bad.append("(viii) coordinate %s of %s is not a small dyadic rational" % (v, k))
            stats["den_exp"] = max(stats["den_exp"], den.bit_length() - 1)
        X[k], Y[k] = x, y
    # ---- (iii) open wires strictly increasing, gap >= 1, at every height
    for j, row in enumerate(scans):
        for a, b in zip(row, row[1:]):
            if not X[b] - X[a] >= ONE:
                bad.append("(iii) at height %d wires %s, %s are at x = %s, %s"
                           % (j, a, b, X[a], X[b]))
    # ---- (iv) wires are vertical
    for a, b in wires:
        if X[a] != X[b]:
            bad.append("(iv) wire %s -> %s goes from x = %s to x = %s" % (a, b, X[a], X[b]))
    # ---- (v) every edge points downwards; layers do not interleave
    for a, b in wires + edges:
        if not Y[a] > Y[b]:
            bad.append("(v) edge %s -> %s goes from y = %s to y = %s" % (a, b, Y[a], Y[b]))
    for j, box in enumerate(boxes):
        top = [Y[("dom", j, i)] for i in range(len(box.dom))]
        bot = [Y[("cod", j, i)] for i in range(len(box.cod))]
        if len(set(top)) > 1 or len(set(bot)) > 1:
            bad.append("(v) ports of box %d are not level" % j)
        if j + 1 < n:
            low = min(bot + [Y[("box", j, None)]])
            nxt = max([Y[("dom", j + 1, i)] for i in range(len(boxes[j + 1].dom))]
                      + [Y[("box", j + 1, None)]])
            if not low > nxt:
                bad.append("(v) box %d (down to y = %s) is not above box %d (up to y = %s)"
                           % (j, low, j + 1, nxt))
    # ---- (vi) every box strictly between its neighbouring wires
    spans = []
    for j, (box, off) in enumerate(zip(boxes, offsets)):
        nd, nc, row = len(box.dom), len(box.cod), scans[j]
        left = row[off - 1] if off > 0 else None
        right = row[off + nd] if off + nd < len(row) else None
        me = ("box", j, None)
        doms = [("dom", j, i) for i in range(nd)]
        cods = [("cod", j, i) for i in range(nc)]
        if left is not None and not X[left] < X[me]:
            bad.append("(vi) box %d at x = %s is not right of wire %s at x = %s"
                       % (j, X[me], left, X[left]))
        if right is not None and not X[me] < X[right]:
            bad.append("(vi) box %d at x = %s is not left of wire %s at x = %s"
                       % (j, X[me], right, X[right]))
        for p in doms + cods:
            for nb, sign in ((left, 1), (right, -1)):
                if nb is None:
                    continue
                gap = (X[p] - X[nb]) * sign
                if not gap > 0:
                    bad.append("(vi) port %s of box %d at x = %s is not strictly %s wire %s "
                               "at x = %s" % (p, j, X[p], "right of" if sign > 0 else "left of",
                                              nb, X[nb]))
                elif not gap >= ONE:
                    stats["weak_only"] += 1
                    if not gap > QUARTER:
                        bad.append("(vi) port %s of box %d is only %s away from wire %s: the "
                                   "box overlaps the wire" % (p, j, gap, nb))
        for ports, what in ((doms, "dom"), (cods, "cod")):
            for a, b in zip(ports, ports[1:]):
                if not X[b] - X[a] >= ONE:
                    bad.append("(vi) %s ports %s, %s of box %d at x = %s, %s"
                               % (what, a, b, j, X[a], X[b]))
        xs = [X[p] for p in doms + cods]
        if xs and not min(xs) <= X[me] <= max(xs):
            bad.append("(vi) box %d at x = %s lies outside its ports [%s, %s]"
                       % (j, X[me], min(xs), max(xs)))
        spans.append((min(xs + [X[me]]), max(xs + [X[me]])))
    # ---- (vii) hence no crossing; checked directly
    for j, (box, off) in enumerate(zip(boxes, offsets)):
        nd, top, bottom = len(box.dom), scans[j], scans[j + 1]
        for row, what in ((top, "top"), (bottom, "bottom")):
            if sorted(row, key=lambda k: X[k]) != row or len({X[k] for k in row}) != len(row):
                bad.append("(vii) wires at the %s of layer %d are not in planar order" % (what, j))
        lo, hi = spans[j]
        for k in top[:off]:
            if not X[k] < lo - QUARTER:
                bad.append("(vii) wire %s at x = %s runs through box %d spanning [%s, %s]"
                           % (k, X[k], j, lo, hi))
        for k in top[off + nd:]:
            if not X[k] > hi + QUARTER:
                bad.append("(vii) wire %s at x = %s runs through box %d spanning [%s, %s]"
                           % (k, X[k], j, lo, hi))
    segs = [(X[a], Y[a], Y[b], a, b) for a, b in wires]
    for s, (x, y1, y0, a, b) in enumerate(segs):
        for x2, z1, z0, a2, b2 in segs[s + 1:]:
            if x == x2 and min(y1, z1) > max(y0, z0):
                bad.append("(vii) wires %s -> %s and %s -> %s overlap at x = %s"
                           % (a, b, a2, b2, x))
        for j, (lo, hi) in enumerate(spans):
            if b == ("dom", j, b[2]) or a == ("cod", j, a[2]):
                continue
            yb = Y[("box", j, None)]
            if y1 > yb - QUARTER and y0 < yb + QUARTER and lo - QUARTER <= x <= hi + QUARTER:
                bad.append("(vii) wire %s -> %s at x = %s passes through box %d" % (a, b, x, j))
    stats["wires"] = len(wires)
    return bad, stats


# ------------------------------------------------------------------ generators
CORPUS = [
    [0, 0, [], []],                                             # the empty diagram
    [1, 1, [], []], [2, 2, [], []], [3, 3, [], []],             # identities
    [0, 0, [[0, 0]], [0]],                                      # scalar alone
    [0, 0, [[0, 0], [0, 0]], [0, 0]], [0, 0, [[0, 0], [0, 0], [0, 0]], [0, 0, 0]],
    [1, 1, [[0, 0]], [0]], [1, 1, [[0, 0]], [1]],
    [2, 2, [[0, 0]], [0]], [2, 2, [[0, 0]], [1]], [2, 2, [[0, 0]], [2]],
    [3, 3, [[0, 0]], [0]], [3, 3, [[0, 0]], [1]], [3, 3, [[0, 0]], [2]], [3, 3, [[0, 0]], [3]],
    [2, 2, [[0, 0], [0, 0], [0, 0]], [1, 1, 1]],                # scalars at the same offset
    [2, 2, [[0, 0], [0, 0], [0, 0]], [0, 0, 0]], [2, 2, [[0, 0], [0, 0], [0, 0]], [2, 2, 2]],
    [2, 2, [[0, 0], [0, 0], [0, 0]], [0, 1, 2]], [2, 2, [[0, 0], [0, 0], [0, 0]], [2, 1, 0]],
    [0, 1, [[0, 1]], [0]], [0, 2, [[0, 2]], [0]], [0, 3, [[0, 3]], [0]],   # states on nothing
    [2, 3, [[0, 1]], [0]], [2, 3, [[0, 1]], [1]], [2, 3, [[0, 1]], [2]],   # states: left, middle, right
    [2, 4, [[0, 2]], [0]], [2, 4, [[0, 2]], [1]], [2, 4, [[0, 2]], [2]],
    [2, 5, [[0, 3]], [0]], [2, 5, [[0, 3]], [1]], [2, 5, [[0, 3]], [2]],
    [3, 2, [[1, 0]], [0]], [3, 2, [[1, 0]], [1]], [3, 2, [[1, 0]], [2]],   # effects
    [3, 1, [[2, 0]], [0]], [3, 1, [[2, 0]], [1]], [3, 0, [[3, 0]], [0]],
    [4, 2, [[2, 0]], [1]], [1, 0, [[1, 0]], [0]],
    [1, 0, [[1, 0], [0, 0]], [0, 0]], [1, 2, [[1, 0], [0, 2]], [0, 0]],    # empty scan in the middle
    [1, 3, [[1, 0], [0, 3]], [0, 0]], [2, 2, [[2, 0], [0, 2]], [0, 0]],
    [3, 5, [[1, 3]], [1]], [3, 5, [[1, 3]], [0]], [3, 5, [[1, 3]], [2]],   # a box wider than its neighbours
    [3, 7, [[1, 3], [1, 3]], [1, 2]], [3, 7, [[1, 3], [1, 3]], [1, 1]], [3, 7, [[1, 3], [1, 3]], [1, 3]],
    [2, 6, [[1, 3], [1, 3]], [0, 3]], [2, 6, [[1, 3], [1, 3]], [1, 0]],
    [3, 7, [[1, 3], [1, 3]], [0, 4]], [3, 9, [[1, 3], [1, 3], [1, 3]], [1, 2, 3]],
    [2, 4, [[0, 2], [0, 2], [2, 0], [0, 2]], [1, 2, 2, 2]],                # wide boxes above narrow gaps
    [2, 5, [[0, 3]], [1]], [2, 8, [[0, 3], [0, 3]], [1, 3]], [2, 8, [[0, 3], [0, 3]], [1, 1]],
    [3, 3, [[2, 3], [3, 2]], [0, 0]], [3, 3, [[2, 3], [3, 2]], [1, 1]],
    [3, 3, [[2, 2]], [0]], [3, 3, [[2, 2]], [1]], [3, 3, [[3, 3]], [0]],   # nd == nc: ports reuse the wires' x
    [3, 3, [[1, 1], [1, 1], [1, 1]], [0, 1, 2]], [3, 3, [[1, 1], [1, 1], [1, 1]], [1, 1, 1]],
    [2, 2, [[0, 2], [2, 2], [2, 0]], [1, 1, 1]], [1, 3, [[1, 3], [3, 3], [2, 2]], [0, 0, 1]],
    [1, 1, [[0, 2], [2, 0]], [1, 0]], [1, 1, [[0, 2], [2, 0]], [0, 1]],    # snakes
    [2, 2, [[0, 2], [2, 0]], [1, 0]], [2, 2, [[0, 2], [2, 0]], [1, 2]],
    [0, 0, [[0, 2], [2, 0]], [0, 0]], [0, 0, [[0, 2], [0, 2], [2, 0], [2, 0]], [0, 1, 1, 0]],
    [0, 0, [[0, 2], [0, 2], [2, 0], [2, 0]], [0, 2, 0, 0]],
    [1, 1, [[0, 2], [0, 2], [2, 0], [2, 0]], [1, 2, 1, 0]],                # double snake
    [2, 1, [[2, 1]], [0]], [1, 2, [[1, 2]], [0]], [2, 2, [[1, 2], [2, 1]], [0, 1]],
    [2, 2, [[2, 1], [1, 2]], [0, 0]], [3, 1, [[2, 1], [2, 1]], [0, 0]], [3, 1, [[2, 1], [2, 1]], [1, 0]],
    [4, 1, [[2, 1], [2, 1], [2, 1]], [0, 1, 0]], [1, 4, [[1, 2], [1, 2], [1, 2]], [0, 1, 0]],
    # proper fractions: box x = 9/4, 3/4, 1/4, 13/4 (LayoutLemmas.ex_positions, the
    # non-vacuity example of the Coq development)
    [3, 1, [[2, 1], [0, 2], [3, 0], [0, 0]], [1, 1, 0, 1]],
    # malformed
    [2, 1, [[2, 1]], [1]], [2, 1, [[2, 1]], [-1]], [2, 1, [[2, 1]], []], [2, 1, [[2, 1]], [0, 0]],
    [2, 2, [[2, 1]], [0]], [2, 0, [[2, 1]], [0]], [1, 1, [[2, 1]], [0]], [0, 1, [], []],
    [1, 0, [], []], [0, 0, [], [0]], [0, 0, [[0, 0]], [1]], [0, 0, [[0, 0]], [-1]],
    [2, 2, [[0, 0]], [3]], [2, 3, [[0, 1]], [3]], [3, 2, [[1, 0]], [3]],
]


def gen_exhaustive(max_dom, max_boxes, max_arity=2):
    out = []

    def rec(dom, w, boxes, offs):
        out.append([dom, w, [list(b) for b in boxes], list(offs)])
        if len(boxes) == max_boxes:
            return
        for nd in range(min(w, max_arity) + 1):
            for nc in range(max_arity + 1):
                for off in range(w - nd + 1):
                    rec(dom, w - nd + nc, boxes + [(nd, nc)], offs + [off])
    for dom in range(max_dom + 1):
        rec(dom, dom, [], [])
    return out


def gen_exhaustive_malformed():
    """Every one-box program over a small range of offsets and codomain widths,
    well-formed or not."""
    out = []
    for dom in range(3):
        for nd in range(3):
            for nc in range(3):
                for off in range(-1, dom + 2):
                    for cod in range(dom + 4):
                        out.append([dom, cod, [[nd, nc]], [off]])
    return out


def gen_random(rng, max_width, max_depth, max_arity=3):
    dom = rng.randint(0, max_width)
    w, boxes, offs = dom, [], []
    flavour = rng.random()
    for _ in range(rng.randint(0, max_depth)):
        r = rng.random()
        if r < 0.10:
            nd, nc = 0, 0                                   # scalar
        elif r < 0.25:
            nd, nc = 0, rng.randint(1, max_arity)           # state
        elif r < 0.40 and w:
            nd, nc = rng.randint(1, min(w, max_arity)), 0   # effect
        elif r < 0.50 and w:
            nd = rng.randint(1, min(w, max_arity))          # same arity both sides
            nc = nd
        else:
            nd, nc = rng.randint(0, min(w, max_arity)), rng.randint(0, max_arity)
        if flavour < 0.2 and nc:
            nc = max_arity                                   # wide boxes
        if w - nd + nc > max_width:
            nc = max(0, max_width - w + nd)
        slots = w - nd
        if flavour > 0.8:
            off = rng.choice([0, slots])                     # hug the borders
        else:
            off = rng.randint(0, slots)
        boxes.append([nd, nc])
        offs.append(off)
        w = w - nd + nc
    return [dom, w, boxes, offs]


def mutate(rng, p):
    """A (most probably) malformed variant of a well-formed program."""
    dom, cod, boxes, offs = p[0], p[1], [list(b) for b in p[2]], list(p[3])
    widths, w = [], dom
    for nd, nc in boxes:
        widths.append(w)
        w = w - nd + nc
    kind = rng.choice(["off+", "off-", "fat", "cod", "len-", "len+", "boxes-"]
                      if boxes else ["cod", "len+"])
    j = rng.randrange(len(boxes)) if boxes else 0
    if kind == "off+":
        offs[j] = widths[j] - boxes[j][0] + rng.randint(1, 3)
    elif kind == "off-":
        offs[j] = -rng.randint(1, 3)
    elif kind == "fat":
        boxes[j][0] = widths[j] - offs[j] + rng.randint(1, 2)
    elif kind == "cod":
        cod = max(0, cod + rng.choice([-2, -1, 1, 2]))
        if cod == p[1]:
            cod += 1
    elif kind == "len-":
        offs.pop(rng.randrange(len(offs)))
    elif kind == "len+":
        offs.insert(rng.randint(0, len(offs)), rng.randint(0, 2))
    elif kind == "boxes-":
        boxes.pop(j)
    return kind, [dom, cod, boxes, offs]


def gen_four_boxes(dom, rng, rate):
    """The diagrams with exactly four boxes (arities 0..2) from `dom` wires,
    each kept with probability `rate` (rate >= 1: all of them)."""
    out = []

    def rec(w, boxes, offs):
        if len(boxes) == 4:
            if rate >= 1 or rng.random() < rate:
                out.append([dom, w, [list(b) for b in boxes], list(offs)])
            return
        for nd in range(min(w, 2) + 1):
            for nc in range(3):
                for off in range(w - nd + 1):
                    rec(w - nd + nc, boxes + [(nd, nc)], offs + [off])
    rec(dom, [], [])
    return out


FOUR_BOX_RATES = {0: 1.0, 1: 0.15, 2: 0.05, 3: 0.02}     # thorough tier only


def generate(tier, rng):
    quick = tier == "quick"
    cases = [("corpus", p) for p in CORPUS]
    small = gen_exhaustive(2 if quick else 3, 3)
    cases += [("exhaustive", p) for p in small]
    if not quick:
        for dom, rate in sorted(FOUR_BOX_RATES.items()):
            stream = "exhaustive" if rate >= 1 else "exhaustive4-sampled"
            cases += [(stream, p) for p in gen_four_boxes(dom, rng, rate)]
    cases += [("exhaustive-malformed", p) for p in gen_exhaustive_malformed()]
    n_random = 600 if quick else 6000
    width, depth = (6, 10) if quick else (8, 14)
    randoms = [gen_random(rng, width, depth) for _ in range(n_random)]
    cases += [("random", p) for p in randoms]
    # ill-formed programs: about 15 % of everything, mutated from both streams
    n_bad = int(0.15 / 0.85 * len(cases)) - len(gen_exhaustive_malformed())
    for _ in range(max(n_bad, 100)):
        source = rng.choice(randoms) if rng.random() < 0.5 else rng.choice(small)
        kind, p = mutate(rng, source)
        cases.append(("malformed:" + kind, p))
    seen, out = set(), []
    for stream, p in cases:
        s = common.to_sexp(p)
        if s not in seen:
            seen.add(s)
            out.append((stream, p))
    return out


# ------------------------------------------------------------------ smoke test, round trips
def expected_drawn(d):
    """(number of wire segments, number of boxes) Diagram.draw has to draw."""
    wires = sum(len(b.dom) for b in d.boxes) + len(d.cod)
    return wires, len(d.boxes)


def smoke(rep, di, directory, index, p, d, state):
    t0 = time.time()
    try:
        out = di.render(d, directory, "d%d" % index)
    except Exception as exc:   # noqa: any exception of a back-end is a failure
        rep.violation("drawing back-end raised %s on a diagram with a wire or a box"
                      % type(exc).__name__,
                      {"program": p, "stage": "back-ends",
                       "exception": "%s: %s" % (type(exc).__name__, exc),
                       "replay": snippet_render(p)})
        state["failed"] += 1
        return
    finally:
        state["seconds"] += time.time() - t0
    state["rendered"] += 1
    wires, nboxes = expected_drawn(d)
    text = out["tikz"]
    problem = None
    if out["png"] <= 0:
        problem = "matplotlib back-end wrote no image"
    elif not text:
        problem = "TikZ back-end wrote nothing"
    elif text.count("\\draw") != wires + nboxes:
        problem = "TikZ output has %d \\draw commands for %d wires and %d boxes" % (
            text.count("\\draw"), wires, nboxes)
    elif text.count("\\node") < 1 + 5 * nboxes + wires:
        problem = "TikZ output has only %d \\node commands for %d wires and %d boxes" % (
            text.count("\\node"), wires, nboxes)
    elif "\\begin{tikzpicture}" not in text or "\\end{tikzpicture}" not in text:
        problem = "TikZ output is not a tikzpicture"
    if problem:
        state["failed"] += 1
        rep.violation(problem, {"program": p, "stage": "back-ends", "problem": problem,
                                "replay": snippet_render(p)})


def snippet_render(program):
    return ("cd /tmp && MPLBACKEND=Agg PYTHONPATH=/verif/harness:%s /venv/bin/python -B -c "
            "\"import draw_impl as di, tempfile; t = tempfile.TemporaryDirectory(); "
            "print(di.render(di.build(%s), t.name, 'd'))\"" % (common.REPO, json.dumps(program)))


def round_trips(rep, di, p, d, always_offset, mono):
    """diagramize on the planar-order body of d, and nx2diagram on diagram2nx(d).
    Returns the offsets of the diagram the real diagramize returned (None if it raised)."""
    offsets = None
    names = di.MONO if mono else di.NAMES      # mono: a wrong offset still type-checks
    if mono:
        d = di.build(p, names)
    rep.count("roundtrip:names:" + "".join(names))
    for what, call in (("diagramize", lambda: di.via_diagramize(p, names, always_offset)),
                       ("nx2diagram", lambda: di.via_nx2diagram(d))):
        try:
            back = call()
        except Exception as exc:   # noqa
            rep.count("roundtrip:%s:raised:%s" % (what, type(exc).__name__))
            rep.violation("%s raised %s on a planar-order body" % (what, type(exc).__name__),
                          {"program": p, "stage": what,
                           "exception": "%s: %s" % (type(exc).__name__, exc),
                           "always_offset": always_offset, "names": list(names),
                           "replay": snippet(p)})
            continue
        if what == "diagramize":
            offsets = [int(o) for o in back.offsets]
        if di.same_diagram(back, d):
            rep.count("roundtrip:%s:ok" % what)
        else:
            rep.count("roundtrip:%s:different" % what)
            rep.violation("%s of a planar-order body yields a different wiring" % what,
                          {"program": p, "stage": what, "expected": repr(d), "got": repr(back),
                           "always_offset": always_offset, "names": list(names),
                           "replay": snippet(p)})
    return offsets


def nx2diagram_correspondence(rep, trips, disagreements):
    """The offsets the real diagramize read back from the wiring graph against the
    model of nx2diagram (program kind 9 of the draw runner), one batch."""
    if not trips:
        return
    answers = common.run_model("draw", [[9] + p for p, _ in trips])
    for (p, offsets), answer in zip(trips, answers):
        if answer[0] == 1 and answer[1] == 8:
            raise RuntimeError("model could not decode %r" % ([9] + p,))
        rep.disagreements_checked += 1
        model = [0, list(answer[1])] if answer[0] == 0 else answer
        impl = [0, offsets] if offsets is not None else [1, "diagramize raised"]
        if common.freeze(impl) == common.freeze(model):
            rep.count("corr-nx2diagram:agree")
        else:
            rep.count("corr-nx2diagram:differ")
            disagreements.append({"family": FAMILY_NX, "class": "monoidal", "program": [9] + p,
                                  "impl": impl, "model": model})


# ------------------------------------------------------------------ the check
def spider_smoke(rep, di, directory, rng, count):
    """Back-end smoke test on diagrams whose boxes are drawn as spiders (ZX diagrams; boxes with
    draw_as_spider) of SEVERAL shapes and colours in one diagram: both back-ends render them."""
    from discopy.quantum import zx
    bad = 0
    for k in range(count):
        w = rng.randint(1, 2)
        d = zx.Id(w)
        for _ in range(rng.randint(2, 5)):
            w = len(d.cod)
            r = rng.random()
            if w == 0:
                g = zx.Z(0, rng.randint(1, 2), 0.25)
                off = 0
            elif r < 0.35:
                g, off = zx.H, rng.randint(0, w - 1)
            elif r < 0.7:
                n = rng.randint(1, min(2, w))
                g, off = rng.choice([zx.Z, zx.X])(n, rng.randint(0, 2), rng.choice([0, 0.25])), rng.randint(0, w - n)
            elif w >= 2:
                g, off = zx.SWAP, rng.randint(0, w - 2)
            else:
                g, off = zx.scalar(0.5), 0
            d = d >> zx.Id(off) @ g @ zx.Id(w - off - len(g.dom))
        if k == 0:
            d = zx.Z(1, 2) >> zx.H @ zx.Id(1) >> zx.Id(1) @ zx.X(1, 1, 0.5)
        rep.count("stream:spider-smoke")
        try:
            out = di.render(d, directory, "s%d" % k)
            why = None if out["png"] > 0 and out["tikz"] else "a back-end wrote nothing"
        except Exception as exc:   # noqa
            why = "drawing back-end raised %s: %s" % (type(exc).__name__, exc)
        if why:
            bad += 1
            rep.count("oracle:spider-smoke:FAIL")
            if bad <= 3:
                rep.violation("drawing a diagram with spiders of several shapes: " + why,
                              {"stage": "back-ends", "diagram": repr(d)[:500]})
        else:
            rep.count("oracle:spider-smoke:pass")


def decorator_reuse_stream(rep, rng, count):
    """Oracle-only stream on the real objects: a `diagramize(dom, cod, boxes)` decorator kept in a
    variable and applied to several function bodies gives, for each body, the diagram the one-shot
    `@diagramize(...)` syntax gives - nothing of one declaration leaks into the next."""
    from discopy.monoidal import Ty, Box, Id
    from discopy import drawing
    x = Ty("x")
    f, g, h = Box("f", x, x), Box("g", x @ x, x), Box("h", x, x @ x)
    bodies = [lambda a, b: (f(a), b), lambda a, b: (a, f(b)), lambda a, b: (f(f(a)), b),
              lambda a, b: (f(a), f(b)), lambda a, b: h(g(a, b)), lambda a, b: (a, b)]
    bad = 0
    for k in range(count):
        rep.count("stream:decorator-reuse")
        what = None
        try:
            picks = [rng.randrange(len(bodies)) for _ in range(rng.randint(2, 3))]
            shared = drawing.diagramize(x @ x, x @ x, [f, g, h])
            reused = [shared(bodies[i]) for i in picks]
            fresh = [drawing.diagramize(x @ x, x @ x, [f, g, h])(bodies[i]) for i in picks]
            for i, a, b in zip(picks, reused, fresh):
                if a != b or (a.dom, a.cod) != (x @ x, x @ x):
                    what = "body #%d declared through a reused decorator gives %r, the one-shot syntax gives %r" % (i, a, b)
                    break
        except Exception as exc:   # noqa
            what = "reusing a diagramize decorator raised %s: %s" % (type(exc).__name__, exc)
        if what:
            bad += 1
            rep.count("oracle:decorator-reuse:FAIL")
            if bad <= 3:
                rep.violation("diagramize: " + what, {"stage": "diagramize"})
        else:
            rep.count("oracle:decorator-reuse:pass")


def bubble_smoke(rep, di, directory, rng, count):
    """Back-end smoke test on diagrams with bubbles (outside the layout model): bubbles whose
    own domain / codomain have the same or a different length and the same or different objects
    than the inside, nested and composed; both back-ends must render them."""
    from discopy.monoidal import Ty, Box, Id
    names = ["x", "y", "z"]

    def ty(lo, hi):
        return Ty(*[rng.choice(names) for _ in range(rng.randint(lo, hi))])
    bad = 0
    for k in range(count):
        a, b = ty(0, 2), ty(0, 2)
        inside = Box("f", a, b)
        if rng.random() < 0.4:
            c = ty(0, 2)
            inside = inside >> Box("g", b, c)
            b = c
        r = rng.random()
        if k == 0:
            inside, a, b = Box("f", Ty("x"), Ty("y")), Ty("x"), Ty("y")
            d = inside.bubble(dom=Ty("z"), cod=Ty("z"))         # F43
        elif r < 0.25:
            d = inside.bubble()
        elif r < 0.6:       # same lengths, other objects
            d = inside.bubble(dom=Ty(*[rng.choice(names) for _ in a]), cod=Ty(*[rng.choice(names) for _ in b]))
        else:
            d = inside.bubble(dom=ty(0, 3), cod=ty(0, 3))
        if rng.random() < 0.3:
            d = d.bubble() if rng.random() < 0.5 else d.bubble(dom=Ty(*[rng.choice(names) for _ in d.dom]))
        if rng.random() < 0.4:
            d = Box("h", ty(0, 1), d.dom) >> d
        if rng.random() < 0.3:
            d = Id(ty(0, 1)) @ d @ Id(ty(0, 1))
        rep.count("stream:bubble-smoke")
        try:
            out = di.render(d, directory, "b%d" % k)
            ok = out["png"] > 0 and bool(out["tikz"])
            why = None if ok else "a back-end wrote nothing"
        except Exception as exc:   # noqa
            why = "drawing back-end raised %s: %s" % (type(exc).__name__, exc)
        if why:
            bad += 1
            rep.count("oracle:bubble-smoke:FAIL")
            if bad <= 3:
                rep.violation("drawing a diagram with bubbles: " + why,
                              {"stage": "back-ends", "diagram": repr(d)[:600],
                               "replay": "import matplotlib; matplotlib.use('Agg'); from discopy.monoidal import *; "
                                         "(%r).draw(path='/tmp/b.png')" % (d,)})
        else:
            rep.count("oracle:bubble-smoke:pass")


def run(tier, seed):
    import draw_impl as di
    rep = Report("C20", tier, seed)
    proof_ok = common.proof_stage(rep, "C20")
    rng = random.Random(seed)
    quick = tier == "quick"
    cases = generate(tier, rng)
    draws = [(rng.random(), rng.random(), rng.random()) for _ in cases]
    programs = [p for _, p in cases]
    rep.programs = len(programs)
    answers = common.run_model_parallel("draw", programs)
    smoke_rate = (120.0 if quick else 1500.0) / len(cases)
    trip_rate = (3000.0 if quick else 30000.0) / len(cases)
    smoke_budget = 90.0 if quick else 420.0
    state = {"rendered": 0, "failed": 0, "seconds": 0.0, "skipped_empty": 0,
             "skipped_budget": 0}
    disagreements, trips = [], []
    t_layout = t_oracle = 0.0
    with tempfile.TemporaryDirectory(prefix="c20-") as directory:
        for index, ((stream, p), answer, (u_smoke, u_trip, u_off)) in enumerate(
                zip(cases, answers, draws)):
            if answer[0] == 1 and answer[1] == 8:
                raise RuntimeError("model could not decode %r" % (p,))
            model = canon_model(answer)
            t0 = time.time()
            outcome, exc, d, graph, pos = di.observe_full(p)
            t_layout += time.time() - t0
            impl = canon_impl(outcome)
            refused = outcome[0] != 0
            rep.count("stream:" + stream.split(":")[0])
            rep.count("outcome:" + ("layout" if not refused else "refused:%s" % exc))
            rep.case(p, nontrivial=(len(p[2]) >= 2 or refused),
                     sample={"program": p, "stream": stream,
                             "impl": "layout of %d nodes" % len(outcome[1]) if not refused
                             else "refused: %s" % exc})
            # ---- correspondence
            rep.disagreements_checked += 1
            if model[0] != 0:
                # ill-formed for the model: the constructor must refuse, whatever the names
                other = di.observe_full(p, names=di.MONO)
                rep.count("outcome-same-names:" + (
                    "layout" if other[0][0] == 0 else "refused:%s" % other[1]))
                if not refused or other[0][0] == 0:
                    disagreements.append(
                        {"family": FAMILY, "class": "monoidal", "program": p,
                         "impl": "accepted" if not refused else "accepted when all wires "
                         "have the same name", "model": model})
            elif common.freeze(impl) != common.freeze(model):
                disagreements.append({"family": FAMILY, "class": "monoidal", "program": p,
                                      "impl": impl, "model": model})
            if refused:
                continue
            # ---- distributions
            nboxes = len(d.boxes)
            width, w = len(d.dom), len(d.dom)
            for box in d.boxes:
                w += len(box.cod) - len(box.dom)
                width = max(width, w)
            rep.count("depth:%d" % nboxes)
            rep.count("max-width:%d" % width)
            rep.count("scalars:%d" % sum(1 for b in d.boxes if not b.dom and not b.cod))
            rep.count("states:%d" % sum(1 for b in d.boxes if not b.dom and b.cod))
            rep.count("effects:%d" % sum(1 for b in d.boxes if b.dom and not b.cod))
            rep.count("same-arity-boxes:%d" % sum(
                1 for b in d.boxes if b.dom and len(b.dom) == len(b.cod)))
            # ---- the oracle
            t0 = time.time()
            public = [len(d.dom), len(d.cod), [[len(b.dom), len(b.cod)] for b in d.boxes],
                      list(d.offsets)]
            bad, stats = oracle(d, graph, pos)
            if public != p:
                bad.insert(0, "the diagram built is not the program: %s" % (public,))
            t_oracle += time.time() - t0
            rep.count("max-denominator:2^%d" % stats["den_exp"])
            if stats["weak_only"]:
                rep.count("ports-closer-than-1-to-a-neighbour", stats["weak_only"])
            if bad:
                rep.violation("layout is not a faithful planar embedding: " + bad[0],
                              {"program": p, "stage": "oracle", "failures": bad[:10],
                               "replay": snippet(p)})
            # ---- back-end smoke test (a test, not a proof)
            empty = not d.dom and not d.boxes
            if empty:
                state["skipped_empty"] += 1
                try:
                    di.render(d, directory, "empty%d" % index)
                    rep.count("empty-diagram-draw:ok")
                except Exception as exc2:   # noqa: excluded by the statement; not judged
                    rep.count("empty-diagram-draw:%s" % type(exc2).__name__)
            elif stream == "corpus" or u_smoke < smoke_rate:
                if state["seconds"] > smoke_budget:
                    state["skipped_budget"] += 1
                else:
                    smoke(rep, di, directory, index, p, d, state)
            # ---- diagramize / nx2diagram round trips
            if stream == "corpus" or u_trip < trip_rate:
                trips.append((p, round_trips(
                    rep, di, p, d, always_offset=int(u_off * 100) % 4 == 0, mono=u_off >= 0.5)))
    nx2diagram_correspondence(rep, trips, disagreements)
    with tempfile.TemporaryDirectory(prefix="c20b-") as bubble_dir:
        bubble_smoke(rep, di, bubble_dir, rng, 25 if quick else 300)
    decorator_reuse_stream(rep, rng, 30 if quick else 400)
    with tempfile.TemporaryDirectory(prefix="c20s-") as spider_dir:
        spider_smoke(rep, di, spider_dir, rng, 12 if quick else 150)
    rep.extra["backend_smoke"] = {
        "kind": "test, not proof", "rendered": state["rendered"], "failed": state["failed"],
        "skipped_empty": state["skipped_empty"], "skipped_budget": state["skipped_budget"],
        "seconds": round(state["seconds"], 1),
        "what": "Diagram.draw(path=.png) with matplotlib Agg and Diagram.draw(to_tikz=True, "
                "path=.tikz) on the corpus and a seeded sample of the well-formed cases; files "
                "non-empty, one \\draw per wire segment and box, at least 1 + 5*boxes + wires "
                "\\node commands"}
    rep.extra["timing_s"] = {"layout": round(t_layout, 1), "oracle": round(t_oracle, 1),
                             "smoke": round(state["seconds"], 1)}
    # ---- settle: correspondence disagreements, proof stage
    rep.extra["n_disagreements_draw"] = len(disagreements)
    if disagreements:
        rep.extra["disagreements_draw"] = disagreements[:20]
        if not any(found for _, _, found in rep.violations):
            first = disagreements[0]
            rep.violation(
                "correspondence %s no longer checks: implementation and model differ on %d "
                "case(s); no input violating the property itself was found"
                % (first["family"], len(disagreements)),
                {"broken": first["family"], "first_disagreement": first,
                 "n_disagreements": len(disagreements),
                 "replay": snippet(first["program"][-4:])},
                found_input=False)
    base.settle(rep, "C20", proof_ok, "C20")
    return rep.finish(
        rule="programs [dom, cod, arities, offsets]: hand-written corpus (%d); every well-typed "
             "arity diagram with dom width <= %d, <= 3 boxes%s, arities 0..2, every valid offset; "
             "every one-box program with offsets -1..dom+1 and any codomain width (mostly "
             "ill-formed); structured random diagrams up to width %d and depth %d with arities "
             "0..3 (scalars, states, effects, equal-arity and wide boxes favoured); about 15%% "
             "mutated ill-formed programs; non-trivial = at least two boxes or a refusal; "
             "distinct by program" % (
                 len(CORPUS), 2 if quick else 3,
                 "" if quick else " (exactly 4 boxes: all from dom 0, seeded samples of 15%/5%/2% from "
                 "dom 1/2/3)",
                 6 if quick else 8, 10 if quick else 14),
        trusted_base=[base.TRUSTED_CORE[0],
                      "hand-written Gallina model coq/Draw/Layout.v of drawing.diagram2nx (and of the "
                      "offsets nx2diagram reads back, program kind 9), tied to "
                      "/repo only by this run's correspondence check (differential testing on "
                      "exact rationals)"] + base.TRUSTED_CORE[2:] + [
                          "networkx, matplotlib (Agg) as installed; rendering is smoke-tested, "
                          "not modelled"],
        assumptions=[
            "floats returned by diagram2nx are read exactly (fractions.Fraction); the oracle checks "
            "that every coordinate is a dyadic rational with denominator <= 2^%d" % MAX_DEN_EXP,
            "object names are derived from the arity program by a typed scan (names x, y, z "
            "cycled); the layout does not depend on them, the oracle checks the objects carried "
            "by the nodes",
            "diagrams without bubbles and with default drawing attributes (what the model covers)",
            "back-ends: a smoke TEST (not a proof) on %d rendered diagrams; the completely empty "
            "diagram is excluded by the statement and only recorded" % state["rendered"],
            "diagramize: bodies that apply the boxes in order to the open wires in planar order; "
            "boxes without inputs are called with offset= as the API requires",
            "edge lists are compared as sorted lists (networkx orders edges by source node)"],
        checker_cmd="make -C coq Props/C20.vo  (coqc 8.16.1, Print Assumptions parsed)")
