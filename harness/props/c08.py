"""C08 -- tensors form a dagger compact-closed category of matrices.

Stages: (1) proof stage (coq/Props/C08.v); (2) `numpy_model` suite: the Gallina
model of the numpy primitives against the installed numpy; (3) correspondence of
the Gallina model of discopy.tensor with the implementation on Tensor programs
(corpus, exhaustive small scope, structured random, malformed); (4) an
independent property oracle on the implementation's results only (matrix
product, Kronecker product, conjugate transpose, identity, block permutation
matrices, cups/caps, snake equations, interchange, naturality of swaps,
refusal clauses), all in exact integer arithmetic.

VERIF_C08_SKIP_PROOF=1 (default off) skips the proof stage and pretends it
succeeded: only for testing the Python side in isolation (mutation runs)."""
import itertools
import os
import random

import numpy

import common
from common import Report, freeze, with_timeout, CaseTimeout
from props import base

(LIT, THEN, TENSOR, DAGGER, ID, SWAP, CUPS, CAPS) = range(8)
(RESHAPE, TENSORDOT, MOVEAXIS, TRANSPOSE, IDENTITY, CONJUGATE) = range(10, 16)
POOL = [1, 2, 2, 3, 3, 4, 5]
JOBS = 8
MAX_RECORDED = 20          # oracle violations written as replay files (the rest is counted)


def prod(l):
    r = 1
    for x in l:
        r *= x
    return r


def norm(l):
    """Dim normalisation; None when Dim raises ValueError."""
    out = [x for x in l if x != 1]
    return None if any(x < 1 for x in out) else out


# ====================================================================== cost of the model
# The extracted model computes with unary naturals: reading one entry costs about
# the number of entries of the array.  The estimates below (in list steps; the
# runner does roughly 3e7 of them per second) only steer the generators and the
# balancing of the runner's chunks; they are not part of any verdict.
def t_then(a, b):
    (da, ca), (db, cb) = a, b
    if ca != db:
        return None, 1, 0
    ea, eb = prod(da) * prod(ca), prod(db) * prod(cb)
    out = prod(da) * prod(cb)
    return (da, cb), out * prod(ca) * (ea + eb) + out, max(ea, eb, out)


def t_tensor(a, b):
    (da, ca), (db, cb) = a, b
    ea, eb = prod(da) * prod(ca), prod(db) * prod(cb)
    out = ea * eb
    return (da + db, ca + cb), out * (ea + eb) + out * out, out


def t_id(d):
    n = prod(d)
    return (d, d), n * n + 1, n * n


def t_dagger(a):
    e = prod(a[0]) * prod(a[1])
    return (a[1], a[0]), e * e + 1, e


def t_swap(l, r):
    n = prod(l + r)
    return (l + r, r + l), n * n + n ** 4, n * n


def t_cups(l, r):
    if list(reversed(l)) != r:
        return None, 1, 0
    result, cost, big = t_id(l + r)
    for i in range(len(l)):
        j = len(l) - i - 1
        idl, c1, _ = t_id(l[:j])
        x, c2, m2 = t_tensor(idl, (l[j:j + 1] + r[i:i + 1], []))
        idr, c3, _ = t_id(r[i + 1:])
        layer, c4, m4 = t_tensor(x, idr)
        result, c5, m5 = t_then(result, layer)
        cost += c1 + c2 + c3 + c4 + c5
        big = max(big, m2, m4, m5)
    return result, cost, big


def analyse(p):
    """((dom, cod) or None if the program raises, estimated model cost, largest array)."""
    op = p[0]
    if op == LIT:
        d, c = norm(p[1]), norm(p[2])
        if d is None or c is None or prod(d) * prod(c) != len(p[3]):
            return None, len(p[3]) + 1, 0
        return (d, c), len(p[3]) + 1, len(p[3])
    if op in (THEN, TENSOR):
        ta, ca, ma = analyse(p[1])
        if ta is None:
            return None, ca, ma
        tb, cb, mb = analyse(p[2])
        if tb is None:
            return None, ca + cb, max(ma, mb)
        t, c, m = (t_then if op == THEN else t_tensor)(ta, tb)
        return t, ca + cb + c, max(ma, mb, m)
    if op == DAGGER:
        ta, ca, ma = analyse(p[1])
        if ta is None:
            return None, ca, ma
        t, c, m = t_dagger(ta)
        return t, ca + c, max(ma, m)
    if op == ID:
        d = norm(p[1])
        return (None, 1, 0) if d is None else t_id(d)
    l, r = norm(p[1]), norm(p[2])
    if l is None or r is None:
        return None, 1, 0
    if op == SWAP:
        return t_swap(l, r)
    t, c, m = t_cups(l, r)
    if op == CAPS and t is not None:
        t2, c2, m2 = t_dagger(t)
        return t2, c + c2, max(m, m2)
    return t, c, m


def numpy_cost(q):
    op = q[0]
    if op == IDENTITY:
        return q[1] * q[1] + 1
    e = len(q[1][1])
    if op == TENSORDOT:
        a, b, k = q[1][0], q[2][0], q[3]
        if k > len(a) or k > len(b):
            return 1
        out = prod(a[:len(a) - k]) * prod(b[k:])
        return out * prod(b[:k]) * (e + len(q[2][1])) + out
    if op in (MOVEAXIS, TRANSPOSE):
        return e * e + 1
    return e + 1


def run_model_balanced(programs, costs):
    """One run_model_parallel call on all programs, ordered so that its contiguous
    chunks carry about the same estimated cost (padding with trivial requests so
    that the chunk boundaries fall where intended).  Answers in the given order."""
    n = len(programs)
    if hasattr(common, "ensure_runner"):       # (re)build once, not once per worker thread
        common.ensure_runner("tensor")
    if n < 2000:
        return common.run_model_parallel("tensor", programs, jobs=JOBS)
    size = (n + JOBS - 1) // JOBS
    bins, load = [[] for _ in range(JOBS)], [0] * JOBS
    for i in sorted(range(n), key=lambda i: -costs[i]):
        k = min((k for k in range(JOBS) if len(bins[k]) < size), key=lambda k: load[k])
        bins[k].append(i)
        load[k] += costs[i]
    order = []
    for b in bins:
        order += b + [None] * (size - len(b))
    pad = [IDENTITY, 0]
    answers = common.run_model_parallel(
        "tensor", [pad if i is None else programs[i] for i in order], jobs=JOBS)
    out = [None] * n
    for i, a in zip(order, answers):
        if i is not None:
            out[i] = a
    return out


# ====================================================================== generators
def rdata(rng, n, gauss=None):
    if gauss is None:
        gauss = rng.random() < 0.35
    return [[rng.randint(-3, 3), rng.randint(-3, 3) if gauss else 0] for _ in range(n)]


def lit(rng, dom, cod, gauss=None):
    return [LIT, list(dom), list(cod), rdata(rng, prod(norm(dom)) * prod(norm(cod)), gauss)]


# ---------------------------------------------------------------------- numpy requests
def rshape(rng, maxrank, maxent=256):
    while True:
        s = [rng.randint(1, 4) for _ in range(rng.randint(0, maxrank))]
        if prod(s) <= maxent:
            return s


def rarr(rng, shape):
    return [list(shape), rdata(rng, prod(shape))]


def factorization(rng, n, maxrank):
    """A random shape of size n."""
    fs, d = [], 2
    while n > 1:
        while n % d == 0:
            fs.append(d)
            n //= d
        d += 1
    rng.shuffle(fs)
    k = rng.randint(0 if not fs else 1, max(1, min(maxrank, len(fs) + 1)))
    shape = [1] * k
    for f in fs:
        if not shape:
            shape = [1]
        shape[rng.randrange(len(shape))] *= f
    return shape


def gen_numpy(rng, tier):
    maxrank = 4 if tier == "quick" else 5
    scale = 1 if tier == "quick" else 10
    reqs = []
    # reshape
    for _ in range(340 * scale):
        a = rarr(rng, rshape(rng, maxrank))
        e = len(a[1])
        new = factorization(rng, e, maxrank)
        if rng.random() < 0.10:
            kind = rng.randrange(4)
            if kind == 0:
                new = new + [rng.randint(2, 3)]
            elif kind == 1 and new:
                new[rng.randrange(len(new))] *= 2
            elif kind == 2:
                new = [e + 1]
            else:
                new = new + [0]
        reqs.append(("reshape", [RESHAPE, a, new]))
    # tensordot
    n = 0
    while n < 350 * scale:
        sa = rshape(rng, maxrank, 64)
        k = rng.randint(0, len(sa))
        extra = rshape(rng, maxrank - k if maxrank - k < 3 else 3, 64)
        sb = sa[len(sa) - k:] + extra
        bad = rng.random() < 0.10
        if bad:
            kind = rng.randrange(3)
            if kind == 0 and k >= 1:          # contracted shapes differ: ValueError
                i = rng.randrange(k)
                sb[i] = sb[i] % 4 + 1
            elif kind == 1:                   # k larger than a's rank: IndexError
                k = len(sa) + rng.randint(1, 2)
                sb = rshape(rng, maxrank, 64)
            else:
                # k larger than b's rank only, the axes that exist agree: IndexError.
                # (when they disagree numpy reports the shape mismatch first; the
                # model does not reproduce that order, tensor.py cannot reach it:
                # `then` checks cod == dom before calling tensordot)
                if not sa:
                    continue
                k = rng.randint(1, len(sa))
                sb = sa[len(sa) - k:][:rng.randint(0, k - 1)]
        if prod(sb) > 256:
            continue
        q = [TENSORDOT, rarr(rng, sa), rarr(rng, sb), k]
        if numpy_cost(q) > 3e6:
            continue
        reqs.append(("tensordot", q))
        n += 1
    # moveaxis
    for _ in range(440 * scale):
        s = rshape(rng, maxrank)
        r = len(s)
        m = rng.randint(0, r)
        src, dst = rng.sample(range(r), m), rng.sample(range(r), m)
        if rng.random() < 0.15:
            kind = rng.randrange(3)
            which = src if rng.random() < 0.5 else dst
            if kind == 0:                                  # out of range
                if which and rng.random() < 0.7:
                    which[rng.randrange(len(which))] = r + rng.randint(0, 2)
                else:
                    which.append(r + rng.randint(0, 1))
            elif kind == 1 and which:                      # repeated axis
                which.insert(rng.randrange(len(which) + 1), rng.choice(which))
            else:                                          # length mismatch
                if which:
                    which.pop(rng.randrange(len(which)))
                else:
                    free = [i for i in range(r)]
                    if free:
                        which.append(rng.choice(free))
        reqs.append(("moveaxis", [MOVEAXIS, rarr(rng, s), src, dst]))
    # transpose
    for _ in range(360 * scale):
        s = rshape(rng, maxrank)
        r = len(s)
        perm = list(range(r))
        rng.shuffle(perm)
        if rng.random() < 0.15:
            kind = rng.randrange(4)
            if kind == 0 and perm:
                perm.pop(rng.randrange(len(perm)))
            elif kind == 1:
                perm.append(rng.randint(0, r))
            elif kind == 2 and len(perm) >= 2:
                i, j = rng.sample(range(r), 2)
                perm[i] = perm[j]
            elif perm:
                perm[rng.randrange(len(perm))] = r + rng.randint(0, 1)
            else:
                perm = [0]
        reqs.append(("transpose", [TRANSPOSE, rarr(rng, s), perm]))
    # identity
    for k in range(7 if tier == "quick" else 13):
        reqs.append(("identity", [IDENTITY, k]))
    # conjugate
    for _ in range(170 * scale):
        s = rshape(rng, maxrank)
        reqs.append(("conjugate", [CONJUGATE, [s, rdata(rng, prod(s), gauss=rng.random() < 0.8)]]))
    return reqs


# ---------------------------------------------------------------------- corpus
def seq(n, k=1, gauss=False):
    return [[(i * k + 1) % 7 - 3, ((i * 3 + k) % 5 - 2) if gauss else 0] for i in range(n)]


def L(dom, cod, k=1, gauss=False):
    return [LIT, dom, cod, seq(prod(norm(dom)) * prod(norm(cod)), k, gauss)]


def snake_left(x):
    xr = list(reversed(x))
    return [THEN, [TENSOR, [ID, x], [CAPS, xr, x]], [TENSOR, [CUPS, x, xr], [ID, x]]]


def snake_right(x):
    xr = list(reversed(x))
    return [THEN, [TENSOR, [CAPS, x, xr], [ID, x]], [TENSOR, [ID, x], [CUPS, xr, x]]]


def corpus():
    """(programs, laws): edge cases for the correspondence and the oracle, and
    pairs of programs that the implementation must evaluate to equal tensors."""
    s2, s3c = [LIT, [], [], [[2, 0]]], [LIT, [], [], [[1, -3]]]
    m23, m32 = L([2], [3]), L([3], [2], 2, True)
    eff, sta = L([2, 3], [], 3), L([], [2, 3], 2, True)
    P = [
        # Dim(1) everywhere
        [LIT, [1], [1], [[2, 0]]], [LIT, [1, 1], [], [[0, 1]]], [ID, [1]], [ID, []], [ID, [1, 1]],
        [SWAP, [1], [1]], [SWAP, [1], [2]], [SWAP, [2], [1]], [CUPS, [1], [1]], [CAPS, [1], [1]],
        [CUPS, [1], []], [THEN, [ID, [1]], [ID, []]], [TENSOR, [ID, [1]], [ID, [1]]], [DAGGER, [ID, [1]]],
        # scalars
        s2, s3c, [THEN, s2, s3c], [THEN, s3c, s3c], [TENSOR, s2, s3c], [DAGGER, s3c],
        [TENSOR, s3c, m23], [TENSOR, m23, s3c], [TENSOR, s2, [TENSOR, m32, s3c]],
        [THEN, s3c, sta], [THEN, eff, s3c], [TENSOR, s3c, [ID, [2]]], [TENSOR, [ID, [2]], s3c],
        [TENSOR, s2, eff], [TENSOR, sta, s2], [THEN, [TENSOR, s2, m23], [TENSOR, m32, s3c]],
        # explicit 1s in the dimensions
        L([1, 2, 1], [3, 1]), L([1, 2, 1], [1, 1, 1], 2, True), [ID, [1, 2, 1]], [ID, [2, 1, 3]],
        [SWAP, [1, 2], [3, 1]], [CUPS, [1, 2], [2, 1]], [CAPS, [2, 1, 3], [3, 2]],
        [THEN, L([2], [1, 3]), L([3, 1], [2, 1, 2])],
        # effects and states
        eff, sta, [THEN, sta, eff], [THEN, eff, sta], [TENSOR, sta, eff], [TENSOR, eff, sta],
        [DAGGER, sta], [DAGGER, eff], [TENSOR, eff, eff], [TENSOR, sta, sta],
        [THEN, sta, [DAGGER, sta]], [THEN, [DAGGER, eff], eff],
        # matrices with unequal numbers of wires on both sides
        [TENSOR, L([2], [2, 3], 2), L([3, 2], [2], 3, True)], [TENSOR, L([2, 2], [3]), m23],
        [TENSOR, L([], [2, 3]), L([2], [])], [DAGGER, L([2, 3], [4], 2, True)],
        [DAGGER, L([2], [3, 2, 2], 3, True)], [THEN, L([2, 2], [3]), L([3], [2, 2, 2], 2)],
        # swaps
        [SWAP, [], [2]], [SWAP, [2], []], [SWAP, [], []], [SWAP, [2, 3], [4]], [SWAP, [2], [3, 2]],
        [SWAP, [2], [2]], [SWAP, [2], [3]], [SWAP, [2, 3], [3, 2]], [SWAP, [4], [2, 3]],
        [SWAP, [2, 2, 2], [3]], [SWAP, [3], [2, 2, 2]], [DAGGER, [SWAP, [2, 3], [4]]],
        [THEN, [SWAP, [2], [3, 2]], [SWAP, [3, 2], [2]]],
        # cups and caps
        [CUPS, [], []], [CAPS, [], []], [CUPS, [2], [2]], [CAPS, [2], [2]], [CUPS, [3], [3]],
        [CUPS, [3, 2], [2, 3]], [CAPS, [3, 2], [2, 3]], [CUPS, [2, 3, 2], [2, 3, 2]],
        [CAPS, [2, 3, 2], [2, 3, 2]], [CUPS, [2, 2, 2], [2, 2, 2]], [CUPS, [2, 2], [2, 2]],
        [CUPS, [4, 2], [2, 4]], [CAPS, [2, 2, 3], [3, 2, 2]],
        # non-adjoint cups and caps (AxiomError)
        [CUPS, [2], [3]], [CAPS, [2], [3]], [CUPS, [3, 2], [3, 2]], [CAPS, [3, 2], [3, 2]],
        [CUPS, [2], []], [CUPS, [], [2]], [CUPS, [2, 2], [2]], [CAPS, [2], [2, 2]], [CUPS, [6], [2, 3]],
        # non-composable
        [THEN, m23, m23], [THEN, [ID, [2]], [ID, [3]]], [THEN, L([2], [2, 3]), L([3, 2], [2])],
        [THEN, L([2], [6]), L([2, 3], [2])], [THEN, L([2], [2, 3]), L([6], [2])],
        [THEN, eff, eff], [THEN, s2, m23], [THEN, m23, s2], [THEN, [ID, [2, 2]], [ID, [4]]],
        # wrong data length
        [LIT, [2], [3], seq(5)], [LIT, [2], [3], seq(7)], [LIT, [2], [2], []], [LIT, [], [], []],
        [LIT, [], [], seq(2)], [LIT, [2], [], seq(1)], [LIT, [1], [1], seq(2)],
        # bad dimensions
        [LIT, [0], [], []], [LIT, [2], [0], []], [LIT, [-1], [2], seq(2)], [LIT, [2, 0], [1], []],
        [LIT, [1, 0], [], seq(1)], [LIT, [-2, 1], [-2], seq(4)], [ID, [0]], [ID, [-3]], [ID, [2, -1]],
        [SWAP, [0], [2]], [SWAP, [2], [-1]], [CUPS, [0], [0]], [CAPS, [-2], [-2]], [CUPS, [2, 0], [0, 2]],
        # order of evaluation: the left operand fails first
        [THEN, [CUPS, [2], [3]], [ID, [0]]], [THEN, [ID, [0]], [CUPS, [2], [3]]],
        [TENSOR, [LIT, [2], [2], seq(3)], [THEN, m23, m23]], [TENSOR, [THEN, m23, m23], [LIT, [2], [2], seq(3)]],
        [THEN, [THEN, m23, m23], m23], [DAGGER, [CUPS, [2, 2], [2]]], [LIT, [0], [2], seq(3)],
    ]
    laws = []
    for x in ([2], [3], [3, 2]):
        laws.append(("snake", snake_left(x), [ID, x]))
        laws.append(("snake", snake_right(x), [ID, x]))
    a, b = L([2, 3], [2], 2, True), L([2], [3, 2], 3, True)
    laws += [
        ("dagger-involution", [DAGGER, [DAGGER, a]], a),
        ("dagger-contravariant", [DAGGER, [THEN, a, b]], [THEN, [DAGGER, b], [DAGGER, a]]),
        ("dagger-monoidal", [DAGGER, [TENSOR, a, b]], [TENSOR, [DAGGER, a], [DAGGER, b]]),
        ("caps-dagger-of-cups", [DAGGER, [CUPS, [3, 2], [2, 3]]], [CAPS, [3, 2], [2, 3]]),
        ("swap-inverse", [THEN, [SWAP, [2, 3], [2]], [SWAP, [2], [2, 3]]], [ID, [2, 3, 2]]),
        ("swap-dagger", [DAGGER, [SWAP, [2, 3], [2]]], [SWAP, [2], [2, 3]]),
        ("unit", [THEN, [ID, [2, 3]], a], a), ("unit", [THEN, a, [ID, [2]]], a),
        ("unit", [TENSOR, [ID, []], a], a), ("unit", [TENSOR, a, [ID, [1]]], a),
    ]
    return P + [lhs for _, lhs, _ in laws], laws


# ---------------------------------------------------------------------- exhaustive small scope
def tuples(values, maxlen):
    return [list(t) for n in range(maxlen + 1) for t in itertools.product(values, repeat=n)]


def exhaustive(rng, tier):
    progs = []
    ts = tuples([1, 2, 3], 2)
    maxout = 1024 if tier == "quick" else 4096
    for dom in ts:
        for cod in ts:
            a = lit(rng, dom, cod)
            progs.append(a)
            progs.append([DAGGER, lit(rng, dom, cod)])
            seconds = ts if tier != "quick" else rng.sample(ts, 2)
            for cod2 in seconds:
                progs.append([THEN, lit(rng, dom, cod), lit(rng, cod, cod2)])
            others = [(d2, c2) for d2 in ts for c2 in ts
                      if prod(dom) * prod(cod) * prod(d2) * prod(c2) <= maxout]
            for d2, c2 in rng.sample(others, 2 if tier == "quick" else 6):
                progs.append([TENSOR, lit(rng, dom, cod), lit(rng, d2, c2)])
    for l in ts:
        for r in ts:
            progs.append([SWAP, l, r])
    cs = tuples([2, 3], 2)
    for l in cs:
        for r in cs:
            progs.append([CUPS, l, r])
            progs.append([CAPS, l, r])
    return progs


# ---------------------------------------------------------------------- structured random
class Gen:
    def __init__(self, rng):
        self.rng = rng
        self.cap = 256

    def dims(self, maxprod, ranks=(0, 1, 1, 2, 2, 3, 4)):
        for _ in range(60):
            d = [self.rng.choice(POOL) for _ in range(self.rng.choice(ranks))]
            if prod(d) <= maxprod:
                return d
        return []

    def raw(self, d):
        """the same Dim written with explicit 1s now and then"""
        d = list(d)
        while self.rng.random() < 0.08:
            d.insert(self.rng.randrange(len(d) + 1), 1)
        return d

    def literal(self, dom=None, cod=None):
        rng = self.rng
        if dom is None:
            dom = norm(self.dims(max(1, self.cap // (prod(cod) if cod is not None else 1))))
        if cod is None:
            cod = norm(self.dims(max(1, self.cap // prod(dom))))
        return lit(rng, self.raw(dom), self.raw(cod)), dom, cod

    def adjoint(self):
        small = 4 if self.cap <= 256 else 6
        l = norm(self.dims(small, ranks=(0, 1, 1, 1, 2, 2, 3)))
        return l, list(reversed(l))

    def leaf(self, dom=None):
        rng = self.rng
        x = rng.random()
        if dom is None:
            if x < 0.50:
                return self.literal()
            if x < 0.62:
                d = norm(self.dims(16 if self.cap <= 256 else 32))
                return [ID, self.raw(d)], d, d
            if x < 0.76:
                n = 16 if self.cap <= 256 else (32 if self.cap <= 1024 else 64)
                l = norm(self.dims(n, ranks=(0, 1, 1, 2, 2, 3)))
                r = norm(self.dims(max(1, n // prod(l)), ranks=(0, 1, 1, 2, 2, 3)))
                return [SWAP, self.raw(l), self.raw(r)], l + r, r + l
            l, r = self.adjoint()
            if x < 0.88:
                return [CUPS, self.raw(l), self.raw(r)], l + r, []
            return [CAPS, self.raw(l), self.raw(r)], [], l + r
        n = prod(dom)
        if not dom and x < 0.25:
            l, r = self.adjoint()
            return [CAPS, self.raw(l), self.raw(r)], [], l + r
        if x < 0.15 and n * n <= self.cap:
            return [ID, self.raw(dom)], dom, dom
        if x < 0.30 and n * n <= self.cap:
            k = rng.randint(0, len(dom))
            return [SWAP, self.raw(dom[:k]), self.raw(dom[k:])], dom, dom[k:] + dom[:k]
        if x < 0.55 and len(dom) % 2 == 0 and dom == list(reversed(dom)) \
                and n <= (16 if self.cap <= 256 else 36):
            h = len(dom) // 2
            return [CUPS, self.raw(dom[:h]), self.raw(dom[h:])], dom, []
        return self.literal(dom=dom)

    def term(self, depth, dom=None):
        """(program, dom, cod) with the requested domain (normalised lists)."""
        rng = self.rng
        x = rng.random()
        if depth == 0 or x < 0.22:
            return self.leaf(dom)
        if x < 0.50:
            a, da, ca = self.term(depth - 1, dom)
            b, _, cb = self.term(depth - 1, ca)
            return [THEN, a, b], da, cb
        if x < 0.80:
            if dom is None:
                a, da, ca = self.term(depth - 1)
                b, db, cb = self.term(depth - 1)
            else:
                k = rng.randint(0, len(dom))
                a, da, ca = self.term(depth - 1, dom[:k])
                b, db, cb = self.term(depth - 1, dom[k:])
            return [TENSOR, a, b], da + db, ca + cb
        if dom is None:
            a, da, ca = self.term(depth - 1)
            return [DAGGER, a], ca, da
        if depth >= 2 and rng.random() < 0.5:
            a, da, ca = self.term(depth - 2)
            b, _, _ = self.literal(dom=ca, cod=dom)
            return [DAGGER, [THEN, a, b]], dom, da
        a, da, _ = self.literal(cod=dom)
        return [DAGGER, a], dom, da

    def program(self, maxdepth):
        """a well-typed program within the size and cost budget drawn for it"""
        x = self.rng.random()
        self.cap, costcap = (256, 3e6) if x < 0.90 else ((1024, 2e7) if x < 0.98 else (4096, 1.2e8))
        for attempt in range(200):
            depth = self.rng.randint(1, maxdepth) if attempt < 150 else 1
            p, dom, cod = self.term(depth)
            t, cost, big = analyse(p)
            assert t == (dom, cod), (p, t, dom, cod)
            if big <= self.cap and cost <= costcap:
                return p
        return self.literal()[0]

    # ---- malformed
    def other_dim(self, d):
        """a Dim different from d after normalisation"""
        rng = self.rng
        for _ in range(50):
            kind = rng.randrange(5)
            e = list(d)
            if kind == 0:
                e = list(reversed(d))
            elif kind == 1 and e:
                e.pop(rng.randrange(len(e)))
            elif kind == 2:
                e.insert(rng.randrange(len(e) + 1), rng.choice([2, 3]))
            elif kind == 3 and e:
                i = rng.randrange(len(e))
                e[i] = e[i] % 5 + 1
            elif kind == 4 and len(e) >= 2:          # same size, other factorisation
                i = rng.randrange(len(e) - 1)
                e[i:i + 2] = [e[i] * e[i + 1]]
            if norm(e) != norm(d):
                return norm(e)
        return norm(d) + [2]

    def bad_dims(self):
        d = self.dims(16)
        d.insert(self.rng.randrange(len(d) + 1), self.rng.choice([0, 0, -1, -2]))
        return d

    def malformed(self):
        rng = self.rng
        self.cap = 256
        kind = rng.choice(["noncomposable", "noncomposable", "nonadjoint", "nonadjoint",
                           "datalength", "baddims"])
        if kind == "noncomposable":
            a, _, ca = self.term(rng.randint(0, 1))
            if rng.random() < 0.6:
                b = self.literal(dom=self.other_dim(ca))[0]
            else:
                b = self.leaf(self.other_dim(ca))[0]
            bad = [THEN, a, b]
        elif kind == "nonadjoint":
            l = norm(self.dims(12, ranks=(0, 1, 1, 2, 2, 3)))
            r = self.other_dim(list(reversed(l)))
            if rng.random() < 0.5:
                l, r = r, l
            bad = [rng.choice([CUPS, CAPS]), self.raw(l), self.raw(r)]
        elif kind == "datalength":
            p, _, _ = self.literal()
            n = len(p[3])
            m = rng.choice([0, n + 1, n + rng.randint(1, 4), max(0, n - 1), n * 2 if n else 3])
            if m == n:
                m = n + 1
            bad = [LIT, p[1], p[2], rdata(rng, m)]
        else:
            x = rng.random()
            if x < 0.4:
                dom, cod = (self.bad_dims(), self.dims(8)) if rng.random() < 0.5 \
                    else (self.dims(8), self.bad_dims())
                bad = [LIT, dom, cod, rdata(rng, rng.randint(0, 6))]
            elif x < 0.6:
                bad = [ID, self.bad_dims()]
            else:
                l, r = (self.bad_dims(), self.dims(8)) if rng.random() < 0.5 \
                    else (self.dims(8), self.bad_dims())
                bad = [rng.choice([SWAP, CUPS, CAPS]), l, r]
        # put it somewhere inside a bigger program
        for _ in range(rng.choice([0, 0, 1, 1, 2])):
            x = rng.random()
            good = self.term(rng.randint(0, 1))[0]
            if x < 0.2:
                bad = [DAGGER, bad]
            elif x < 0.4:
                bad = [TENSOR, good, bad]
            elif x < 0.6:
                bad = [TENSOR, bad, good]
            elif x < 0.8:
                bad = [THEN, good, bad]
            else:
                bad = [THEN, bad, good]
        t, cost, big = analyse(bad)
        if cost > 3e6 or big > 1024:
            return self.malformed()
        return kind, bad

    # ---- derived laws
    def law_quadruple(self):
        """a: x -> y, c: y -> z, b: u -> v, d: v -> w, small"""
        self.cap = 36
        small = (0, 1, 1, 1, 2, 2)
        x, y, z, u, v, w = [norm(self.dims(6, ranks=small)) for _ in range(6)]
        g = self.rng.random() < 0.5
        mk = lambda s, t: lit(self.rng, self.raw(s), self.raw(t), gauss=g)  # noqa: E731
        return (mk(x, y), mk(u, v), mk(y, z), mk(v, w)), (x, y, z, u, v, w)


# ====================================================================== exact matrices
class G:
    """A matrix of Gaussian integers held as two int64 matrices (no floats)."""

    def __init__(self, re, im):
        self.re, self.im = re, im

    @staticmethod
    def of(ti, array, rows, cols):
        shape, data = ti.canon_array(array)          # exact, raises ti.NonInteger
        if prod(shape) != rows * cols:
            raise ValueError("array of shape %r is not %d x %d" % (shape, rows, cols))
        re = numpy.array([x for x, _ in data], dtype=numpy.int64).reshape(rows, cols)
        im = numpy.array([y for _, y in data], dtype=numpy.int64).reshape(rows, cols)
        return G(re, im)

    @staticmethod
    def real(m):
        m = numpy.asarray(m, dtype=numpy.int64)
        return G(m, numpy.zeros_like(m))

    def matmul(self, o):
        return G(self.re @ o.re - self.im @ o.im, self.re @ o.im + self.im @ o.re)

    def kron(self, o):
        return G(numpy.kron(self.re, o.re) - numpy.kron(self.im, o.im),
                 numpy.kron(self.re, o.im) + numpy.kron(self.im, o.re))

    def dagger(self):
        return G(self.re.T.copy(), -self.im.T)

    def same(self, o):
        return self.re.shape == o.re.shape and bool(numpy.array_equal(self.re, o.re)) \
            and bool(numpy.array_equal(self.im, o.im))


def ravel(shape, idx):
    r = 0
    for n, i in zip(shape, idx):
        r = r * n + i
    return r


def swap_matrix(l, r):
    n = prod(l + r)
    m = numpy.zeros((n, n), dtype=numpy.int64)
    for il in numpy.ndindex(*l):
        for ir in numpy.ndindex(*r):
            m[ravel(l + r, il + ir), ravel(r + l, ir + il)] = 1
    return m


def cup_vector(l, r):
    m = numpy.zeros((prod(l + r), 1), dtype=numpy.int64)
    for il in numpy.ndindex(*l):
        for ir in numpy.ndindex(*r):
            if tuple(il) == tuple(reversed(ir)):
                m[ravel(l + r, il + ir), 0] = 1
    return m


# ====================================================================== the oracle
class Oracle:
    """Direct statement of C08 on the implementation's own results."""

    def __init__(self, ti, rep):
        self.ti, self.rep = ti, rep
        self.snakes = {}
        self.recorded = 0

    def fail(self, what, program, impl, *more):
        self.rep.count("oracle-failure")
        if self.recorded >= MAX_RECORDED:
            self.rep.count("oracle-failure-not-recorded")
            return
        self.recorded += 1
        self.rep.violation(what, {"program": program, "pretty": self.ti.pretty(program),
                                  "also": list(more), "impl": impl,
                                  "replay": self.ti.snippet(program, *more)})

    def value(self, p, memo):
        if id(p) not in memo:
            try:
                memo[id(p)] = ("value", with_timeout(10.0, self.ti.interp, p))
            except CaseTimeout:
                memo[id(p)] = ("timeout", None)
            except AssertionError:
                raise
            except Exception as exc:   # noqa
                memo[id(p)] = ("error", exc)
        return memo[id(p)]

    def dims(self, t):
        return self.ti.canon_dim(t.dom), self.ti.canon_dim(t.cod)

    def mat(self, t):
        dom, cod = self.dims(t)
        return G.of(self.ti, t.array, prod(dom), prod(cod))

    def check(self, p, memo=None):
        """Check every node of program p (sub-results first)."""
        memo = {} if memo is None else memo
        if p[0] in (THEN, TENSOR):
            self.check(p[1], memo)
            self.check(p[2], memo)
        elif p[0] == DAGGER:
            self.check(p[1], memo)
        kind, r = self.value(p, memo)
        if kind == "timeout":
            self.fail("no answer within 10 s", p, "timeout")
            return
        self.rep.count("oracle-node:" + self.ti.OPNAMES[p[0]])
        try:
            bad = self.node(p, kind, r, memo)
        except self.ti.NonInteger as exc:
            bad = "integer data gave a non-integer or huge entry %s" % exc
        except ValueError as exc:
            bad = str(exc)
        if bad:
            self.fail(bad, p, self.describe(kind, r))

    def describe(self, kind, r):
        if kind == "error":
            return "%s: %s" % (type(r).__name__, r)
        try:
            return self.ti.canon_tensor(r)
        except Exception:   # noqa
            return repr(r)

    def node(self, p, kind, r, memo):
        ti, op = self.ti, p[0]
        isaxiom = kind == "error" and isinstance(r, ti.AxiomError)
        if kind == "value" and not isinstance(r, ti.Tensor):
            return "the result is not a Tensor but %s" % type(r).__name__
        if op == LIT:
            dom, cod = norm(p[1]), norm(p[2])
            if dom is None or cod is None:
                return "a dimension below 1 is accepted" if kind == "value" else None
            if len(p[3]) != prod(dom) * prod(cod):
                return "data of the wrong length is accepted" if kind == "value" else None
            if kind == "error":
                return "legitimate Tensor refused with %s" % type(r).__name__
            if self.dims(r) != (dom, cod):
                return "Tensor has wrong dom or cod"
            want = G(numpy.array([x for x, _ in p[3]], dtype=numpy.int64).reshape(prod(dom), prod(cod)),
                     numpy.array([y for _, y in p[3]], dtype=numpy.int64).reshape(prod(dom), prod(cod)))
            return None if self.mat(r).same(want) else "Tensor does not hold the data it was given"
        if op in (THEN, TENSOR):
            (ka, a), (kb, b) = self.value(p[1], memo), self.value(p[2], memo)
            if ka != "value" or kb != "value":
                return "an operand raises but the composite does not" if kind == "value" else None
            (da, ca), (db, cb) = self.dims(a), self.dims(b)
            if op == THEN:
                if ca != db:
                    return None if isaxiom else \
                        "composition with cod != dom does not raise AxiomError (%s)" % (
                            "accepted" if kind == "value" else type(r).__name__)
                if kind == "error":
                    return "legitimate composition refused with %s" % type(r).__name__
                if self.dims(r) != (da, cb):
                    return "composite has wrong dom or cod"
                return None if self.mat(r).same(self.mat(a).matmul(self.mat(b))) else \
                    "composition is not the matrix product"
            if kind == "error":
                return "tensor product refused with %s" % type(r).__name__
            if self.dims(r) != (da + db, ca + cb):
                return "tensor product has wrong dom or cod"
            return None if self.mat(r).same(self.mat(a).kron(self.mat(b))) else \
                "tensor is not the Kronecker product"
        if op == DAGGER:
            ka, a = self.value(p[1], memo)
            if ka != "value":
                return "the operand raises but its dagger does not" if kind == "value" else None
            if kind == "error":
                return "dagger refused with %s" % type(r).__name__
            da, ca = self.dims(a)
            if self.dims(r) != (ca, da):
                return "dagger has wrong dom or cod"
            return None if self.mat(r).same(self.mat(a).dagger()) else \
                "dagger is not the conjugate transpose"
        if op == ID:
            d = norm(p[1])
            if d is None:
                return "a dimension below 1 is accepted" if kind == "value" else None
            if kind == "error":
                return "identity refused with %s" % type(r).__name__
            if self.dims(r) != (d, d):
                return "identity has wrong dom or cod"
            return None if self.mat(r).same(G.real(numpy.eye(prod(d), dtype=numpy.int64))) else \
                "identity is not the identity matrix"
        l, rr = norm(p[1]), norm(p[2])
        if l is None or rr is None:
            return "a dimension below 1 is accepted" if kind == "value" else None
        if op == SWAP:
            if kind == "error":
                return "swap refused with %s" % type(r).__name__
            if self.dims(r) != (l + rr, rr + l):
                return "swap has wrong dom or cod"
            return None if self.mat(r).same(G.real(swap_matrix(l, rr))) else \
                "swap is not the permutation matrix exchanging the two blocks"
        name = "cups" if op == CUPS else "caps"
        if list(reversed(l)) != rr:
            return None if isaxiom else "%s of non-adjoint types does not raise AxiomError (%s)" % (
                name, "accepted" if kind == "value" else type(r).__name__)
        if kind == "error":
            return "%s of adjoint types refused with %s" % (name, type(r).__name__)
        want = G.real(cup_vector(l, rr))
        if op == CUPS:
            if self.dims(r) != (l + rr, []):
                return "cups has wrong dom or cod"
        else:
            want = want.dagger()
            if self.dims(r) != ([], l + rr):
                return "caps has wrong dom or cod"
        if not self.mat(r).same(want):
            return "%s is not the nested pairing of the wires" % name
        self.snake(l)
        self.snake(rr)
        return None

    def snake(self, x):
        """both snake equations for the type x, through the implementation's own >> and @"""
        key = tuple(x)
        if key in self.snakes or prod(x) > 16:
            return
        self.snakes[key] = True
        self.rep.count("oracle-snake-types")
        want = self.ti.observe([ID, x])
        for name, prog in (("left", snake_left(x)), ("right", snake_right(x))):
            got = self.ti.observe(prog)
            if got[0] != 0 or freeze(got) != freeze(want):
                self.fail("the %s snake equation fails for Dim%r" % (name, tuple(x) or (1,)),
                          prog, got, [ID, x])

    def law(self, name, lhs, rhs):
        self.rep.count("oracle-law:" + name)
        a, b = self.ti.observe(lhs), self.ti.observe(rhs)
        if a[0] != 0 or b[0] != 0 or freeze(a) != freeze(b):
            self.fail("%s does not hold as an equality of tensors" % name, lhs,
                      {"lhs": a, "rhs": b}, rhs)
            return False
        return True


# ====================================================================== bookkeeping
def ops_of(p, acc):
    acc.append(p[0])
    if p[0] in (THEN, TENSOR):
        ops_of(p[1], acc)
        ops_of(p[2], acc)
    elif p[0] == DAGGER:
        ops_of(p[1], acc)
    return acc


def bucket(n):
    for b in (1, 4, 16, 64, 256, 1024, 4096):
        if n <= b:
            return "<=%d" % b
    return ">4096"


def differential(rep, programs, impl, model, family, cls):
    """Compare outcomes; disagreements are recorded, not yet violations."""
    for p, a, b in zip(programs, impl, model):
        if b is None:
            rep.count("skipped:model-cost")
            continue
        if b[0] == 1 and b[1] in (7, 8):
            rep.count("skipped:model-fuel-or-decode")
            if b[1] == 8:
                raise RuntimeError("model could not decode %r" % (p,))
            continue
        rep.disagreements_checked += 1
        if freeze(a) != freeze(b):
            rep.extra.setdefault("disagreements", []).append(
                {"family": family, "class": cls, "program": p, "impl": a, "model": b})


class _Found(Exception):
    pass


def nary_stream(rep, rng, count):
    """Oracle-only stream on the real objects: the n-ary entry points `f.then(g, h, ...)`,
    `f.tensor(g, h, ...)`, `Tensor.id(dom).then(*fs)`, `Tensor.id(Dim(1)).tensor(*fs)` and their
    operator forms give the left-to-right composite / Kronecker product of ALL the tensors, the
    receiver included; an ill-typed chain is refused with AxiomError wherever the mismatch sits."""
    from discopy.tensor import Dim, Tensor
    from discopy.cat import AxiomError
    bad = 0

    def rand_tensor(dom, cod):
        size = int(numpy.prod(dom or [1])) * int(numpy.prod(cod or [1]))
        return Tensor(Dim(*dom), Dim(*cod), [rng.randint(-3, 3) for _ in range(size)])

    def dims():
        return [rng.choice([2, 3]) for _ in range(rng.randint(0, 2))]
    for k in range(count):
        a, b, c, d = dims(), dims(), dims(), dims()
        f, g, h = rand_tensor(a, b), rand_tensor(b, c), rand_tensor(c, d)
        rep.count("stream:n-ary")
        what = None
        try:
            # what a constructor returns is the caller's: scribbling over one identity / swap / cup
            # does not change the next one
            for name, mk in (("Tensor.id", lambda: Tensor.id(Dim(*a))), ("Tensor.swap", lambda: Tensor.swap(Dim(*a), Dim(*b))),
                             ("Tensor.cups", lambda: Tensor.cups(Dim(*a), Dim(*a[::-1])))):
                first = mk()
                ref = numpy.array(first.array).copy()
                try:
                    first.array[...] = 0
                except (ValueError, TypeError):
                    pass
                again = numpy.array(mk().array)
                if again.shape != ref.shape or not numpy.array_equal(again, ref):
                    what = "%s returns a different tensor after an earlier result was overwritten in place" % name
                    break
            if what is not None:
                raise _Found(what)
            want = (f >> g) >> h
            if f.then(g, h) != want or f.then(g).then(h) != want or Tensor.id(Dim(*a)).then(f, g, h) != want:
                what = "f.then(g, h) is not (f >> g) >> h"
            kron = (f @ g) @ h
            if what is None and (f.tensor(g, h) != kron or Tensor.id(Dim(1)).tensor(f, g, h) != kron):
                what = "f.tensor(g, h) is not (f @ g) @ h"
            if what is None and f.then() != f:
                what = "f.then() is not f"
            wrong = rand_tensor([5], c)
            for name, thunk in (("f.then(wrong, h)", lambda: f.then(wrong, h)), ("f.then(g, wrong)", lambda: f.then(g, wrong)),
                                ("wrong.then(g, h)", lambda: rand_tensor(a, [5]).then(g, h))):
                if what is not None:
                    break
                try:
                    r = thunk()
                    what = "%s is accepted although the types do not match (returns %r -> %r)" % (name, r.dom, r.cod)
                except AxiomError:
                    pass
        except _Found:
            pass
        except Exception as exc:   # noqa
            what = "n-ary then / tensor raised %s: %s" % (type(exc).__name__, exc)
        if what:
            bad += 1
            rep.count("oracle:n-ary:FAIL")
            if bad <= 3:
                rep.violation(what, {"f": repr(f), "g": repr(g), "h": repr(h)})
        else:
            rep.count("oracle:n-ary:pass")


def exotic_array_stream(rep, rng, count):
    """Oracle-only stream on the real objects, outside the Gaussian-integer model: arrays that are
    not plain C-ordered integer arrays - object-dtype entries (Python complex, Fractions, sympy
    expressions with I), Fortran-ordered and transposed views, flattened input for multi-wire
    types.  A Tensor is its entries: dagger is the conjugate transpose entry by entry, the way
    the input array is laid out in memory is irrelevant, then is the matrix product."""
    import sympy
    from fractions import Fraction
    from discopy.tensor import Dim, Tensor
    bad = 0

    def fail(what, payload):
        nonlocal bad
        bad += 1
        rep.count("oracle:exotic-array:FAIL")
        if bad <= 4:
            rep.violation(what, payload)

    def conj(x):
        return x.conjugate() if hasattr(x, "conjugate") else x

    def eq(a, b):
        try:
            return bool(sympy.simplify(sympy.sympify(a) - sympy.sympify(b)) == 0)
        except Exception:   # noqa
            return a == b
    phi = sympy.Symbol("phi", real=True)
    for k in range(count):
        dom = [rng.choice([2, 3]) for _ in range(rng.randint(0, 2))]
        cod = [rng.choice([2, 3]) for _ in range(rng.randint(0, 2))]
        m, n = int(numpy.prod(dom or [1])), int(numpy.prod(cod or [1]))
        kind = rng.choice(["pycomplex", "sympy", "fraction", "fortran", "view", "flat-fortran"])
        rep.count("stream:exotic-arrays")
        rep.count("exotic:" + kind)
        try:
            if kind in ("pycomplex", "sympy", "fraction"):
                def entry():
                    if kind == "pycomplex":
                        return complex(rng.randint(-3, 3), rng.randint(-3, 3))
                    if kind == "fraction":
                        return Fraction(rng.randint(-5, 5), rng.randint(1, 4))
                    return rng.randint(-2, 2) + sympy.I * rng.randint(-2, 2) + (phi if rng.random() < 0.3 else 0)
                data = numpy.empty((m, n), dtype=object)
                for i in range(m):
                    for j in range(n):
                        data[i, j] = entry()
                t = Tensor(Dim(*dom), Dim(*cod), data)
                d = t.dagger()
                got = numpy.asarray(d.array, dtype=object).reshape(n, m)
                ok = d.dom == Dim(*cod) and d.cod == Dim(*dom) and all(
                    eq(got[j, i], conj(data[i, j])) for i in range(m) for j in range(n))
                if not ok:
                    fail("dagger of a tensor with %s entries is not the conjugate transpose" % kind,
                         {"dom": dom, "cod": cod, "array": repr(data.tolist())[:400], "got": repr(got.tolist())[:400]})
                    continue
                dd = numpy.asarray(d.dagger().array, dtype=object).reshape(m, n)
                if not all(eq(dd[i, j], data[i, j]) for i in range(m) for j in range(n)):
                    fail("dagger is not involutive on a tensor with %s entries" % kind, {"dom": dom, "cod": cod})
                    continue
            else:
                base_ = numpy.array([[rng.randint(-4, 4) + 1j * rng.randint(-4, 4) for _ in range(n)] for _ in range(m)])
                if kind == "fortran":
                    given = numpy.asfortranarray(base_.reshape(tuple(dom) + tuple(cod)))
                elif kind == "view":
                    given = base_.T.conj().T.conj()          # a view chain, same values
                    given = numpy.asfortranarray(given) if rng.random() < 0.5 else given
                else:                                          # flattened matrix, Fortran-contiguous
                    given = numpy.asfortranarray(base_) if rng.random() < 0.5 else base_.conj().T.conj().T
                    if rng.random() < 0.5:
                        given = base_.T.copy().T               # F-contiguous, not C-contiguous
                t = Tensor(Dim(*dom), Dim(*cod), given)
                ref = Tensor(Dim(*dom), Dim(*cod), base_.tolist())
                got = numpy.asarray(t.array).reshape(m, n)
                if not numpy.array_equal(got, base_) or not (t == ref):
                    fail("a Tensor built from a %s array differs from the one built from the same entries as lists" % kind,
                         {"dom": dom, "cod": cod, "entries": base_.tolist(), "got": got.tolist(),
                          "flags": "F=%s C=%s" % (given.flags["F_CONTIGUOUS"], given.flags["C_CONTIGUOUS"])})
                    continue
                dg = numpy.asarray(Tensor(Dim(*cod), Dim(*dom), base_.conj().T).array).reshape(n, m)
                if not numpy.array_equal(numpy.asarray(ref.dagger().array).reshape(n, m), dg):
                    fail("Tensor(dom, cod, M).dagger() != Tensor(cod, dom, M.conj().T)", {"dom": dom, "cod": cod,
                                                                                         "entries": base_.tolist()})
                    continue
        except Exception as exc:   # noqa
            fail("tensor with a %s array raised %s: %s" % (kind, type(exc).__name__, exc), {"dom": dom, "cod": cod})
            continue
        rep.count("oracle:exotic-array:pass")


def settle(rep, ti, proof_ok, proof_file):
    """base.settle with replay snippets for tensor_impl: unexplained correspondence
    disagreements / a broken proof stage become violations (after the oracle had
    its chance to find a failing input)."""
    found = any(f for _, _, f in rep.violations)
    dis = rep.extra.get("disagreements", [])
    if dis and not found:
        first = dis[0]
        rep.violation(
            "correspondence %s no longer checks: implementation and model differ on %d case(s); "
            "no input violating the property itself was found" % (first["family"], len(dis)),
            {"broken": first["family"], "first_disagreement": first,
             "pretty": ti.pretty(first["program"]), "n_disagreements": len(dis),
             "replay": ti.snippet(first["program"])},
            found_input=False)
    if not proof_ok and not found:
        rep.violation(
            "theorems of coq/Props/%s.v no longer check" % proof_file,
            {"broken": "coq/Props/%s.v" % proof_file, "notes": rep.notes},
            found_input=False)
    rep.extra["n_disagreements"] = len(dis)
    if len(dis) > 20:
        rep.extra["disagreements"] = dis[:20]


# ====================================================================== the check
def run(tier, seed):
    import tensor_impl as ti
    rep = Report("C08", tier, seed)
    if os.environ.get("VERIF_C08_SKIP_PROOF", "") == "1":
        proof_ok = True
        rep.notes.append("proof stage SKIPPED (VERIF_C08_SKIP_PROOF=1): test run of the Python side only")
    else:
        proof_ok = common.proof_stage(rep, "C08")
    rng = random.Random(seed)
    quick = tier == "quick"

    # ---------------------------------------------------------------- generation
    nreqs = gen_numpy(rng, tier)
    stream = []                                    # (stream name, program)
    corpus_progs, laws = corpus()
    stream += [("corpus", p) for p in corpus_progs]
    stream += [("exhaustive", p) for p in exhaustive(rng, tier)]
    gen = Gen(rng)
    nrandom = 1800 if quick else 25000
    maxdepth = 3 if quick else 4
    for _ in range(nrandom):
        if rng.random() < 0.15:
            kind, p = gen.malformed()
            stream.append(("malformed:" + kind, p))
        else:
            stream.append(("random", gen.program(maxdepth)))
    seen, tprogs = set(), []
    for name, p in stream:                         # distinct programs only
        key = common.to_sexp(p)
        if key not in seen:
            seen.add(key)
            tprogs.append((name, p))
    seen, uniq = set(), []
    for name, q in nreqs:
        key = common.to_sexp(q)
        if key not in seen:
            seen.add(key)
            uniq.append((name, q))
    nreqs = uniq

    # ---------------------------------------------------------------- implementation
    nimpl = [ti.numpy_observe(q) for _, q in nreqs]
    timpl = [ti.observe(p) for _, p in tprogs]

    # ---------------------------------------------------------------- model (one parallel call)
    # programs whose estimated model cost exceeds the cap are checked by the oracle only
    # (cups / caps of Dim(2, 3, 2) take the unary-arithmetic model about 750 s each);
    # VERIF_C08_MODEL_COSTCAP overrides the cap (3e10 lets everything through)
    costcap = float(os.environ.get("VERIF_C08_MODEL_COSTCAP", "") or (6e8 if quick else 5e9))
    tinfo = [analyse(p) for _, p in tprogs]
    sendable = [i for i, (_, cost, _) in enumerate(tinfo) if cost <= costcap]
    programs = [q for _, q in nreqs] + [tprogs[i][1] for i in sendable]
    costs = [numpy_cost(q) for _, q in nreqs] + [tinfo[i][1] for i in sendable]
    answers = run_model_balanced(programs, costs)
    nmodel = answers[:len(nreqs)]
    tmodel = [None] * len(tprogs)
    for i, a in zip(sendable, answers[len(nreqs):]):
        tmodel[i] = a
    rep.programs = len(programs)
    rep.extra["estimated_model_cost"] = int(sum(costs))
    rep.extra["oracle_only_too_costly_for_model"] = [
        ti.pretty(p) for (_, p), (_, cost, _) in zip(tprogs, tinfo) if cost > costcap]

    # ---------------------------------------------------------------- numpy_model suite
    differential(rep, [q for _, q in nreqs], nimpl, nmodel, "corr:numpy_model", "numpy")
    for (name, q), out in zip(nreqs, nimpl):
        rep.count("numpy:" + name)
        rep.count("numpy-outcome:%s:%s" % (name, "value" if out[0] == 0 else ti.err_name(out[1])))
        if q[0] != IDENTITY:
            rep.count("numpy-rank:%d" % len(q[1][0]))
        rep.case(["numpy", q], nontrivial=(out[0] == 1 or len(out[1][1]) >= 2),
                 sample={"request": ti.pretty(q), "impl": out}
                 if name == "moveaxis" and len(rep.samples) < 2 else None)

    # ---------------------------------------------------------------- tensor correspondence
    differential(rep, [p for _, p in tprogs], timpl, tmodel, "corr:tensor", "tensor")
    oracle = Oracle(ti, rep)
    for (name, p), out, (typ, cost, big) in zip(tprogs, timpl, tinfo):
        rep.count("stream:" + name.split(":")[0])
        if name.startswith("malformed:"):
            rep.count(name)
        rep.count("top-op:" + ti.OPNAMES[p[0]])
        ops = ops_of(p, [])
        for o in set(ops):
            rep.count("uses:" + ti.OPNAMES[o])
        rep.count("nodes:%d" % len(ops))
        rep.count("outcome:" + ("value" if out[0] == 0 else ti.err_name(out[1])))
        rep.count("largest-array:" + bucket(big))
        entries = 0
        if out[0] == 0:
            dom, cod, (shape, data) = out[1]
            entries = len(data)
            rep.count("rank:dom%d,cod%d" % (len(dom), len(cod)))
            rep.count("result-entries:" + bucket(entries))
            if not dom and not cod:
                rep.count("scalar-result")
            if any(y for _, y in data):
                rep.count("complex-result")
            if (not dom) != (not cod):
                rep.count("state-or-effect-result")
        rep.case(["tensor", p], nontrivial=(out[0] == 1 or entries >= 2),
                 sample={"program": ti.pretty(p), "impl": out if out[0] == 1 or entries <= 16
                         else "value with %d entries" % entries} if name == "random" else None)
        # the oracle must agree with the static typing on whether the program is legitimate
        if (typ is None) != (out[0] == 1):
            rep.count("typing-vs-impl-differs")
        oracle.check(p)

    # ---------------------------------------------------------------- derived laws (implementation only)
    for name, lhs, rhs in laws:
        oracle.law(name, lhs, rhs)
        rep.case(["law", name, lhs, rhs])
    for l in tuples([2, 3], 2) + [[2, 2, 2], [2, 3, 2], [4], [5], [4, 3], [2, 5]]:
        oracle.snake(l)
    nlaws = 300 if quick else 3000
    for _ in range(nlaws):
        (a, b, c, d), (x, y, z, u, v, w) = gen.law_quadruple()
        lhs = [THEN, [TENSOR, a, b], [TENSOR, c, d]]
        rhs = [TENSOR, [THEN, a, c], [THEN, b, d]]
        oracle.law("interchange", lhs, rhs)
        rep.case(["law", "interchange", lhs])
        lhs = [THEN, [TENSOR, a, b], [SWAP, y, v]]
        rhs = [THEN, [SWAP, x, u], [TENSOR, b, a]]
        oracle.law("swap-naturality", lhs, rhs)
        rep.case(["law", "swap-naturality", lhs])

    for key, n in ti.COUNTS.items():
        if n:
            rep.count("impl:" + key, n)
    if ti.UNKNOWN_CLASSES:
        rep.extra["unknown_exception_classes"] = list(ti.UNKNOWN_CLASSES)
    exotic_array_stream(rep, random.Random(seed + 88), 120 if tier == "quick" else 2000)
    nary_stream(rep, random.Random(seed + 89), 80 if tier == "quick" else 1500)
    settle(rep, ti, proof_ok, "C08")
    trusted = [t for t in base.TRUSTED_CORE]
    trusted[1] = trusted[1].replace("coq/Core/*.v", "coq/Tensor/NumpyModel.v, coq/Tensor/Tensor.v")
    trusted += [
        "numpy primitives (reshape, tensordot, moveaxis, transpose, identity, conjugate) are "
        "modelled, not verified; compared with the installed numpy by the numpy_model suite of this run",
        "oracle uses numpy.kron / matmul / conj().T / ndindex on flattened matrices",
    ]
    return rep.finish(
        rule="numpy requests: random shapes of rank <= %d with dims 1..4, every primitive, valid and "
             "invalid axes / permutations / contraction counts / new shapes; Tensor programs: "
             "hand-written corpus, every literal with dom, cod over {1,2,3}^<=2 under dagger / then / "
             "tensor, every swap over {1,2,3}^<=2, every cups / caps over {2,3}^<=2, %d random programs "
             "of depth <= %d over dims %s (about 15 %% malformed), plus %d random quadruples for "
             "interchange and naturality of swaps; non-trivial = result with at least two entries or "
             "a refusal; distinct by program" % (4 if quick else 5, nrandom, maxdepth, sorted(set(POOL)), nlaws),
        trusted_base=trusted,
        assumptions=[
            "data restricted to (Gaussian) integers; floating point rounding out of scope",
            "negative axes / -1 reshape entries not modelled (never used by tensor.py)",
            "the elementwise-product else-branch of then/tensor is dead code (shapes are never ()) "
            "and is not modelled",
            "numpy.tensordot with k > b.ndim whose existing axes already disagree (numpy: ValueError "
            "before IndexError) is not generated: unreachable from tensor.py, where `then` checks "
            "cod == dom before contracting",
        ],
        checker_cmd="make -C coq Props/C08.vo  (coqc 8.16.1, Print Assumptions parsed)")
