"""C07 -- snake removal is sound for rigid diagrams."""
import json
import random

import common
from common import Report, freeze, run_model_parallel
from props import base
from props.c01 import rescan
import gen as G

KBOX, KCUP, KCAP = 0, 2, 3

# ------------------------------------------------------------------ building blocks
def adj_r(x):
    return [x[0], x[1] + 1]


def adj_l(x):
    return [x[0], x[1] - 1]


def adjoint(a, b):
    """rigid.Cup / rigid.Cap accept (a, b) iff a.r == b or a == b.r."""
    return adj_r(a) == b or a == adj_r(b)


def cup(a, b):
    return [KCUP, -2, [a, b], [], 0, []]


def cap(a, b):
    return [KCAP, -3, [], [a, b], 0, []]


def box(name, dom, cod, dag=0, data=None):
    return [KBOX, name, dom, cod, dag, [] if data is None else [data]]


def seq(dom, placed):
    """(dom, cod, boxes, offsets) of the boxes placed at the given offsets, read
    forwards from dom (no check: malformed cases use it too)."""
    scan = list(dom)
    for b, off in placed:
        scan = scan[:off] + b[3] + scan[off + len(b[2]):]
    return [list(dom), scan, [b for b, _ in placed], [off for _, off in placed]]


def request(mode, d, left):
    return [mode, d[0], d[1], d[2], d[3], left]


# ------------------------------------------------------------------ corpus
def corpus():
    x, y = [1, 0], [2, 0]
    xr, xl, xrr, xll = [1, 1], [1, -1], [1, 2], [1, -2]
    f = box(10, [x], [x])
    fd = box(10, [x], [x], dag=1)
    g = box(11, [y, x], [x])
    h = box(12, [x], [x, y])
    s = box(13, [], [])
    u = box(14, [], [y])
    k = box(15, [y], [])
    out = []
    # the four snake equations (both adjunction directions, both sides)
    out.append(("snake-right x.r", seq([xr], [(cap(xr, x), 0), (cup(x, xr), 1)])))
    out.append(("snake-left x", seq([x], [(cap(xr, x), 1), (cup(x, xr), 0)])))
    out.append(("snake-right x", seq([x], [(cap(x, xl), 0), (cup(xl, x), 1)])))
    out.append(("snake-left x.l", seq([xl], [(cap(x, xl), 1), (cup(xl, x), 0)])))
    # higher windings
    out.append(("snake-left x.rr", seq([xrr], [(cap(xrr, xr), 1), (cup(xrr, xr), 0)])))
    out.append(("snake-right x.ll", seq([xll], [(cap(xl, xll), 0), (cup(xll, xl), 1)])))
    # regression for F2 (fixed by 0cc87cd): twisted snakes (types of cup and cap do not match)
    # must simply be left in place -- no exception, nothing removed
    out.append(("twisted-left", seq([xl], [(cap(x, xr), 1), (cup(xl, x), 0)])))
    out.append(("twisted-right", seq([xr], [(cap(xl, x), 0), (cup(x, xr), 1)])))
    out.append(("twisted-left obstructed", seq([xl, y], [(cap(x, xr), 1), (k, 3), (u, 0), (cup(xl, x), 1)])))
    # the docstring example of snake_removal: g @ cap >> f[::-1] @ Id(n.r) @ f >> cup @ h
    out.append(("docstring", seq([y, x], [(g, 0), (cap(xr, x), 1), (fd, 0), (f, 2), (cup(x, xr), 0), (h, 0)])))
    # obstructions on the left / on the right / on both sides, for left and right snakes
    out.append(("left-snake left-obstruction", seq([y, x], [(cap(xr, x), 2), (k, 0), (cup(x, xr), 0)])))
    out.append(("left-snake right-obstruction", seq([x, y], [(cap(xr, x), 1), (k, 3), (cup(x, xr), 0)])))
    out.append(("left-snake both", seq([y, x, y], [(cap(xr, x), 2), (k, 4), (k, 0), (u, 3), (u, 0), (cup(x, xr), 1)])))
    out.append(("right-snake left-obstruction", seq([y, xr], [(cap(xr, x), 1), (k, 0), (cup(x, xr), 1)])))
    out.append(("right-snake right-obstruction", seq([xr, y], [(cap(xr, x), 0), (k, 3), (cup(x, xr), 1)])))
    out.append(("right-snake both", seq([y, xr, y], [(cap(xr, x), 1), (k, 4), (k, 0), (u, 0), (u, 4), (cup(x, xr), 2)])))
    # a box growing / shrinking the left part while the wire is followed
    out.append(("left growth", seq([x], [(cap(xr, x), 1), (u, 0), (u, 0), (k, 0), (k, 0), (cup(x, xr), 0)])))
    # scalar exactly at the followed wire's offset (zero-width domain: counts as left)
    out.append(("scalar at wire", seq([x], [(cap(xr, x), 1), (s, 1), (cup(x, xr), 0)])))
    out.append(("effect-free state at wire", seq([x], [(cap(xr, x), 1), (u, 1), (k, 1), (cup(x, xr), 0)])))
    out.append(("scalar inside the cap", seq([x], [(cap(xr, x), 1), (s, 2), (cup(x, xr), 0)])))
    # nested snakes
    out.append(("nested", seq([x], [(cap(xr, x), 1), (cap(xr, x), 2), (cup(x, xr), 1), (cup(x, xr), 0)])))
    out.append(("double", seq([x], [(cap(xr, x), 1), (cup(x, xr), 0), (cap(xr, x), 1), (cup(x, xr), 0)])))
    out.append(("s-shape", seq([xr], [(cap(xr, x), 0), (cap(xr, x), 0), (cup(x, xr), 1), (cup(x, xr), 1)])))
    # the wire goes through a box: not yankable
    out.append(("box on the wire", seq([x], [(cap(xr, x), 1), (box(16, [xr], [xr]), 1), (cup(x, xr), 0)])))
    # cup on the same side (a circle, not a snake), cap reaching the codomain
    out.append(("circle", seq([], [(cap(xr, x), 0), (cup(xr, x), 0)])))
    out.append(("cap only", seq([x], [(cap(xr, x), 1)])))
    out.append(("cup only", seq([x, xr], [(cup(x, xr), 0)])))
    # disconnected: normalize never stops, normal_form raises NotImplementedError
    out.append(("two scalars", seq([], [(s, 0), (box(17, [], []), 0)])))
    out.append(("snake then scalars", seq([x], [(cap(xr, x), 1), (s, 0), (cup(x, xr), 0), (box(17, [], []), 0)])))
    out.append(("identity", seq([x, xr], [])))
    out.append(("empty", seq([], [])))
    # transposes of a box: cap, box, cup
    out.append(("transpose-r", seq([xr], [(cap(xr, x), 0), (f, 1), (cup(x, xr), 1)])))
    out.append(("transpose-l", seq([xl], [(cap(x, xl), 1), (f, 1), (cup(xl, x), 0)])))
    return out


# ------------------------------------------------------------------ random rigid diagrams
class Grow:
    def __init__(self, rng, names=(1, 2)):
        self.rng, self.names = rng, list(names)

    def ob(self):
        z = 0
        if self.rng.random() < 0.4:
            z = self.rng.choice([-2, -1, 1, 2])
        return [self.rng.choice(self.names), z]

    def adj(self, a):
        """a type b such that (a, b) / (b, a) is accepted by Cup and Cap, winding in -2..2"""
        z = a[1] + self.rng.choice([-1, 1])
        if abs(z) > 2:
            z = a[1] - (1 if z > 0 else -1)
        return [a[0], z]

    def diagram(self, n_boxes, max_width=6, p_cap=0.3, p_cup=0.55):
        rng = self.rng
        dom = [self.ob() for _ in range(rng.randint(0, 3))]
        scan, placed = list(dom), []
        for _ in range(n_boxes):
            cups = [i for i in range(len(scan) - 1) if adjoint(scan[i], scan[i + 1])]
            r = rng.random()
            if cups and r < p_cup:
                off = rng.choice(cups)
                b = cup(scan[off], scan[off + 1])
            elif r < p_cup + p_cap and len(scan) + 2 <= max_width:
                off = rng.randint(0, len(scan))
                t = rng.random()
                if off > 0 and t < 0.4:           # left leg can be cupped with its left neighbour
                    a = self.adj(scan[off - 1])
                    c = list(scan[off - 1]) if rng.random() < 0.8 else self.adj(a)   # matched / twisted
                elif off < len(scan) and t < 0.8:   # right leg can be cupped with its right neighbour
                    c = self.adj(scan[off])
                    a = list(scan[off]) if rng.random() < 0.8 else self.adj(c)
                else:
                    a = self.ob()
                    c = self.adj(a)
                if not adjoint(a, c):
                    c = adj_r(a) if a[1] < 2 else adj_l(a)
                b = cap(a, c)
            else:
                k = min(rng.choice([0, 1, 1, 1, 2, 2]), len(scan))
                off = rng.randint(0, len(scan) - k)
                room = max(0, max_width - (len(scan) - k))
                cod = [self.ob() for _ in range(min(rng.choice([0, 1, 1, 1, 2]), room))]
                if k and rng.random() < 0.3:      # wire-preserving box
                    cod = list(scan[off:off + k])[:max(room, 0)] or cod
                b = box(rng.randint(10, 13), scan[off:off + k], cod,
                        dag=1 if rng.random() < 0.3 else 0,
                        data=rng.randint(0, 2) if rng.random() < 0.1 else None)
            placed.append((b, off))
            scan = scan[:off] + b[3] + scan[off + len(b[2]):]
        return seq(dom, placed)

    def malformed(self):
        rng = self.rng
        d = self.diagram(rng.randint(1, 5))
        dom, cod, boxes, offs = [list(z) for z in d]
        r = rng.random()
        if r < 0.3 and offs:
            i = rng.randrange(len(offs))
            offs[i] = rng.choice([-1, offs[i] + 1, offs[i] - 1, len(dom) + 5])
        elif r < 0.45:
            cod = [self.ob() for _ in range(rng.randint(0, 3))]
        elif r < 0.55:
            offs = offs[:-1] if rng.random() < 0.5 else offs + [0]
        elif r < 0.75:      # a cup / cap of non-adjoint types
            a = self.ob()
            c = [a[0], a[1] + rng.choice([0, 2, -2, 3])] if rng.random() < 0.7 else [a[0] + 1, a[1] + 1]
            if rng.random() < 0.5:
                boxes.append(cap(a, c))
                offs.append(0)
                cod = [a, c] + cod
            else:
                dom, cod = [a, c] + dom, cod
                boxes.insert(0, cup(a, c))
                offs.insert(0, 0)
        elif r < 0.85:      # Cap / Cup of a type of length != 1
            a = self.ob()
            boxes.append([KCAP, -3, [], [a, adj_r(a), a], 0, []])
            offs.append(0)
            cod = [a, adj_r(a), a] + cod
        else:
            dom = [self.ob() for _ in range(rng.randint(0, 3))]
        return [dom, cod, boxes, offs]


def small_scope(max_boxes, max_width):
    """Every diagram with <= max_boxes boxes over {4 caps, 4 cups, f : x -> x, a scalar,
    h : x.r -> x.r} from the domains (), x, x.r, x.l."""
    x, xr, xl = [1, 0], [1, 1], [1, -1]
    sig = [cap(x, xr), cap(xr, x), cap(x, xl), cap(xl, x),
           cup(x, xr), cup(xr, x), cup(xl, x), cup(x, xl),
           box(10, [x], [x]), box(13, [], []), box(12, [xr], [xr])]
    return [[dom, cod, boxes, offs] for dom, cod, boxes, offs in
            G.enumerate_diagrams(max_boxes, [[], [x], [xr], [xl]], sig, max_width=max_width)]


# ------------------------------------------------------------------ cases
def build_cases(tier, seed):
    """[(label, [dom, cod, boxes, offsets], left)] -- everything derives from seed."""
    rng = random.Random(seed * 13 + 7)
    g = Grow(rng)
    cases = []
    for label, d in corpus():
        cases.append(("corpus:" + label, d, 0))
        cases.append(("corpus:" + label, d, 1))
    quick = tier == "quick"
    small = small_scope(3 if quick else 4, 4)
    rng.shuffle(small)
    for d in small[:800 if quick else 4000]:
        cases.append(("small", d, rng.randint(0, 1)))
    max_boxes = 8 if quick else 12
    for _ in range(2200 if quick else 8500):
        n = rng.randint(2, max_boxes)
        cases.append(("random", g.diagram(n, max_width=6 if quick else 7), rng.randint(0, 1)))
    for _ in range(len(cases) * 15 // 85):
        cases.append(("malformed", g.malformed(), rng.randint(0, 1)))
    return cases


# ------------------------------------------------------------------ oracles
def well_typed_request(d):
    """Independent, range-checked reading of a request (dom, cod, boxes, offsets)."""
    dom, cod, boxes, offs = d
    if len(boxes) != len(offs):
        return False
    scan = list(dom)
    for b, off in zip(boxes, offs):
        kind, _, bdom, bcod = b[0], b[1], b[2], b[3]
        if kind == KCUP and not (len(bdom) == 2 and not bcod and adjoint(bdom[0], bdom[1])):
            return False
        if kind == KCAP and not (len(bcod) == 2 and not bdom and adjoint(bcod[0], bcod[1])):
            return False
        if off < 0 or off + len(bdom) > len(scan) or scan[off:off + len(bdom)] != bdom:
            return False
        scan = scan[:off] + bcod + scan[off + len(bdom):]
    return scan == cod


class Functors:
    """Two rigid functors into integer tensors, built with discopy.tensor.Functor:
    every atomic object goes to a small dimension (the same for all its adjoints),
    every box to a random integer array, cups and caps to whatever tensor.Functor
    makes of them (identity-shaped tensors).  The images of the generators are
    taken from tensor.Functor; a diagram is then contracted layer by layer with
    numpy in exact int64 arithmetic (|entries| <= 2, <= 2 wires of dimension <= 3
    contracted per box, <= 12 boxes: every intermediate value is below 18^12 <
    2^63, so nothing can overflow or round)."""

    def __init__(self, seed):
        self.seed = seed
        self.dims = [{1: 2, 2: 3}, {1: 3, 2: 2}]
        self.shared = {}     # generator images are a function of (functor, box): shared by all cases

    def make(self, which, d0):
        import numpy as np
        from discopy import tensor, rigid
        dims = self.dims[which]
        ob = {rigid.Ty("n%d" % n): k for n, k in dims.items()}
        ar = {}
        for b in d0.boxes:
            if isinstance(b, (rigid.Cup, rigid.Cap)):
                continue
            base_box = b.dagger() if b.is_dagger else b
            if base_box in ar:
                continue
            shape = [dims[int(o.name[1:])] for o in list(base_box.dom.objects) + list(base_box.cod.objects)]
            key = "%d|%d|%r" % (self.seed, which, base_box)
            brng = random.Random(key)
            size = 1
            for s in shape:
                size *= s
            ar[base_box] = np.array([brng.randint(-2, 2) for _ in range(size)],
                                    dtype=np.int64).reshape(shape or [1])
        return Evaluator(tensor.Functor(ob, ar), dims, self.shared.setdefault(which, {}))


class Evaluator:
    def __init__(self, functor, dims, shared):
        self.F, self.dims, self.images, self.shared = functor, dims, {}, shared

    def shape(self, ty):
        return [self.dims[int(o.name[1:])] for o in ty.objects]

    def image(self, box):
        """tensor.Functor's image of a generator (box, daggered box, cup, cap) as an
        exact integer array of shape dims(dom) + dims(cod)."""
        got = self.images.get(id(box))
        if got is None:
            key = (type(box).__name__, repr(box), bool(box.is_dagger))
            a = self.shared.get(key)
            if a is None:
                a = exact_array(self.F(box))
                assert a is not None, "tensor.Functor returned a non-integer array for %r" % (box,)
                a = self.shared[key] = a.reshape(self.shape(box.dom) + self.shape(box.cod))
            got = (box, a)
            self.images[id(box)] = got       # keeps `box` alive, so the id stays valid
        return got[1]

    def __call__(self, d):
        """The tensor of a diagram: identity on the domain, then each layer
        contracted in turn (left wires and right wires untouched)."""
        import numpy as np
        dom = self.shape(d.dom)
        n, size = len(dom), 1
        for k in dom:
            size *= k
        array = np.eye(size, dtype=np.int64).reshape(dom + dom)
        for box, off in zip(d.boxes, d.offsets):
            t = self.image(box)
            k_in, k_out = len(box.dom), len(box.cod)
            array = np.tensordot(array, t, (list(range(n + off, n + off + k_in)), list(range(k_in))))
            if k_out:
                last = array.ndim
                array = np.moveaxis(array, list(range(last - k_out, last)),
                                    list(range(n + off, n + off + k_out)))
        return array


def exact_array(t):
    """A Tensor's array as exact integers (None if it is not integral)."""
    import numpy as np
    a = np.asarray(t.array)
    if a.dtype.kind in "fc":
        if not np.all(np.isfinite(a)) or not np.all(a == np.rint(a.real)):
            return None
        a = np.rint(a.real).astype(np.int64)
    elif a.dtype.kind not in "iu":
        return None
    return a


def box_multiset(d):
    return sorted(repr(b) for b in d.boxes)


def removed_pair_ok(si, prev, step):
    """`step` is `prev` minus an adjacent (Cap, Cup) pair one of whose legs runs
    straight into the opposite leg of the other, types matched.  Returns None or
    a description of what is wrong."""
    from discopy import rigid
    n = len(prev.boxes)
    if len(step.boxes) != n - 2:
        return "a step changes the number of boxes by %d" % (len(step.boxes) - n)
    pairs = {(i, j): m for i, j, _, m in si.yankable_pairs(prev)}
    seen_unmatched = False
    for i in range(n - 1):
        if list(step.boxes) == list(prev.boxes[:i]) + list(prev.boxes[i + 2:]) \
                and isinstance(prev.boxes[i], rigid.Cap) and isinstance(prev.boxes[i + 1], rigid.Cup) \
                and (i, i + 1) in pairs:
            if pairs[(i, i + 1)]:
                return None
            seen_unmatched = True
    if seen_unmatched:
        return "a cap/cup pair whose types do not satisfy a snake equation was removed"
    return "two boxes were removed that are not an adjacent cap/cup pair joined leg to opposite leg"


def components(si, d):
    """Number of connected components of the graph boxes + wires between boxes."""
    outs, consumer = si.wiring(d)
    parent = list(range(len(d.boxes)))

    def find(a):
        while parent[a] != a:
            parent[a] = parent[parent[a]]
            a = parent[a]
        return a
    for i, ws in enumerate(outs):
        for w in ws:
            if consumer[w] is not None:
                parent[find(i)] = find(consumer[w][0])
    return len({find(i) for i in range(len(d.boxes))})


def check_steps(si, ci, functors, d0, steps, what, crosscheck=False):
    """Oracles on a list of diagrams claimed to be rewrites of d0.  Yields problems."""
    import numpy as np
    for k, s in enumerate(steps):
        bad = rescan(ci, s)
        if bad:
            yield "%s #%d is ill-typed: %s" % (what, k, bad)
            return
        if s.dom != d0.dom or s.cod != d0.cod:
            yield "%s #%d has a different domain or codomain" % (what, k)
            return
    prev = d0
    for k, s in enumerate(steps):
        if len(s.boxes) == len(prev.boxes):
            if box_multiset(s) != box_multiset(prev):
                yield "%s #%d is not a rearrangement of the previous diagram's boxes" % (what, k)
        else:
            bad = removed_pair_ok(si, prev, s)
            if bad:
                yield "%s #%d: %s" % (what, k, bad)
        prev = s
    for which in (0, 1):
        F = functors.make(which, d0)
        want = F(d0)
        if crosscheck:
            # the layer-by-layer contraction agrees with tensor.Functor's own evaluation
            own = exact_array(F.F(d0))
            if own is None or own.size != want.size or not np.array_equal(own.reshape(want.shape), want):
                yield "oracle self-check: tensor.Functor's evaluation of the input differs from the " \
                      "layer-by-layer contraction of its generator images (functor %d)" % which
                return
        seen = set()
        for k, s in enumerate(steps):
            key = (tuple(s.offsets), tuple(id(b) for b in s.boxes))
            if key in seen:
                continue
            seen.add(key)
            got = F(s)
            if got.shape != want.shape or not np.array_equal(got, want):
                yield "%s #%d denotes a different tensor than the input under rigid functor %d" % (
                    what, k, which)
                return


def pro_stream(rep, rng, n_cases):
    """Oracle-only stream on self-adjoint wires (rigid.PRO, where x.l == x.r == x): closed
    loops Cap >> Cup are NOT snakes; every yielded step and the normal form must keep the
    denotation under an integer tensor functor."""
    import itertools as it
    import struct_oracles as so
    from discopy import rigid
    x = rigid.PRO(1)
    out = []

    def grow():
        d = rigid.Id(rigid.PRO(rng.randint(0, 2)))
        for _ in range(rng.randint(1, 5)):
            w = len(d.cod)
            r = rng.random()
            if r < 0.4:
                off = rng.randint(0, w)
                layer, k = rigid.Cap(x, x), 0
            elif r < 0.8 and w >= 2:
                off = rng.randint(0, w - 2)
                layer, k = rigid.Cup(x, x), 2
            else:
                k = rng.randint(0, min(2, w))
                off = rng.randint(0, w - k)
                layer = rigid.Box("n%d" % rng.randint(90, 92), rigid.PRO(k), rigid.PRO(rng.randint(0, 2)))
            d = d >> rigid.Id(rigid.PRO(off)) @ layer @ rigid.Id(rigid.PRO(w - off - k))
        return d
    corpus = [rigid.Cap(x, x) >> rigid.Cup(x, x),
              rigid.Cap(x, x) @ rigid.Id(x) >> rigid.Cup(x, x) @ rigid.Id(x),
              rigid.Cap(x, x) @ rigid.Id(x) >> rigid.Id(x) @ rigid.Cup(x, x),
              rigid.Id(x) @ rigid.Cap(x, x) >> rigid.Cup(x, x) @ rigid.Id(x)]
    for d in corpus + [grow() for _ in range(n_cases)]:
        rep.case(["pro", repr(d)], nontrivial=True)
        rep.count("stream:pro")
        try:
            steps = list(it.islice(d.normalize(), 80))
        except Exception as exc:   # noqa
            out.append(("normalisation of a well-typed PRO diagram raised %s" % type(exc).__name__, d))
            continue
        if len(steps) >= 80:
            continue
        for dims in ((2,), (3,)):
            f = so.random_tensor_functor(rng, d, dims=dims)
            want = so.semantics(f, d)
            if any(so.semantics(f, s) != want for s in steps):
                out.append(("a yielded step denotes a different tensor than the input (self-adjoint wires)", d))
                break
    for what, d in out:
        rep.violation(what, {"diagram": repr(d), "replay": "from discopy.rigid import *; list((%r).normalize())" % (d,)})


def snippet(req):
    return ("cd /verif/harness && DISCOPY_VERIF=1 PYTHONPATH=/verif/harness:/repo /venv/bin/python -B -c "
            "\"import snake_impl as si; print(si.run(%s).obs)\"" % json.dumps(req))


def settle(rep, proof_ok):
    """Unexplained correspondence disagreements / a broken proof stage become
    violations after the oracles had their chance to find a failing input."""
    found = any(f for _, _, f in rep.violations)
    dis = rep.extra.get("disagreements", [])
    if dis and not found:
        first = dis[0]
        rep.violation(
            "correspondence corr:snake no longer checks: implementation and model differ on %d case(s); "
            "no input violating the property itself was found" % len(dis),
            {"broken": "corr:snake", "first_disagreement": first, "n_disagreements": len(dis),
             "replay": snippet(first["request"])}, found_input=False)
    if not proof_ok and not found:
        rep.violation("theorems of coq/Props/C07.v no longer check",
                      {"broken": "coq/Props/C07.v", "notes": rep.notes}, found_input=False)
    rep.extra["n_disagreements"] = len(dis)
    if len(dis) > 20:
        rep.extra["disagreements"] = dis[:20]


def run(tier, seed):
    try:
        common.model_entry("snake")
    except RuntimeError:
        print("C07: runner/models.txt has no line `snake:ExtractSnake.v:Snake/Snake.vo` -- add it "
              "(the extracted snake-removal model cannot be built without it)")
        return 2
    import core_impl as ci
    import snake_impl as si
    rep = Report("C07", tier, seed)
    proof_ok = common.proof_stage(rep, "C07")
    cases = build_cases(tier, seed)
    reqs = []
    for _, d, left in cases:
        reqs.append(request(si.TRACE, d, left))
        reqs.append(request(si.NORMAL_FORM, d, left))
    answers = run_model_parallel("snake", reqs)
    functors = Functors(seed)
    ERRNAME = {v: k for k, v in ci.ERR.items()}
    ERRNAME.update({si.TIMEOUT: "Timeout", si.HOOK: "VerifHookError (ill-typed diagram built inside the library)",
                    100: "another exception class"})

    def disagree(req, impl_obs, model_obs):
        rep.extra.setdefault("disagreements", []).append(
            {"family": "corr:snake", "request": req, "impl": impl_obs, "model": model_obs})

    for idx, (label, d, left) in enumerate(cases):
        rt_req, nf_req = reqs[2 * idx], reqs[2 * idx + 1]
        mt, mn = answers[2 * idx], answers[2 * idx + 1]
        rt, rn = si.run(rt_req), si.run(nf_req)
        stream = label.split(":")[0]
        rep.count("stream:" + stream)
        rep.programs += 2
        nontrivial = len(d[2]) >= 2 or rt.obs[0] == 1
        rep.case([d, left], nontrivial=nontrivial,
                 sample={"case": label, "request": rt_req} if idx % 499 == 3 else None)
        payload = lambda req, r, m: {"case": label, "request": req, "impl": r.obs, "model": m,   # noqa: E731
                                     "replay": snippet(req)}
        # ---- correspondence (whole trace, final result, exception class: exact)
        for req, r, m in ((rt_req, rt, mt), (nf_req, rn, mn)):
            if m[0] == 1 and m[1] == 8:
                raise RuntimeError("model could not decode %r" % (req,))
            if m[0] == 1 and m[1] == 7 or r.obs == [1, 7]:
                rep.count("skipped:fuel")
                continue
            rep.disagreements_checked += 1
            if freeze(r.obs) != freeze(m):
                disagree(req, r.obs, m)
        # ---- the request itself: refused iff ill-typed
        ok_req = well_typed_request(d)
        if rt.diagram is None:
            rep.count("outcome:refused-" + ERRNAME.get(rt.obs[1], str(rt.obs[1])))
            if ok_req:
                rep.violation("a well-typed rigid diagram was refused by the constructor with %s"
                              % ERRNAME.get(rt.obs[1], rt.obs[1]), payload(rt_req, rt, mt))
            continue
        if not ok_req:
            rep.violation("an ill-typed request was accepted by the constructor", payload(rt_req, rt, mt))
            continue
        d0 = rt.diagram
        rep.count("boxes:%d" % len(d0.boxes))
        rep.count("trace-length:%s" % (len(rt.steps) if len(rt.steps) < 10 else "10+"))
        n_removed = (len(d0.boxes) - len(rt.steps[-1].boxes)) // 2 if rt.steps else 0
        rep.count("snakes-removed:%d" % n_removed)
        if any(len(b.dom) + len(b.cod) == 2 and b.dom and b.cod and (b.dom[0].z or b.cod[0].z) for b in d0.boxes):
            rep.count("has-box-on-adjoint-wire")
        n_moves = sum(1 for a, b in zip([d0] + rt.steps, rt.steps) if len(a.boxes) == len(b.boxes)
                      and len(b.boxes) > len(rt.steps[-1].boxes))
        if n_moves:
            rep.count("cases-with-obstructed-snake")
        # ---- oracles on every yielded step
        for bad in check_steps(si, ci, functors, d0, rt.steps, "yielded step", crosscheck=idx % 5 == 0):
            rep.violation(bad, payload(rt_req, rt, mt))
        # ---- regression for F2: a twisted snake is left in place
        if "twisted" in label:
            rep.count("twisted-regression-cases")
            if any(len(s.boxes) != len(d0.boxes) for s in rt.steps):
                rep.violation("a twisted (type-mismatched) cap/cup pair was removed", payload(rt_req, rt, mt))
            if not any(not p[3] for p in si.yankable_pairs(rt.steps[-1] if rt.steps else d0)):
                rep.violation("the twisted pair is no longer in the diagram", payload(rt_req, rt, mt))
        if any(not p[3] for p in si.yankable_pairs(d0)):
            rep.count("has-twisted-pair")
        # ---- how the trace ended
        st = rt.status
        rep.count("trace:" + {0: "done", si.CUT: "cut"}.get(st, ERRNAME.get(st, str(st))))
        final = rt.steps[-1] if rt.steps else d0
        if st == 0:
            left_over = [p for p in si.yankable_pairs(final) if p[3]]
            if left_over:
                rep.violation("the result still contains a cap whose leg runs straight into the opposite "
                              "leg of a matching cup (boxes %d and %d)" % left_over[0][:2],
                              payload(rt_req, rt, mt))
        elif st != si.CUT:
            explain_failure(rep, rt_req, rt, mt, st, ERRNAME, payload)
        # ---- normal_form
        if rn.obs[0] == 0:
            rep.count("normal_form:value")
            for bad in check_steps(si, ci, functors, d0, [rn.result], "normal form"):
                if "rearrangement" not in bad and "removed" not in bad and "number of boxes" not in bad:
                    rep.violation(bad, payload(nf_req, rn, mn))
            left_over = [p for p in si.yankable_pairs(rn.result) if p[3]]
            if left_over:
                rep.violation("the normal form still contains a yankable matching cap/cup pair",
                              payload(nf_req, rn, mn))
            if st == 0 and ci.canon_diagram(rn.result) != ci.canon_diagram(final):
                rep.violation("normal_form() is not the last diagram yielded by normalize()",
                              payload(nf_req, rn, mn))
        else:
            code = rn.obs[1]
            rep.count("normal_form:" + ERRNAME.get(code, str(code)))
            if code == ci.ERR["NotImplementedError"]:
                # only for disconnected diagrams
                snake_free = d0
                for s in rt.steps:
                    if len(s.boxes) < len(snake_free.boxes):
                        snake_free = s
                if components(si, snake_free) < 2:
                    rep.violation("NotImplementedError on a connected diagram", payload(nf_req, rn, mn))
            elif code != 7:
                explain_failure(rep, nf_req, rn, mn, code, ERRNAME, payload)
    import random as _random
    pro_stream(rep, _random.Random(seed + 71), 60 if tier == "quick" else 1500)
    settle(rep, proof_ok)
    return rep.finish(
        rule="rigid diagrams given as (dom, cod, boxes, offsets), each run as the full trace of "
             "normalize(left) (cut after %d yields) and as normal_form(left): hand-written corpus (the four "
             "snake equations, higher windings, nested / double / s-shaped snakes, obstructions on either and "
             "both sides of left and right snakes, scalars at the followed wire, the docstring example, twisted "
             "snakes, disconnected diagrams), every diagram with <= %d boxes over 4 caps + 4 cups + 3 boxes "
             "(sampled), random diagrams with <= %d boxes grown forwards (caps anywhere with types biased "
             "towards their neighbours, cups wherever adjacent types are adjoint, boxes and daggered boxes, "
             "windings -2..2), ~15%% malformed requests; non-trivial = refusal or >= 2 boxes; distinct by "
             "(diagram, left)" % (si.TRACE_LIMIT, 3 if tier == "quick" else 4, 8 if tier == "quick" else 12),
        trusted_base=[t.replace("coq/Core/*.v", "coq/Snake/Snake.v (on top of coq/Core/*.v)")
                      for t in base.TRUSTED_CORE]
        + ["numpy tensordot / moveaxis and discopy.tensor.Functor are the evaluator of the semantic oracle "
           "(integer data, exactness re-checked per array); not verified"],
        assumptions=[
            "semantic soundness is proved in Coq for the model (Props/C07.v: unsnake_sound, snake_removal_sound, "
            "rigid_normal_form_sound, in every strict monoidal category with snake equations); on the implementation "
            "it is checked independently by the oracle on every yielded step under two random integer tensor functors",
            "totality (no InterchangerError / IndexError / AxiomError from unsnake on well-typed input, arbitrary "
            "obstructions) is proved in Coq for the model (Props/C07.v: snake_removal_total, normal_form_total, "
            "rigid_trace_never_raises) and checked on the implementation by the oracle (exception class) on every "
            "generated case",
            "F2 (twisted snake -> AxiomError) is fixed in /repo (0cc87cd) and in the model: no known finding is "
            "recognised any more; twisted corpus cases are regression cases (no exception, pair left in place)",
            "NotImplementedError is accepted only when the snake-free diagram has >= 2 connected components "
            "(boxes + wires between boxes)"],
        checker_cmd="make -C coq Props/C07.vo  (coqc 8.16.1, Print Assumptions parsed)")


def explain_failure(rep, req, r, m, code, ERRNAME, payload):
    """An exception other than NotImplementedError on a well-typed input: the
    property fails on this case (since the repair of F2 there is no known finding
    left for C07: an AxiomError on a twisted snake is a violation like any other)."""
    rep.violation("%s raised on a well-typed rigid diagram (%s)" % (
        ERRNAME.get(code, str(code)), "normal_form" if req[0] == 1 else "normalize"), payload(req, r, m))
