"""C04 -- functors are functorial."""
import random

import common
from common import Report, freeze
from props import base
from props.c01 import rescan
import gen as G
import struct_oracles as so


def img_len(obs, ob):
    return len(dict((k, v) for k, v in obs)[ob[0]])


def f19_trigger(obs, info):
    """A Swap both of whose wires have images of length >= 2."""
    for b in info[2]:
        if b[0] == G.KSWAP and img_len(obs, b[2][0]) >= 2 and img_len(obs, b[2][1]) >= 2:
            return True
    return False


def cases(tier, seed, rigid):
    rng = random.Random(seed * 19 + (1 if rigid else 0))
    g = G.G(rng, rigid=rigid)
    out = []
    for _ in range(250 if tier == "quick" else 2200):
        a, ia = g.diagram(n_boxes=rng.randint(0, 4), max_width=4)
        b, ib = g.diagram(dom=ia[1], n_boxes=rng.randint(0, 3), max_width=4)
        x, ix = g.diagram(n_boxes=rng.randint(0, 3), max_width=3)
        obs, ars = g.functor_tables([ia, ib, ix], max_img=rng.choice([1, 2, 2, 3]))
        F = lambda p: [G.FUNCTOR, obs, ars, p]      # noqa: E731
        n = len(ia[2])
        i = rng.randint(0, n)
        laws = [
            ("then", F([G.THEN, a, b]), [G.THEN, F(a), F(b)], None),
            ("tensor", F([G.TENSOR, a, x]), [G.TENSOR, F(a), F(x)], None),
            ("id", F([G.ID, ia[0]]), None, ("id", ia[0])),
            ("dagger", F([G.DAGGER, a]), [G.DAGGER, F(a)], ("dagger", ia)),
            ("slice", [G.THEN, F([G.SLICE, a, [], [i]]), F([G.SLICE, a, [i], []])], F(a), None),
            ("dom_cod", F(a), None, ("dom_cod", ia)),
            ("sum", F(a), None, ("sum", a, [G.THEN, a, [G.ID, ia[1]]], obs, ars)),
        ]
        out.append((obs, ars, laws))
    return out


def image_ty(ci, cls, functor, t):
    return ci.canon_ty(functor(cls.ty(t)))


def run(tier, seed):
    import core_impl as ci
    rep = Report("C04", tier, seed)
    ci.CHECK_PURITY = True      # every operation must leave its arguments as they were
    proof_ok = common.proof_stage(rep, "C04")
    rng = random.Random(seed + 4)
    for cname in ("monoidal", "rigid"):
        cls = ci.Cls(cname)
        for use_callable in (False, True):
            ci.CALLABLE_FUNCTORS = use_callable
            allcases = cases(tier, seed + (7 if use_callable else 0), cname == "rigid")
            progs = []
            for obs, ars, laws in allcases:
                for name, lhs, rhs, extra in laws:
                    progs.append(lhs)
                    if rhs is not None:
                        progs.append(rhs)
            res = base.differential(rep, ci, cname, progs, project=base.project_public,
                                    family="corr:core:functor")
            outcome = {common.to_sexp(p): (i, m) for p, i, m in res}
            for obs, ars, laws in allcases:
                for name, lhs, rhs, extra in laws:
                    rep.case([cname, use_callable, name, lhs], nontrivial=True,
                             sample={"class": cname, "law": name, "lhs": lhs} if rep.evaluations % 2003 == 0 else None)
                    rep.count("law:" + name)
                    rep.count("maps:" + ("callable" if use_callable else "dict"))
                    bad, known = oracle(ci, cls, name, lhs, rhs, extra, obs, ars, outcome, rng)
                    if known:
                        rep.known_finding("F19", "F(a[::-1]) == F(a)[::-1] fails syntactically when a contains a Swap "
                                          "both of whose wires have images of length >= 2 (equal up to interchange)")
                        rep.count("known:F19")
                    elif bad:
                        rep.violation("functor law %s: %s" % (name, bad),
                                      {"class": cname, "law": name, "lhs": lhs, "rhs": rhs, "callable": use_callable,
                                       "replay": base.snippet(cname, lhs)})
    ci.CALLABLE_FUNCTORS = False
    bubble_stream(rep, random.Random(seed + 404), 150 if tier == "quick" else 2500)
    pro_stream(rep, random.Random(seed + 405), 80 if tier == "quick" else 1500)
    refusal_and_mapping_stream(rep, random.Random(seed + 406), 80 if tier == "quick" else 1500)
    base.settle(rep, "C04", proof_ok, "C04")
    return rep.finish(
        rule="classes monoidal and rigid, object/box maps given as dicts and as callables: random functors "
             "(object images of length 0..3, box images of 0..2 boxes) on random composable pairs / parallel "
             "diagrams; six laws per case (then, tensor, id, dagger, slice, dom/cod and, in rigid, adjoints); "
             "all cases non-trivial; distinct by (class, maps, law, program)",
        trusted_base=base.TRUSTED_CORE,
        assumptions=["laws are decided by the implementation's own == on both sides; each side is also compared "
                     "with the model", "F19 (dagger law on composite swaps) is a listed known finding"],
        checker_cmd="make -C coq Props/C04.vo  (coqc 8.16.1, Print Assumptions parsed)")


def refusal_and_mapping_stream(rep, rng, count):
    """Oracle-only stream on the real objects.  (a) The refusal side: a box map that is ILL-TYPED on
    some box of the diagram (the image of f does not go from F(dom f) to F(cod f)) is refused with
    AxiomError wherever that box sits - first, in the middle or last - never silently accepted with
    dom / cod that are not the images of dom / cod.  (b) Object and box maps given as any Mapping
    (dict, mappingproxy, ChainMap, a user Mapping class) or as a callable give the same functor."""
    import collections
    import types
    from discopy import monoidal, rigid, cat
    bad = 0

    class UserMap(collections.abc.Mapping):
        def __init__(self, d):
            self.d = dict(d)

        def __getitem__(self, k):
            return self.d[k]

        def __iter__(self):
            return iter(self.d)

        def __len__(self):
            return len(self.d)

    def fail(what, payload=None):
        nonlocal bad
        bad += 1
        rep.count("oracle:refusal-mapping:FAIL")
        if bad <= 4:
            rep.violation(what, payload or {})
    for k in range(count):
        mod = monoidal if k % 2 == 0 else rigid
        Ty, Box, Functor = mod.Ty, mod.Box, mod.Functor
        x, y, z = Ty("x"), Ty("y"), Ty("z")
        a, b = Ty("a"), Ty("b")
        ob = {x: a, y: a @ b, z: b}
        f, g, h = Box("f", x, y), Box("g", y, z), Box("h", z, x)
        good = {f: Box("Ff", a, a @ b), g: Box("Fg", a @ b, b), h: Box("Fh", b, a)}
        rep.count("stream:refusal-mapping")
        try:
            d = f >> g >> h
            which = rng.choice([f, g, h])
            wrong = dict(good)
            img = good[which]
            # (a wrong codomain on the LAST box is not looked at by the library: nothing follows it; the
            # property quantifies over well-typed box maps, so that case is left out)
            wrong[which] = Box("Fbad", img.dom @ b, img.cod) if rng.random() < 0.5 or which is h \
                else Box("Fbad", img.dom, img.cod @ a)
            try:
                r = Functor(ob, wrong)(d)
            except cat.AxiomError:
                r = None
            except Exception as exc:   # noqa
                fail("a box map that is ill-typed on %s makes the functor raise %s instead of AxiomError" % (
                    which.name, type(exc).__name__))
                continue
            if r is not None:
                fail("a box map whose image of %s is ill-typed is accepted: F(f >> g >> h) : %r -> %r" % (which.name, r.dom, r.cod),
                     {"class": mod.__name__, "box": which.name})
                continue
            ref = Functor(ob, good)(d)
            for name, om, am in (("mappingproxy", types.MappingProxyType(ob), types.MappingProxyType(good)),
                                 ("ChainMap", collections.ChainMap(ob), collections.ChainMap(good)),
                                 ("user Mapping", UserMap(ob), UserMap(good)),
                                 ("callable", lambda t: ob[t], lambda bx: good[bx])):
                try:
                    got = Functor(om, am)(d)
                except Exception as exc:   # noqa
                    fail("a functor whose maps are given as %s raises %s: %s" % (name, type(exc).__name__, exc))
                    break
                if got != ref:
                    fail("a functor whose maps are given as %s differs from the dict-given one" % name)
                    break
            else:
                rep.count("oracle:refusal-mapping:pass")
        except Exception as exc:   # noqa
            fail("refusal / mapping stream raised %s: %s" % (type(exc).__name__, exc))


def pro_stream(rep, rng, count):
    """Oracle-only stream on the real objects: diagrams typed over PRO (wires named 1) and functors
    whose object map is a DICT keyed by PRO(1) (monoidal) or given as a callable; every image has
    the images of dom / cod and F(a >> b) = F(a) >> F(b), F(a @ b) = F(a) @ F(b)."""
    from discopy import monoidal
    PRO, Box, Id, Functor = monoidal.PRO, monoidal.Box, monoidal.Id, monoidal.Functor
    bad = 0
    for k in range(count):
        m = rng.randint(0, 2)
        ob = {PRO(1): PRO(m)} if k % 2 == 0 else (lambda t: PRO(m * len(t)))
        ar = {}

        def box(name, a, b):
            bx = Box(name, PRO(a), PRO(b))
            ar[bx] = Box("F" + name, PRO(m * a), PRO(m * b))
            return bx
        a, b, c = rng.randint(0, 2), rng.randint(0, 2), rng.randint(0, 2)
        f, g, h = box("f", a, b), box("g", b, c), box("h", rng.randint(0, 2), rng.randint(0, 2))
        rep.count("stream:pro-functors")
        what = None
        try:
            F = Functor(ob, ar, ob_factory=PRO)
            d = f >> g
            w = f @ h
            for name, dd in (("f >> g", d), ("f @ h", w), ("Id(PRO(2))", Id(PRO(2))), ("f", f)):
                Fd = F(dd)
                if len(Fd.dom) != m * len(dd.dom) or len(Fd.cod) != m * len(dd.cod) \
                        or Fd.dom != F(dd.dom) or Fd.cod != F(dd.cod):
                    what = "F(%s) : %r -> %r, expected %d -> %d wires" % (name, Fd.dom, Fd.cod, m * len(dd.dom),
                                                                        m * len(dd.cod))
                    break
            if what is None and F(d) != F(f) >> F(g):
                what = "F(f >> g) != F(f) >> F(g) over PRO"
            if what is None and F(w) != F(f) @ F(h):
                what = "F(f @ h) != F(f) @ F(h) over PRO"
        except Exception as exc:   # noqa: every request here is well-typed
            what = "functor over PRO (%s object map) raised %s: %s" % (
                "dict" if k % 2 == 0 else "callable", type(exc).__name__, exc)
        if what:
            bad += 1
            rep.count("oracle:pro-functor:FAIL")
            if bad <= 3:
                rep.violation("functor on PRO-typed diagrams: " + what, {"image of PRO(1)": m})
        else:
            rep.count("oracle:pro-functor:pass")


def bubble_stream(rep, rng, count):
    """Oracle-only stream on the real objects: diagrams containing bubbles (with the default and
    with their own outer types, empty ones included), functors whose object map may erase wires.
    The image of a bubble is the bubble of the image, with the images of the outer types; dom / cod
    of every image are the images of dom / cod; F(pre >> bubble >> post) is the composite of the
    images."""
    from discopy import monoidal, rigid
    bad = 0

    def fail(what, payload):
        nonlocal bad
        bad += 1
        rep.count("oracle:bubble:FAIL")
        if bad <= 4:
            rep.violation(what, payload)
    for k in range(count):
        mod = monoidal if k % 2 == 0 else rigid
        Ty, Box, Functor = mod.Ty, mod.Box, mod.Functor
        names = ["x", "y", "z", "w"]
        img = {n: Ty(*[rng.choice(["a", "b"]) for _ in range(rng.choice([0, 0, 1, 1, 2]))]) for n in names}
        if k < 8:
            img["x"], img["y"] = Ty(), Ty("a", "b")          # an erased outer wire, a wide inside wire

        def ty(lo, hi):
            return Ty(*[rng.choice(names) for _ in range(rng.randint(lo, hi))])
        ob = {Ty(n): t for n, t in img.items()}
        types = Functor(ob, {})
        ar = {}

        def box(name, dom, cod):
            b = Box(name, dom, cod)
            ar[b] = Box("F" + name, types(dom), types(cod))
            return b
        a, b_ = ty(0, 2), ty(0, 2)
        inside = box("f", a, b_)
        if rng.random() < 0.4:
            c = ty(0, 2)
            inside = inside >> box("g", b_, c)
        kw = {}
        r = rng.random()
        if k < 8:
            inside = box("f", Ty("y"), Ty("y"))
            kw = {"dom": Ty("x"), "cod": Ty("x")}
        elif r < 0.3:
            kw = {}
        elif r < 0.5:
            kw = {"dom": Ty(), "cod": ty(0, 2)}
        else:
            kw = {"dom": ty(0, 2), "cod": ty(0, 2)}
        rep.count("stream:bubbles")
        try:
            bub = inside.bubble(**kw)
            want_dom = kw.get("dom", inside.dom)
            want_cod = kw.get("cod", inside.cod)
            if list(bub.dom.objects) != list(want_dom.objects) or list(bub.cod.objects) != list(want_cod.objects):
                fail("bubble(dom=%r, cod=%r) has type %r -> %r" % (kw.get("dom"), kw.get("cod"), bub.dom, bub.cod),
                     {"inside": repr(inside), "kw": repr(kw)})
                continue
            pre, post = box("p", ty(0, 1), bub.dom), box("q", bub.cod, ty(0, 1))
            F = Functor(ob, ar)
            whole = pre >> bub >> post
            Fb, Fw = F(bub), F(whole)
            why = None
            if Fb.dom != F(bub.dom) or Fb.cod != F(bub.cod):
                why = "F(bubble) : %r -> %r but F(dom) = %r, F(cod) = %r" % (Fb.dom, Fb.cod, F(bub.dom), F(bub.cod))
            elif Fw.dom != F(whole.dom) or Fw.cod != F(whole.cod):
                why = "dom / cod of the image of pre >> bubble >> post are not the images of dom / cod"
            elif Fw != F(pre) >> Fb >> F(post):
                why = "F(pre >> bubble >> post) != F(pre) >> F(bubble) >> F(post)"
            elif Fb != F(inside).bubble(dom=F(bub.dom), cod=F(bub.cod)):
                why = "F(bubble) is not the bubble of F(inside) on the images of the outer types"
        except Exception as exc:   # noqa: all requests of this stream are well-typed
            why = "raised %s: %s" % (type(exc).__name__, exc)
        if why:
            fail("functor on a diagram with a bubble: " + why,
                 {"class": mod.__name__, "inside": repr(inside), "outer": repr(kw),
                  "object map": repr({str(k_): str(v) for k_, v in ob.items()})})
        else:
            rep.count("oracle:bubble:pass")


def oracle(ci, cls, name, lhs, rhs, extra, obs, ars, outcome, rng):
    """Returns (violation text or None, known-finding flag)."""
    try:
        L = common.with_timeout(10.0, ci.interp, cls, lhs)
    except Exception as exc:   # noqa
        return "image could not be computed: %s" % type(exc).__name__, False
    bad = rescan(ci, L)
    if bad:
        return "image is ill-typed: " + bad, False
    functor = ci.make_functor(cls, obs, ars)
    if extra and extra[0] == "id":
        want = cls.Id(functor(cls.ty(extra[1])))
        return (None if L == want else "F(Id(t)) != Id(F(t))"), False
    if extra and extra[0] == "sum":
        # F(a + a' + 0) == F(a) + F(a') + 0 : the image of a formal sum is the sum of the images
        from discopy import monoidal
        da, db = ci.interp(cls, extra[1]), ci.interp(cls, extra[2])
        try:
            s = monoidal.Sum([da, db], da.dom, da.cod)
            want = monoidal.Sum([functor(da), functor(db)], functor(da.dom), functor(da.cod))
            empty = monoidal.Sum([], da.dom, da.cod)
            if functor(s) != want:
                return "F(a + b) != F(a) + F(b)", False
            if functor(empty) != monoidal.Sum([], functor(da.dom), functor(da.cod)):
                return "F(empty sum) is not the empty sum on the image types", False
        except Exception as exc:   # noqa: the images of two parallel diagrams are parallel
            return "F(a) + F(b) could not be formed for parallel a, b: %s: %s" % (type(exc).__name__, exc), False
        return None, False
    if extra and extra[0] == "dom_cod":
        info = extra[1]
        if L.dom != functor(cls.ty(info[0])) or L.cod != functor(cls.ty(info[1])):
            return "dom/cod of the image are not the images of dom/cod", False
        if cls.name == "rigid":
            t = cls.ty(info[0])
            if functor(t.l) != functor(t).l or functor(t.r) != functor(t).r:
                return "F(t.l) != F(t).l or F(t.r) != F(t).r", False
        return None, False
    try:
        R = common.with_timeout(10.0, ci.interp, cls, rhs)
    except Exception as exc:   # noqa
        return "right-hand side could not be computed: %s" % type(exc).__name__, False
    if L == R and R == L:
        return None, False
    if extra and extra[0] == "dagger" and f19_trigger(obs, extra[1]):
        il, ml = outcome.get(common.to_sexp(lhs), (None, None))
        ir, mr = outcome.get(common.to_sexp(rhs), (None, None))
        same_as_model = (il is not None and freeze(base.project_public(il)) == freeze(base.project_public(ml))
                         and ir is not None and freeze(base.project_public(ir)) == freeze(base.project_public(mr)))
        if same_as_model and L.dom == R.dom and L.cod == R.cod \
                and sorted(map(repr, L.boxes)) == sorted(map(repr, R.boxes)):
            f = so.random_tensor_functor(rng, L, dims=(1, 2))
            if max([len(L.dom)] + [len(x.cod) for x in L.layers.boxes]) > 7 or so.semantics(f, L) == so.semantics(f, R):
                return None, True
    return "lhs != rhs", False
