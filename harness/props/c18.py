"""C18 -- grammar front-ends only produce well-typed, grammatical derivations:
eager pregroup parser, brute-force search, CFG generation, cat2ty /
tree2diagram, and the biclosed -> rigid translation (type preservation)."""
import itertools
import json
import os
import random
import subprocess
import sys

import common
from common import Report, freeze
from props import base

MODEL = "grammar"
MODELS_LINE = "grammar:ExtractGrammar.v:Grammar/GProg.vo"

TRUSTED = [
    "Coq 8.16.1 kernel (coqc full .vo build; vm_compute only in closed Examples and the "
    "*_refuted witnesses)",
    "hand-written Gallina model coq/Grammar/{Pregroup,Biclosed,CFG,CCG,GProg}.v (on top of "
    "coq/Core) of discopy/grammar/{pregroup,cfg,ccg}.py, discopy/biclosed.py and "
    "rigid.Diagram.fa/ba/fc/bc/fx/bx/curry, tied to /repo only by this run's correspondence check",
    "extraction: ExtrOcamlBasic directives only; no Extract Constant; OCaml 4.13.1; runner/main.ml",
    "Python harness (generators, canonicaliser, oracles, random.shuffle recorder, eager_parse "
    "call counter used to cut the brute-force search), CPython 3.12",
]


# ====================================================================== model plumbing
def ensure_model():
    """runner/bin/grammar must be built from coq/Extract/ExtractGrammar.v.  With the
    models.txt entry common.ensure_runner does it; without it, say so and build
    it here the same way."""
    try:
        common.model_entry(MODEL)
        return
    except RuntimeError:
        pass
    sys.stderr.write("[C18] runner/models.txt has no entry for the grammar model; add the line\n"
                     "      %s\n[C18] building runner/bin/grammar directly with runner/build.sh\n"
                     % MODELS_LINE)
    ok, log = common.coq_build(["Grammar/GProg.vo"])
    if not ok:
        raise RuntimeError("coq build of Grammar/GProg.vo failed:\n" + "\n".join(log.splitlines()[-20:]))
    subprocess.run([os.path.join(common.VERIF, "runner", "build.sh"), MODEL, "ExtractGrammar.v"],
                   check=True)
    common._FRESH.add(MODEL)


def snippet(p, aux=None):
    return ("cd /verif/harness && PYTHONPATH=/verif/harness:%s /venv/bin/python -B -c \"import grammar_impl as gi; "
            "print(gi.observe(%s, %s)[0])\"" % (common.REPO, json.dumps(p), repr(aux)))


# ====================================================================== generators
def adj(x, k):
    return [x[0], x[1] + k]


def ty_r(t):
    return [adj(x, 1) for x in reversed(t)]


def ty_l(t):
    return [adj(x, -1) for x in reversed(t)]


# ---------------------------------------------------------------- pregroup
def gen_eager(rng, tier):
    import grammar_impl as gi
    n, s = [1, 0], [2, 0]
    progs = []
    # corpus
    progs += [
        [gi.EAGER, [], []], [gi.EAGER, [], [s]], [gi.EAGER, [[10, [s]]], [s]],
        [gi.EAGER, [[10, []]], []], [gi.EAGER, [[10, []], [11, []]], [s]],
        [gi.EAGER, [[10, [n]], [11, [adj(n, 1), s, adj(n, -1)]], [12, [n]]], [s]],
        [gi.EAGER, [[10, [n]], [11, [adj(n, -1), s]]], [s]],            # (t, t.l): not contracted
        [gi.EAGER, [[10, [adj(n, 1)]], [11, [n, s]]], [s]],             # (t.r, t): not contracted
        [gi.EAGER, [[10, [adj(n, -1)]], [11, [n, s]]], [s]],            # (n.l, n) is a (t, t.r) pair
        [gi.EAGER, [[10, [n, adj(n, 1), adj(n, 2)]]], [n]],             # leftmost pair first -> n.rr != n
        [gi.EAGER, [[10, [n, adj(n, 1), adj(n, 2)]]], [adj(n, 2)]],
        [gi.EAGER, [[10, [n, adj(n, 1)]]], []],
        [gi.EAGER, [[10, [s, n, adj(n, 1)]]], [s]],
        [gi.EAGER, [[10, [n, adj(n, 1), s]], [10, [n, adj(n, 1), s]]], [s, s]],
        [gi.EAGER, [[10, [n, s]], [11, [adj(s, 1), adj(n, 1)]]], []],  # nested cups
    ]
    # exhaustive small scope
    pool = [[], [n], [s], [adj(n, 1), s], [adj(n, 1), s, adj(n, -1)], [s, adj(n, -1)],
            [adj(n, -1)], [adj(n, 1)], [adj(s, 1), adj(n, 1)], [n, adj(n, 1)]]
    targets = [[s], [], [n, s]]
    maxlen = 3
    for k in range(1, maxlen + 1):
        for combo in itertools.product(range(len(pool)), repeat=k):
            if k == 3 and tier == "quick" and rng.random() < 0.5:
                continue
            ws = [[10 + i, pool[c]] for i, c in enumerate(combo)]
            progs.append([gi.EAGER, ws, targets[0] if k == 3 else rng.choice(targets)])
    # structured random: un-contract pairs from the target, cut into words
    for _ in range(2500 if tier == "quick" else 40000):
        names = [1, 2, 3]
        target = [[rng.choice(names), rng.choice([0, 0, 0, 1, -1])] for _ in range(rng.randint(0, 2))]
        scan = list(target)
        for _ in range(rng.randint(0, 5)):
            i = rng.randint(0, len(scan))
            x = [rng.choice(names), rng.choice([-2, -1, 0, 0, 0, 1])]
            scan[i:i] = [x, adj(x, 1)]
        if rng.random() < 0.2 and scan:            # ungrammatical variants
            j = rng.randrange(len(scan))
            scan[j] = adj(scan[j], rng.choice([-1, 1, 2]))
        cuts = sorted(rng.randint(0, len(scan)) for _ in range(rng.randint(0, 4)))
        pieces = [scan[a:b] for a, b in zip([0] + cuts, cuts + [len(scan)])]
        ws = [[rng.randint(10, 14), piece] for piece in pieces]
        if rng.random() < 0.1:
            rng.shuffle(ws)
        progs.append([gi.EAGER, ws, target if rng.random() < 0.9 else [[rng.choice(names), 0]]])
    return progs


def gen_brute(rng, tier):
    import grammar_impl as gi
    n, s = [1, 0], [2, 0]
    progs = [
        [gi.BRUTE, [], [s], 3, 10],
        [gi.BRUTE, [[10, [n]], [11, [adj(n, 1), s]]], [s], 3, 30],
        [gi.BRUTE, [[10, [n]], [11, [adj(n, 1), s, adj(n, -1)]]], [s], 4, 60],
        [gi.BRUTE, [[10, [s]]], [s], 0, 5], [gi.BRUTE, [[10, [s]]], [s], 2, 0],
        [gi.BRUTE, [[10, [n]]], [s], 2, 20],
        [gi.BRUTE, [[10, []]], [], 5, 9],
    ]
    pool = [[n], [s], [adj(n, 1), s], [adj(n, 1), s, adj(n, -1)], [s, adj(n, -1)], [adj(n, -1)],
            [n, adj(n, 1)], []]
    for _ in range(120 if tier == "quick" else 1500):
        vocab = [[10 + i, rng.choice(pool)] for i in range(rng.randint(0, 4))]
        # sentences grow to m words when the vocabulary has one word: keep those short
        progs.append([gi.BRUTE, vocab, rng.choice([[s], [s], [], [n]]), rng.randint(0, 6),
                      rng.randint(0, 60 if len(vocab) >= 2 else 20)])
    return progs


# ---------------------------------------------------------------- biclosed types
ATOMS = ["x", "y", "z", "NP"]


class BG:
    """Generator of slash types, biclosed boxes and diagrams."""

    def __init__(self, rng):
        import grammar_impl as gi
        self.rng, self.gi = rng, gi
        self.counter = 20

    def atom(self):
        return [0, self.gi.str_code(self.rng.choice(ATOMS))]

    def ob(self, depth):
        r = self.rng.random()
        if depth <= 0 or r < 0.4:
            return self.atom()
        k = 1 if r < 0.7 else 2
        return [k, self.ty(depth - 1, side=True), self.ty(depth - 1, side=True)]

    def ty(self, depth, side=False, lo=0, hi=2):
        """a product of 0..2 objects; sides of slashes are mostly single objects"""
        if side:
            n = self.rng.choice([1, 1, 1, 1, 2, 0])
        else:
            n = self.rng.randint(lo, hi)
        return [self.ob(depth) for _ in range(n)]

    def over(self, l, r):
        return [1, l, r]

    def under(self, l, r):
        return [2, l, r]

    # ---- special boxes with their (dom, cod), well-formed
    def special(self, depth, kind=None):
        gi, rng = self.gi, self.rng
        a, m, c = self.ty(depth, side=True), self.ty(depth, side=True), self.ty(depth, side=True)
        kind = kind if kind is not None else rng.choice(
            [gi.XFA, gi.XBA, gi.XFC, gi.XBC, gi.XFX, gi.XBX, gi.XBOX])
        if kind == gi.XFA:
            o = self.over(a, m)
            return [gi.XFA, [o]], [o] + m, a
        if kind == gi.XBA:
            u = self.under(a, m)
            return [gi.XBA, [u]], a + [u], m
        if kind == gi.XFC:
            l, r = self.over(a, m), self.over(m, c)
            return [gi.XFC, [l], [r]], [l, r], [self.over(a, c)]
        if kind == gi.XBC:
            l, r = self.under(a, m), self.under(m, c)
            return [gi.XBC, [l], [r]], [l, r], [self.under(a, c)]
        if kind == gi.XFX:
            l, r = self.over(a, m), self.under(c, m)
            return [gi.XFX, [l], [r]], [l, r], [self.under(c, a)]
        if kind == gi.XBX:
            l, r = self.over(m, a), self.under(m, c)
            return [gi.XBX, [l], [r]], [l, r], [self.over(c, a)]
        dom, cod = self.ty(depth), self.ty(depth)
        self.counter += 1
        return [gi.XBOX, 20 + self.counter % 7, dom, cod], dom, cod

    def diagram(self, depth, n_boxes, curry_depth=1):
        """a well-typed (dom, cod, boxes, offsets): a first row of boxes side by
        side, then boxes rewriting parts of the current type"""
        gi, rng = self.gi, self.rng
        row = []
        for _ in range(rng.randint(0, min(2, n_boxes))):
            row.append(self.any_box(depth, curry_depth))
        pads = [self.ty(depth, lo=0, hi=1) for _ in range(len(row) + 1)]
        dom, scan, boxes, offs = [], [], [], []
        dom += pads[0]
        for (b, d, c), pad in zip(row, pads[1:]):
            dom += d + pad
        scan = list(dom)
        off = len(pads[0])
        for (b, d, c), pad in zip(row, pads[1:]):
            boxes.append(b)
            offs.append(off)
            scan[off:off + len(d)] = c
            off += len(c) + len(pad)
        for _ in range(n_boxes - len(row)):
            i = rng.randint(0, len(scan))
            j = rng.randint(i, min(len(scan), i + 2))
            if rng.random() < 0.3 and curry_depth > 0:
                b, d, c = self.curry(depth, curry_depth - 1)
                if not d:                  # a Curry box without inputs fits anywhere
                    boxes.append(b)
                    offs.append(i)
                    scan[i:i] = c
                    continue
            self.counter += 1
            cod = self.ty(depth)
            boxes.append([gi.XBOX, 20 + self.counter % 7, scan[i:j], cod])
            offs.append(i)
            scan[i:j] = cod
        return dom, scan, boxes, offs

    def curry_dom_cod(self, d, c, n, left):
        L = len(d)

        def sl(t, a, b):
            return t[slice(a, b)]
        if left:
            return sl(d, n, None), [self.under(sl(d, None, n), c)]
        return sl(d, None, (-n or L)), [self.over(c, sl(d, (-n or L), None))]

    def curry(self, depth, curry_depth):
        gi, rng = self.gi, self.rng
        d, c, bs, offs = self.diagram(depth, rng.randint(0, 2), curry_depth)
        L = len(d)
        n = rng.choice([1, 1, 1, 2, L, 0, -1, L + 1]) if rng.random() < 0.5 else rng.randint(1, max(1, L))
        left = rng.randint(0, 1)
        dom, cod = self.curry_dom_cod(d, c, n, left)
        return [gi.XCURRY, d, c, bs, offs, n, left, rng.randint(0, 1)], dom, cod

    def any_box(self, depth, curry_depth):
        if curry_depth > 0 and self.rng.random() < 0.25:
            return self.curry(depth, curry_depth - 1)
        return self.special(depth)


def gen_b2r(rng, tier):
    import grammar_impl as gi
    g = BG(rng)
    sc = gi.str_code
    x, y, z = [0, sc("x")], [0, sc("y")], [0, sc("z")]
    e = [1, [], []]                      # Over(Ty(), Ty()): empty image
    yy = [2, [y], []]                    # y >> Ty(): image y.r
    progs = []   # (program, aux)

    def single(b, d, c):
        return [gi.B2R, d, c, [b], [0]]
    # corpus: the former minimal inputs of F16 / F21 (fixed upstream) are ordinary regression cases
    u_comp = [2, [y, z], [x]]
    progs += [
        (single([gi.XBA, [u_comp]], [y, z, u_comp], [x]), 1),                       # was F16 (fixed 20fba5f)
        (single([gi.XBA, [u_comp]], [y, z, u_comp], [x]), 0),
        (single([gi.XBA, [[2, [y, yy], [x]]]], [y, yy, [2, [y, yy], [x]]], [x]), 1),   # was F16: silently mistyped
        (single([gi.XBA, [[2, [], [x]]]], [[2, [], [x]]], [x]), 1),                  # was F16: empty left
        (single([gi.XBA, [[2, [], []]]], [[2, [], []]], []), 1),
        (single([gi.XBA, [[2, [y], [x]]]], [y, [2, [y], [x]]], [x]), 1),
        (single([gi.XBA, [[2, [e], [x]]]], [e, [2, [e], [x]]], [x]), 1),
        (single([gi.XFA, [[1, [x], [y, z]]]], [[1, [x], [y, z]], y, z], [x]), 1),
        (single([gi.XFA, [[1, [x, y], [y, z]]]], [[1, [x, y], [y, z]], y, z], [x, y]), 0),
        (single([gi.XFA, [[1, [x], []]]], [[1, [x], []]], [x]), 1),
        (single([gi.XFA, [[1, [], [x]]]], [[1, [], [x]], x], []), 1),
        (single([gi.XFA, [[1, [], [e]]]], [[1, [], [e]], e], []), 1),
    ]
    f = [gi.XBOX, 21, [x, y], [z]]
    g1 = [gi.XBOX, 22, [x, e], [z]]
    for n in (0, 1, 2, 3, -1, -2):
        for left in (0, 1):
            for inner, idom, icod in ((f, [x, y], [z]), (g1, [x, e], [z])):
                d, c = g.curry_dom_cod(idom, icod, n, left)
                progs.append((single([gi.XCURRY, idom, icod, [inner], [0], n, left, (n + left) % 2], d, c), 1))
    # exhaustive small scope: every special box over small sides
    sides = [[], [x], [y, z], [[1, [x], [y]]], [e], [yy], [[2, [y, z], [x]], x]]
    kinds = [gi.XFA, gi.XBA, gi.XFC, gi.XBC, gi.XFX, gi.XBX]
    for kind in kinds:
        for a in sides:
            for m in sides:
                for c in (sides if kind not in (gi.XFA, gi.XBA) else [[]]):
                    if tier == "quick" and kind not in (gi.XFA, gi.XBA) and rng.random() < 0.6:
                        continue
                    b, d, cod = special_of(gi, kind, a, m, c)
                    progs.append((single(b, d, cod), rng.randint(0, 1)))
    # structured random
    for _ in range(2200 if tier == "quick" else 30000):
        depth = rng.choice([0, 1, 1, 2, 2, 3])
        if rng.random() < 0.45:
            b, d, c = g.any_box(depth, curry_depth=2)
            progs.append((single(b, d, c), rng.randint(0, 1)))
        else:
            d, c, bs, offs = g.diagram(min(depth, 2), rng.randint(0, 4), curry_depth=1)
            progs.append(([gi.B2R, d, c, bs, offs], 0))
    # malformed (~15 %)
    for _ in range(len(progs) // 6):
        p, aux = rng.choice(progs)
        p = json.loads(json.dumps(p))
        r = rng.random()
        if r < 0.25 and p[3]:
            p[4][rng.randrange(len(p[4]))] += rng.choice([-1, 1, 2])
        elif r < 0.45:
            p[2] = g.ty(1)
        elif r < 0.6:
            p[1] = p[1] + g.ty(1, lo=1, hi=1) if rng.random() < 0.5 else p[1][1:]
        elif r < 0.8:
            k = rng.choice(kinds)
            bad = [k, g.ty(1, lo=0, hi=2)] if k in (gi.XFA, gi.XBA) else \
                [k, g.ty(2, lo=1, hi=1), g.ty(2, lo=1, hi=1)]
            p[3] = p[3] + [bad]
            p[4] = p[4] + [0]
        else:
            p[4] = p[4] + [0]
        progs.append((p, 0))
    return progs


def special_of(gi, kind, a, m, c):
    if kind == gi.XFA:
        o = [1, a, m]
        return [gi.XFA, [o]], [o] + m, a
    if kind == gi.XBA:
        u = [2, a, m]
        return [gi.XBA, [u]], a + [u], m
    if kind == gi.XFC:
        l, r = [1, a, m], [1, m, c]
        return [gi.XFC, [l], [r]], [l, r], [[1, a, c]]
    if kind == gi.XBC:
        l, r = [2, a, m], [2, m, c]
        return [gi.XBC, [l], [r]], [l, r], [[2, a, c]]
    if kind == gi.XFX:
        l, r = [1, a, m], [2, c, m]
        return [gi.XFX, [l], [r]], [l, r], [[2, c, a]]
    l, r = [1, m, a], [2, m, c]
    return [gi.XBX, [l], [r]], [l, r], [[1, c, a]]


def gen_ob(rng, tier):
    import grammar_impl as gi
    g = BG(rng)
    progs = [[gi.OB, []]]
    for _ in range(300 if tier == "quick" else 3000):
        progs.append([gi.OB, g.ty(rng.randint(0, 3), lo=0, hi=3)])
    return progs


# ---------------------------------------------------------------- CFG
def gen_cfg(rng, tier):
    import grammar_impl as gi
    progs = []

    def box(name, dom, cod):
        return [gi.KBOX, name, [[a, 0] for a in dom], [[a, 0] for a in cod], 0, []]
    # corpus: the doctest grammar S -> VP N, VP -> N V, Jane : N, loves : V
    S, N, V, VP = 1, 2, 3, 4
    doc = [box(100, [VP, N], [S]), box(101, [N, V], [VP]), box(500, [], [N]), box(501, [], [V])]
    progs += [
        [gi.CFG, doc, [[S, 0]], 2, 6, 100, 0, [], []],
        [gi.CFG, doc, [[S, 0]], 2, 6, 10, 1, [], []],
        [gi.CFG, doc, [[S, 0]], 0, 6, 7, 0, [], []],
        [gi.CFG, doc, [[S, 0]], 3, 5, 20, 0, [], []],       # depth limit hit exactly
        [gi.CFG, doc, [[S, 0]], 3, 0, 20, 0, [], []],
        [gi.CFG, doc, [], 3, 4, 5, 0, [], []],              # empty start: Id(Ty()) is a sentence
        [gi.CFG, doc, [[S, 0]], 3, 9, 20, 0, [doc[2]], []],  # Jane not twice: dead ends
        [gi.CFG, [], [[S, 0]], 3, 9, 20, 0, [], []],
    ]
    for _ in range(500 if tier == "quick" else 6000):
        nn = rng.randint(1, 4)
        names = list(range(1, nn + 1))
        prods = []
        for k in range(rng.randint(0, 6)):
            dom = [rng.choice(names) for _ in range(rng.choice([0, 0, 1, 2, 2]))]
            cod = [rng.choice(names)] if rng.random() < 0.92 else \
                [rng.choice(names) for _ in range(rng.choice([0, 2]))]
            name = (500 + k) if not dom else (100 + k)
            prods.append(box(name, dom, cod))
        if prods and rng.random() < 0.2:
            prods.append(rng.choice(prods))            # duplicate production
        start = [[rng.choice(names), 0] for _ in range(rng.choice([1, 1, 1, 1, 2, 0]))]
        nt = [p for p in prods if rng.random() < 0.2]
        progs.append([gi.CFG, prods, start, rng.choice([0, 1, 2, 3, 5]), rng.randint(0, 8),
                      rng.randint(0, 15), rng.randint(0, 1), nt, []])
    return progs


# ---------------------------------------------------------------- CCG
CAT_ATOMS = ["NP", "S", "N", "PP"]


class CG:
    def __init__(self, rng):
        import grammar_impl as gi
        self.rng, self.gi = rng, gi

    def cat(self, depth):
        """(string, expected biclosed object) of a well-bracketed category"""
        rng, gi = self.rng, self.gi
        if depth <= 0 or rng.random() < 0.35:
            a = rng.choice(CAT_ATOMS)
            mod = rng.choice(["", "", "[dcl]", "[b]", "[nb]"]) if a in ("S", "NP") else ""
            return a + mod, [0, gi.str_code(a)]
        (ls, lt), (rs, rt) = self.cat(depth - 1), self.cat(depth - 1)

        def par(s, t):
            return "(" + s + ")" if t[0] != 0 or self.rng.random() < 0.1 else s
        if rng.random() < 0.5:
            return par(ls, lt) + "/" + par(rs, rt), [1, [lt], [rt]]
        return par(ls, lt) + "\\" + par(rs, rt), [2, [rt], [lt]]

    def string_of(self, t):
        """a category string for a biclosed object produced by cat2ty"""
        gi = self.gi
        if t[0] == 0:
            return gi.code_str(t[1])

        def par(u):
            s = self.string_of(u)
            return "(" + s + ")" if u[0] != 0 else s
        if t[0] == 1:
            return par(t[1][0]) + "/" + par(t[2][0])
        return par(t[2][0]) + "\\" + par(t[1][0])

    def tree(self, target, depth):
        """a well-typed tree deriving the object `target`; returns (tree, cod)"""
        rng, gi = self.rng, self.gi
        chars = [ord(ch) for ch in self.string_of(target)]
        r = rng.random()
        if depth <= 0 or r < 0.3:
            return [0, rng.randint(30, 39), chars]
        _, y = self.cat(1)
        if r < 0.5:      # fa: X/Y, Y
            return [1, 1, chars, [self.tree([1, [target], [y]], depth - 1), self.tree(y, depth - 1)]]
        if r < 0.7:      # ba: Y, Y\X
            return [1, 0, chars, [self.tree(y, depth - 1), self.tree([2, [y], [target]], depth - 1)]]
        if r < 0.85 and target[0] == 1:   # fc: X/Y, Y/Z -> X/Z
            a, c = target[1][0], target[2][0]
            return [1, 2, chars, [self.tree([1, [a], [y]], depth - 1), self.tree([1, [y], [c]], depth - 1)]]
        k = rng.randint(0, 3)            # any other rule: a plain box
        return [1, rng.randint(40, 44), chars, [self.tree(self.cat(1)[1], depth - 1) for _ in range(k)]]


def gen_cat(rng, tier):
    import grammar_impl as gi
    g = CG(rng)
    progs, expect = [], {}
    for s in ["", "NP", "S[dcl]\\NP", "(S\\NP)/NP", "/", "NP/", "\\NP", "()", "(", "(NP", "NP)",
              "S[dcl", "S]x[", "[a][b]c", "((S\\NP)/(S\\NP))/NP", "(S/NP)", "A/B/C", "A\\B/C",
              "(A/B", "A)/B", "[/]", "S[a/b]", "S[[x]]y", "(())", "()/()"]:
        progs.append([gi.CAT, [ord(c) for c in s]])
    for _ in range(700 if tier == "quick" else 8000):
        s, t = g.cat(rng.randint(0, 3))
        p = [gi.CAT, [ord(c) for c in s]]
        expect[common.to_sexp(p)] = [t]
        progs.append(p)
    alphabet = "()/\\[]NPS"
    for _ in range(500 if tier == "quick" else 5000):
        s = "".join(rng.choice(alphabet) for _ in range(rng.randint(0, 6)))   # atoms <= 6 chars
        progs.append([gi.CAT, [ord(c) for c in s]])
    return progs, expect


def gen_tree(rng, tier):
    import grammar_impl as gi
    g = CG(rng)
    progs, expect = [], {}
    for _ in range(900 if tier == "quick" else 10000):
        _, target = g.cat(rng.randint(0, 2))
        t = g.tree(target, rng.randint(0, 3))
        p = [gi.TREE, t]
        expect[common.to_sexp(p)] = target
        progs.append(p)
    # malformed: rule applied to the wrong children, broken category strings
    wellformed = list(progs)
    for _ in range(len(wellformed) // 5):
        p = json.loads(json.dumps(rng.choice(wellformed)))
        node = p[1]
        for _ in range(rng.randint(0, 2)):
            if node[0] == 1 and node[3]:
                node = rng.choice(node[3])
        r = rng.random()
        if node[0] == 1 and r < 0.4:
            node[1] = rng.choice([0, 1, 2])
        elif node[0] == 1 and r < 0.7 and node[3]:
            rng.shuffle(node[3])
            if rng.random() < 0.5:
                node[3].pop()
        else:
            node[2] = [ord(c) for c in rng.choice(["/", "NP/", "\\S", "(", "", "S[x", "A/(B"])]
        progs.append(p)
    return progs, expect


# ====================================================================== oracles
def rescan(d):
    """well-typedness of a returned (rigid or monoidal) diagram, read independently"""
    from props.c01 import rescan as core_rescan
    return core_rescan(None, d)


def oracle_parse(gi, d, words, target, vocab=None):
    """Direct statement of the pregroup clause on a returned diagram: empty
    domain, the target as codomain, the words in order (or, for brute force,
    some words of the vocabulary) followed only by cups between adjacent
    (t, t.r) wires, and reading that really ends at the target."""
    from discopy import rigid
    from discopy.grammar import pregroup
    if list(d.dom.objects) != []:
        return "domain is not empty"
    if d.cod != target or target != d.cod:
        return "codomain is not the requested target"
    # the same comparison without the library's == : names and winding numbers, one by one
    if [(repr(o.name), getattr(o, "z", 0)) for o in d.cod.objects] != \
            [(repr(o.name), getattr(o, "z", 0)) for o in target.objects]:
        return "codomain %r is not the requested target %r (compared as (name, winding) pairs)" % (d.cod, target)
    k = 0
    while k < len(d.boxes) and isinstance(d.boxes[k], pregroup.Word):
        k += 1
    given = d.boxes[:k]
    if words is not None:
        if len(given) != len(words) or any(a is not b and a != b for a, b in zip(given, words)):
            return "the leading boxes are not the given words in order"
    else:
        if k == 0:
            return "brute force returned a parse of no words"
        if any(not any(w == b for w in vocab) for b in given):
            return "brute force used a word outside the vocabulary"
    scan, off = [], 0
    for w, o in zip(given, d.offsets[:k]):
        if list(w.dom.objects) != []:
            return "a word has a non-empty domain"
        if o != len(scan):
            return "a word is not tensored to the right of the previous ones"
        scan += list(w.cod.objects)
    for b, o in zip(d.boxes[k:], d.offsets[k:]):
        if not isinstance(b, rigid.Cup):
            return "box %r after the words is not a cup" % (b,)
        if not (isinstance(o, int) and 0 <= o <= len(scan) - 2):
            return "cup offset out of range"
        t, u = scan[o], scan[o + 1]
        if not (t.name == u.name and u.z == t.z + 1):
            return "cup at offset %d is not on an adjacent (t, t.r) pair: %r, %r" % (o, t, u)
        if list(b.dom.objects) != [t, u]:
            return "cup does not carry the types of the wires it joins"
        del scan[o:o + 2]
    if scan != list(target.objects):
        return "contracting the cups does not leave the target"
    return rescan(d)


def oracle_image(gi, D, img):
    """type preservation: dom / cod of the image are the images of dom / cod"""
    from discopy import biclosed
    want_dom, want_cod = biclosed.biclosed2rigid(D.dom), biclosed.biclosed2rigid(D.cod)
    if img.dom != want_dom or want_dom != img.dom:
        return "domain of the image %s is not the image of the domain %s" % (img.dom, want_dom)
    if img.cod != want_cod or want_cod != img.cod:
        return "codomain of the image %s is not the image of the codomain %s" % (img.cod, want_cod)
    return rescan(img)


def oracle_object_map(gi, t, img):
    """the object map on slash types: len and adjoint structure, recomputed"""
    def F(x):
        if x[0] == 0:
            return [(x[1], 0)]
        l = [w for y in x[1] for w in F(y)]
        r = [w for y in x[2] for w in F(y)]
        if x[0] == 1:
            return l + [(n, z - 1) for n, z in reversed(r)]
        return [(n, z + 1) for n, z in reversed(l)] + r
    want = [w for y in t for w in F(y)]
    got = [(gi.str_code(o.name), o.z) for o in img.objects]
    return None if want == got else "object map gives %s, expected %s" % (got, want)


def oracle_cfg(gi, p, sentences):
    """every generated sentence is a derivation of the start symbol from the
    empty type using only the given productions (re-derived independently)"""
    _, prods, start, ms, md, mi, rd, nt, _ = p
    boxes = [gi.mbox(b) for b in prods]
    ntb = [gi.mbox(b) for b in nt]
    want = gi.mty(start)
    if ms and len(sentences) > ms:
        return "more than max_sentences sentences"
    if len(sentences) > mi:
        return "more sentences than iterations"
    for d in sentences:
        if list(d.dom.objects) != []:
            return "sentence still has non-terminals: dom = %s" % (d.dom,)
        if d.cod != want:
            return "sentence does not derive the start symbol"
        if any(not any(b == q for q in boxes) for b in d.boxes):
            return "sentence uses a box that is not a production"
        if not len(d.boxes) < md:
            return "derivation deeper than max_depth"
        for q in ntb:
            if sum(1 for b in d.boxes if b == q) > 1:
                return "a not_twice production occurs twice"
        # re-derivation: rewrite from the start symbol, last box first
        cur = list(want.objects)
        for b, o in zip(reversed(d.boxes), reversed(d.offsets)):
            cod, dom = list(b.cod.objects), list(b.dom.objects)
            if o < 0 or cur[o:o + len(cod)] != cod or len(cod) != 1:
                return "box %r does not rewrite a symbol of the sentential form" % (b,)
            cur[o:o + 1] = dom
        if cur:
            return "re-derivation does not end in the empty type"
        bad = rescan(d)
        if bad:
            return bad
    if rd and any(a == b for i, a in enumerate(sentences) for b in sentences[:i]):
        return "duplicate sentence although remove_duplicates"
    return None


# ====================================================================== the check
def literal_streams(rep, gi, rng, count):
    """Oracle-only streams on the real objects, outside the integer-coded DSL:
    (a) pregroup parsing with the literal type names of the documentation ('s', 'n', ...), every
        kind of target including the empty type and multi-wire targets, through eager_parse and
        brute_force: whatever is returned must satisfy the parse oracle for the REQUESTED target;
    (b) Curry boxes on their own (n_wires from 0 to len(dom), both sides, composite and nested
        slash types): the box has the curried type and its rigid image the image of that type."""
    from discopy import rigid, biclosed
    from discopy.grammar import pregroup
    s, n, p = rigid.Ty('s'), rigid.Ty('n'), rigid.Ty('p')
    vocab_types = [n, n.r @ s @ n.l, n.r @ s, s @ n.l, n @ n.l, n.r @ n, s, p, p.r @ s, n.r @ n.r @ s @ n.l,
                   s.r @ s, n.l.l @ n.l, rigid.Ty()]
    from discopy import monoidal as _monoidal
    targets = [s, rigid.Ty(), n, s @ s, n @ s, p, n.r @ s,
               _monoidal.Ty('s'), _monoidal.Ty('n'), s.l, s.r, _monoidal.Ty('s', 's')]     # plain (unwound) targets too
    vocab_types = vocab_types + [n.r @ s.l, s.r @ n.l, n.r @ s.r, s.l @ n.l, s.l, s.r]
    bad = 0

    def fail(what, payload):
        nonlocal bad
        bad += 1
        rep.count("oracle:literal:FAIL")
        if bad <= 4:
            rep.violation(what, payload)
    for k in range(count):
        words = [pregroup.Word("w%d" % i, rng.choice(vocab_types)) for i in range(rng.randint(0, 4))]
        if k % 3 == 0:
            words = [pregroup.Word('Alice', n), pregroup.Word('loves', n.r @ s @ n.l), pregroup.Word('Bob', n)]
        target = targets[k % len(targets)] if k < 4 * len(targets) else rng.choice(targets)
        rep.count("stream:literal-pregroup")
        for how in ("eager", "brute"):
            try:
                if how == "eager":
                    d = common.with_timeout(20.0, lambda: pregroup.eager_parse(*words, target=target))
                    given = words
                else:
                    if not words or k % 4:
                        continue
                    # brute force enumerates sentences without end when none parses: a short budget
                    gen = pregroup.brute_force(*words, target=target)
                    d = common.with_timeout(0.5, lambda: next(iter(_bounded(gen, 300)), None))
                    given = None
                    if d is None:
                        continue
            except NotImplementedError:
                rep.count("literal:%s:no-parse" % how)
                continue
            except Exception as exc:   # noqa
                if type(exc).__name__ in ("CaseTimeout", "StopIteration"):
                    continue
                fail("pregroup %s parse raised %s: %s" % (how, type(exc).__name__, exc),
                     {"words": [repr(w) for w in words], "target": repr(target)})
                continue
            why = oracle_parse(gi, d, given, target, vocab=words)
            if why:
                fail("pregroup %s parse for target %r: %s" % (how, target, why),
                     {"words": [repr(w) for w in words], "target": repr(target), "returned": repr(d)[:600],
                      "replay": "from discopy import *; from discopy.grammar.pregroup import *; "
                                "eager_parse(%s, target=%r)" % (", ".join(repr(w) for w in words), target)})
            else:
                rep.count("oracle:literal-parse:pass")

    x, y, z = biclosed.Ty('x'), biclosed.Ty('y'), biclosed.Ty('z')

    def bty(depth):
        if depth == 0 or rng.random() < 0.4:
            return rng.choice([x, y, z])
        l, r = bty(depth - 1), bty(depth - 1)
        return (l << r) if rng.random() < 0.5 else (l >> r)

    def key(t):
        return [repr(o) for o in t.objects]
    for k in range(count):
        dom_parts = [bty(2) for _ in range(rng.randint(1, 4))]
        dom = biclosed.Ty().tensor(*dom_parts) if dom_parts else biclosed.Ty()
        cod = bty(2)
        f = biclosed.Box('f', dom, cod)
        m = len(dom)
        n_wires, left = rng.randint(0, m), bool(rng.randint(0, 1))
        rep.count("stream:literal-curry")
        try:
            c = biclosed.Curry(f, n_wires, left)
            img = common.with_timeout(20.0, biclosed.biclosed2rigid, c)
        except Exception as exc:   # noqa
            fail("Curry(f, %d, left=%s) or its rigid image raised %s: %s" % (n_wires, left, type(exc).__name__, exc),
                 {"dom": repr(dom), "cod": repr(cod)})
            continue
        if left:
            want_dom, moved = key(dom[n_wires:]), dom[:n_wires]
            want_cod = ["Under(%r, %r)" % (moved, cod)]
        else:
            cut = m - n_wires if n_wires else m      # n_wires == 0 curries nothing
            want_dom, moved = key(dom[:cut]), dom[cut:]
            want_cod = ["Over(%r, %r)" % (cod, moved)]
        why = None
        if key(c.dom) != want_dom or key(c.cod) != want_cod:
            why = "Curry box has type %r -> %r, expected %r -> %r" % (key(c.dom), key(c.cod), want_dom, want_cod)
        else:
            why = oracle_image(gi, c, img)
        if why:
            fail("currying %d wire(s) on the %s: %s" % (n_wires, "left" if left else "right", why),
                 {"dom": repr(dom), "cod": repr(cod), "n_wires": n_wires, "left": left,
                  "replay": "from discopy.biclosed import *; c = Curry(Box('f', %r, %r), %d, left=%s); "
                            "c.dom, c.cod, biclosed2rigid(c).dom" % (dom, cod, n_wires, left)})
        else:
            rep.count("oracle:literal-curry:pass")


def _bounded(gen, limit):
    for k, x in enumerate(gen):
        yield x
        if k >= limit:
            return


def run(tier, seed):
    import grammar_impl as gi
    from discopy import biclosed
    rep = Report("C18", tier, seed)
    proof_ok = common.proof_stage(rep, "C18")
    ensure_model()
    rng = random.Random(seed)

    eager = gen_eager(rng, tier)
    brute = gen_brute(rng, tier)
    b2r = gen_b2r(rng, tier)
    obs = gen_ob(rng, tier)
    cfgs = gen_cfg(rng, tier)
    cats, cat_expect = gen_cat(rng, tier)
    trees, tree_expect = gen_tree(rng, tier)
    cases = ([(p, None) for p in eager] + [(p, None) for p in brute] + b2r
             + [(p, None) for p in obs]
             + [(p, rng.randint(0, 10 ** 6)) for p in cfgs]
             + [(p, None) for p in cats] + [(p, None) for p in trees])

    # ---- implementation
    impl, raw, sent = [], [], []
    for p, aux in cases:
        out, value, q = gi.observe(p, aux)
        impl.append(out)
        raw.append(value)
        sent.append(gi.strip_flags(q))
    # ---- model
    mod = common.run_model_parallel(MODEL, sent)
    rep.programs = len(cases)

    for (p, aux), q, a, b, value in zip(cases, sent, impl, mod, raw):
        op = p[0]
        opname = gi.OPNAMES[op]
        rep.count("op:" + opname)
        if b[0] == 2:
            raise RuntimeError("model runner crashed on %r" % (q,))
        if b[0] == 1 and b[1] == 8:
            raise RuntimeError("model could not decode %r" % (q,))
        if b[0] == 1 and b[1] == 7:
            rep.count("skipped:model-fuel")
            continue
        rep.count("outcome:%s:%s" % (opname, "value" if a[0] == 0 else "err%d" % a[1]))
        rep.disagreements_checked += 1
        agree = freeze(a) == freeze(b)
        if not agree:
            rep.extra.setdefault("disagreements", []).append(
                {"family": "corr:grammar:" + opname, "class": "grammar", "program": q,
                 "aux": aux, "impl": a, "model": b})
        nontrivial = a[0] == 1 or op in (gi.BRUTE, gi.CFG, gi.TREE) or (
            op in (gi.EAGER, gi.B2R) and len(a[1][2]) >= 2) or (op in (gi.CAT, gi.OB) and len(str(a)) > 30)
        rep.case([q, aux], nontrivial=nontrivial,
                 sample={"program": [opname] + q[1:], "impl": "value" if a[0] == 0 else a}
                 if rep.evaluations % 1499 == 0 else None)
        if a == [1, 102]:
            rep.violation("an ill-typed diagram was built inside the library (hook DISCOPY_VERIF)",
                          {"program": q, "aux": aux, "impl": a, "replay": snippet(p, aux)})
            continue
        # ---- property oracles on the implementation's own result
        bad = None
        if op == gi.EAGER:
            if a[0] == 0:
                from discopy.grammar import pregroup
                given = [pregroup.Word("n%d" % n, gi.rty(t)) for n, t in p[1]]
                bad = oracle_parse(gi, value, given, gi.rty(p[2]))
                rep.count("parse:cups=%d" % min(len(value.boxes) - len(p[1]), 6))
            elif a[1] != gi.ERR["NotImplementedError"]:
                bad = "eager_parse failed with something else than NotImplementedError"
        elif op == gi.BRUTE:
            if a[0] == 0:
                from discopy.grammar import pregroup
                vocab = [pregroup.Word("n%d" % n, gi.rty(t)) for n, t in p[1]]
                if len(value) > p[3]:
                    bad = "more results than requested"
                for d in value:
                    bad = bad or oracle_parse(gi, d, None, gi.rty(p[2]), vocab=vocab)
                rep.count("brute:results=%d" % len(value))
            else:
                bad = "brute_force raised"
        elif op == gi.B2R:
            tag, D = gi.guarded(gi.bdiagram, p[1], p[2], p[3], p[4])
            if tag != 0:
                rep.count("b2r:malformed")
            else:
                rep.count("b2r:well-formed")
                if a[0] == 0:
                    bad = oracle_image(gi, D, value)
                else:
                    bad = "translation of a well-typed biclosed diagram refused (error %d)" % a[1]
        elif op == gi.OB:
            bad = oracle_object_map(gi, p[1], value) if a[0] == 0 else "object map raised"
        elif op == gi.CFG:
            bad = oracle_cfg(gi, p, value) if a[0] == 0 else "CFG.generate raised"
            if a[0] == 0:
                rep.count("cfg:sentences=%d" % min(len(value), 6))
        elif op == gi.CAT:
            want = cat_expect.get(common.to_sexp(p))
            if want is not None:
                if a[0] != 0:
                    bad = "cat2ty refused a well-bracketed category"
                elif freeze(a[1]) != freeze(want):
                    bad = "cat2ty returned %s for a category denoting %s" % (a[1], want)
        elif op == gi.TREE:
            want = tree_expect.get(common.to_sexp(p))
            if a[0] == 0:
                D, img = value
                if list(D.dom.objects) != []:
                    bad = "tree2diagram result has a non-empty domain"
                elif img is None:
                    bad = "translation of a tree2diagram result refused"
                else:
                    bad = oracle_image(gi, D, img)
                if not bad and want is not None and freeze(a[1][0][1]) != freeze([want]):
                    bad = "derivation does not end in the category of the root"
                rep.count("tree:boxes=%d" % min(len(D.boxes), 8))
            elif want is not None:
                bad = "tree2diagram refused a well-typed derivation tree (error %d)" % a[1]
        if bad:
            rep.violation(bad, {"program": q, "aux": aux, "impl": a, "model": b,
                                "replay": snippet(p, aux)})
    literal_streams(rep, gi, rng, 120 if tier == "quick" else 1500)
    base.settle(rep, "C18", proof_ok, "C18")
    return rep.finish(
        rule="eager_parse: hand corpus, every sentence of <= 3 words over 10 word types, sentences made by "
             "un-contracting (t, t.r) pairs from a target and cutting into words (20% perturbed); "
             "brute_force: random vocabularies, first n results within m candidates; biclosed2rigid: "
             "former F16/F21 inputs and a Curry corpus, every FA/BA/FC/BC/FX/BX box over 7 side types (empty, atomic, "
             "composite, slash, empty-image), random boxes and multi-box diagrams with nested slash "
             "types of depth <= 3 and nested Curry, ~15% malformed (offsets, cod, constructor "
             "arguments); object map on random types; CFG.generate on random grammars with recorded "
             "shuffles; cat2ty on well-bracketed and random strings; tree2diagram on generated "
             "derivation trees + 20% broken ones; non-trivial = refusal, >= 2 boxes, or a "
             "list/tree/sentence result; distinct by program",
        trusted_base=TRUSTED,
        assumptions=[
            "words have empty domains (pregroup.Word default); targets are rigid types",
            "brute_force is observed as its first n results with the search cut off after m calls of "
            "eager_parse (the generator itself does not terminate on most vocabularies)",
            "random.shuffle is an explicit oracle: the real shuffles are recorded in-process and "
            "replayed into the model; theorems quantify over every oracle",
            "set membership of sentences (remove_duplicates) is modelled by ==; grammars whose Word "
            "and Box productions are == but print differently are not generated",
            "atoms of biclosed types have names of <= 6 latin-1 characters (wire format)",
            "every Curry box (either side, any n_wires incl. 0, over-long, negative) is judged by the "
            "image oracle",
            "no known finding is excused: F16 (20fba5f) and F21 (d9e48bc) are fixed upstream and "
            "their minimal inputs are ordinary corpus cases"],
        checker_cmd="make -C coq Props/C18.vo  (coqc 8.16.1, Print Assumptions parsed)")
