"""C01 -- every diagram the library hands back is well-typed."""
import random

import common
from common import Report
from props import base
import gen as G


def rescan(ci, d):
    """Independent, range-checked reading of a returned diagram: no slicing tricks and
    no use of the library's own == (objects are compared as (name, winding) pairs, boxes
    as canonical tuples).  Returns None when well-typed, else what is wrong."""
    def T(t):
        # closed types (biclosed Over / Under) are their own single object and have no name:
        # their repr prints both sides structurally
        return [(repr(x.name), getattr(x, "z", 0)) if hasattr(x, "name") else ("type", repr(x))
                for x in t.objects]

    def B(b):
        if not hasattr(b, "name"):      # a slice used as a box (foliation)
            return (type(b).__name__, T(b.dom), T(b.cod), [B(x) for x in b.boxes], list(b.offsets))
        return (type(b).__name__, repr(b.name), T(b.dom), T(b.cod), bool(getattr(b, "is_dagger", False)),
                repr(getattr(b, "data", None)))
    dom, cod = T(d.dom), T(d.cod)
    boxes, offs, layers = d.boxes, d.offsets, d.layers
    if len(boxes) != len(offs) or len(boxes) != len(layers.boxes):
        return "boxes, offsets and layers have different lengths"
    if T(layers.dom) != dom or T(layers.cod) != cod:
        return "layer view does not start at dom / end at cod"
    scan = dom
    for k, (box, off, layer) in enumerate(zip(boxes, offs, layers.boxes)):
        left, lbox, right = layer
        bdom, bcod = T(box.dom), T(box.cod)
        if not isinstance(off, int):
            return "offset %r is not an int" % (off,)
        if off < 0 or off + len(bdom) > len(scan):
            return "box %d: offset %d out of range for width %d" % (k, off, len(scan))
        if scan[off:off + len(bdom)] != bdom:
            return "box %d does not find its domain at offset %d" % (k, off)
        if T(left) != scan[:off] or T(right) != scan[off + len(bdom):]:
            return "layer %d disagrees with the reading of boxes and offsets" % k
        if B(lbox) != B(box):
            return "layer %d carries a different box" % k
        scan = scan[:off] + bcod + scan[off + len(bdom):]
    if scan != cod:
        return "reading boxes and offsets does not reach the codomain"
    return None


def oracle_outcome(ci, cls, p):
    """Run p on the implementation and re-scan whatever diagrams come back."""
    try:
        v = common.with_timeout(10.0, ci.interp, cls, p)
    except Exception:   # noqa: refusals are fine for C01
        return None
    ds = v if isinstance(v, list) else [v]
    for k, d in enumerate(ds):
        bad = rescan(ci, d)
        if bad:
            return "returned diagram%s is ill-typed: %s" % (
                " #%d of the trace" % k if isinstance(v, list) else "", bad)
    if p[0] in (G.FOLIATE, G.FOLIATION):
        return foliation_oracle(ci, cls, p, ds)
    return None


def foliation_oracle(ci, cls, p, ds):
    """Independent statements about foliate / foliation / flatten / depth on the real objects:
    every step keeps dom, cod and the multiset of boxes; the slices compose from dom to cod;
    the foliation diagram itself re-scans; flattening it gives the last yielded step; depth is
    the number of slices; every slice is one layer of side-by-side boxes."""
    def T(t):
        return [(repr(x.name), getattr(x, "z", 0)) for x in t.objects]

    def sig(d):
        return (T(d.dom), T(d.cod), [ci.canon_box(b) for b in d.boxes], [int(o) for o in d.offsets])
    try:
        d = common.with_timeout(10.0, ci.interp, cls, p[1])
        steps = common.with_timeout(10.0, lambda: list(d.foliate()))
        fol = common.with_timeout(10.0, d.foliation)
        flat = common.with_timeout(10.0, fol.flatten)
        depth = common.with_timeout(10.0, d.depth)
    except Exception as exc:   # noqa
        return "foliation of a well-typed diagram raised %s: %s" % (type(exc).__name__, exc)
    boxes0 = sorted(repr(ci.canon_box(b)) for b in d.boxes)
    for k, st in enumerate(steps):
        if T(st.dom) != T(d.dom) or T(st.cod) != T(d.cod):
            return "foliate step #%d changed the domain / codomain" % k
        if sorted(repr(ci.canon_box(b)) for b in st.boxes) != boxes0:
            return "foliate step #%d changed the boxes" % k
    bad = rescan(ci, fol)
    if bad:
        return "foliation() is ill-typed as a diagram of slices: %s" % bad
    slices = list(fol.boxes)
    scan = T(d.dom)
    for k, sl in enumerate(slices):
        if T(sl.dom) != scan:
            return "slice #%d does not start where the previous one ends" % k
        scan = T(sl.cod)
        if len(sl.boxes) == 0:
            return "slice #%d is empty" % k
        for j in range(len(sl.boxes) - 1):
            if sl.offsets[j] + len(sl.boxes[j].cod) > sl.offsets[j + 1]:
                return "slice #%d is not one layer of side-by-side boxes (boxes %d, %d)" % (k, j, j + 1)
    if scan != T(d.cod):
        return "the slices do not end at the codomain"
    last = steps[-1] if steps else d
    if sig(flat) != sig(last):
        return "foliation().flatten() is not the last diagram yielded by foliate()"
    if depth != len(slices):
        return "depth() = %r but the foliation has %d slices" % (depth, len(slices))
    if ds is not None and p[0] == G.FOLIATION and [sig(x) for x in ds] != [sig(x) for x in slices]:
        return "foliation() is not deterministic"
    return None


def programs(tier, seed, rigid):
    rng = random.Random(seed * 7 + (1 if rigid else 0))
    g = G.G(rng, rigid=rigid)
    progs = []
    # corpus: hand-written edge cases (F1, F17 regressions and friends)
    a, b = [1, 0], [2, 0]
    s = [G.KBOX, 60, [], [], 0, []]
    f, gg, h = ([G.KBOX, 61, [a], [b], 0, []], [G.KBOX, 62, [b], [a, a], 0, []],
                [G.KBOX, 63, [a, a], [b], 0, []])
    fgh = [G.MK, [a], [b], [f, gg, h], [0, 0, 0]]
    progs += [
        [G.MK, [a], [a], [s], [7]], [G.MK, [a, b], [a, b], [s], [-1]],
        [G.MK, [a], [a], [s], [1]], [G.MK, [a], [a], [s], [2]], [G.MK, [], [], [s, s], [0, 0]],
        [G.SLICEREV, fgh, [2], [0]], [G.SLICEREV, fgh, [1], []], [G.SLICEREV, fgh, [], [1]],
        [G.SLICEREV, fgh, [0], [2]], [G.SLICEREV, fgh, [-9], [-9]], [G.SLICEREV, fgh, [5], [5]],
        [G.SLICEREV, [G.ID, [a]], [0], [0]], [G.SLICEREV, [G.BOX, f], [0], []],
        [G.SLICE, fgh, [1], [1]], [G.SLICE, fgh, [3], []], [G.SLICE, fgh, [-3], [0]],
        [G.SLICE, [G.ID, [a, b]], [], []], [G.DAGGER, [G.ID, []]],
        [G.THEN, [G.SLICE, fgh, [], [1]], [G.SLICE, fgh, [1], []]],
    ]
    # exhaustive small scope: every diagram with <= k boxes x every unary operation
    k = 2 if tier == "quick" else 3
    sig = [bx for bx in G.small_signature() if len(bx[2]) + len(bx[3]) <= 3]
    if tier == "quick":
        sig = sig[::2]
    small = G.enumerate_diagrams(k, [[], [a], [a, b]], sig, max_width=3)
    rng.shuffle(small)
    cap = 400 if tier == "quick" else 4000
    for dom, cod, boxes, offs in small[:cap]:
        p = [G.MK, dom, cod, boxes, offs]
        n = len(boxes)
        progs.append(p)
        progs.append([G.DAGGER, p])
        for i in range(n):
            for j in range(n):
                if i != j:
                    progs.append([G.INTERCHANGE, p, i, j, rng.randint(0, 1)])
        for st in range(-1, n + 1):
            progs.append([G.SLICE, p, [st], []])
            progs.append([G.SLICEREV, p, [st], [rng.randint(-1, n)]])
        progs.append([G.NORMALFORM, p, rng.randint(0, 1)])
        progs.append([G.FOLIATE, p])
        progs.append([G.FOLIATION, p])
    # foliation of wider random diagrams (many parallel boxes: several boxes per slice)
    for _ in range(250 if tier == "quick" else 4000):
        p, info = g.diagram(n_boxes=rng.randint(2, 7), max_width=7)
        progs.append([rng.choice([G.FOLIATE, G.FOLIATION]), p])
    # structured random: one to three API calls on top of a grown diagram
    n_rand = 2500 if tier == "quick" else 40000
    for _ in range(n_rand):
        p, info = g.diagram()
        depth = rng.randint(1, 3)
        q = g.op_on(p, info)
        for _ in range(depth - 1):
            if q[0] in (G.NORMALIZE, G.FOLIATE, G.FOLIATION):
                break
            q = g.op_on(q, info) if rng.random() < 0.5 else q
        progs.append(q)
        if rng.random() < 0.25:
            progs.append(g.functor(p, info))
    # swaps, permutations, cups, caps, transposes
    for _ in range(150 if tier == "quick" else 1500):
        progs.append([G.SWAP, g.ty(0, 3), g.ty(0, 3)])
        if rigid:
            t = g.ty(0, 3)
            tr = [[x[0], x[1] + 1] for x in reversed(t)]
            progs.append([rng.choice([G.CUPS, G.CAPS]), t, tr])
            progs.append([rng.choice([G.CUPS, G.CAPS]), tr, t])
    # mixed classes: plain monoidal boxes (names >= 200) composed with rigid wires of every winding
    if rigid:
        for _ in range(150 if tier == "quick" else 2000):
            x = g.ob()
            m = [rng.choice([1, 2, 3]), 0]
            plain = [G.KBOX, 200 + rng.randint(0, 3), [[x[0], 0]], [m], 0, []]
            pre = [G.BOX, g.box(g.ty(0, 1), [x])]
            if rng.random() < 0.5:
                progs.append([G.THEN, pre, [G.BOX, plain]])
            else:
                w = g.ob()
                progs.append([G.THEN, [G.TENSOR, pre, [G.ID, [w]]], [G.TENSOR, [G.BOX, plain], [G.ID, [w]]]])
            cap = g.cap_box(x)
            progs.append([G.THEN, [G.BOX, cap], [G.TENSOR, [G.BOX, [G.KBOX, 201, [[cap[3][0][0], 0]], [m], 0, []]],
                                                 [G.ID, [cap[3][1]]]]])
    # malformed stream (~15 %)
    for _ in range(len(progs) // 6):
        progs.append(g.malformed())
    return progs


def run(tier, seed):
    import core_impl as ci
    rep = Report("C01", tier, seed)
    ci.CHECK_PURITY = True      # every operation must leave its arguments as they were
    proof_ok = common.proof_stage(rep, "C01")
    for cname in ("monoidal", "rigid"):
        cls = ci.Cls(cname)
        progs = programs(tier, seed, cname == "rigid")
        if cname == "monoidal":     # no winding numbers in the plain monoidal class
            progs = [p for p in progs if '"z"' not in repr(p)]
        results = base.differential(rep, ci, cname, progs, family="corr:core:structural")
        for p, impl, mod in results:
            nontrivial = impl[0] == 1 or (impl[1][0] == 1) or len(impl[1][1][2]) >= 2
            rep.case([cname, p], nontrivial=nontrivial,
                     sample={"class": cname, "program": p} if rep.evaluations % 997 == 0 else None)
            rep.count("class:" + cname)
            rep.count("op:" + ci.OPNAMES[p[0]])
            if impl == [1, 102]:
                rep.violation("an ill-typed diagram was built inside the library (hook DISCOPY_VERIF)",
                              {"class": cname, "program": p, "impl": impl,
                               "replay": base.snippet(cname, p)})
            if impl[0] == 0:
                bad = oracle_outcome(ci, cls, p)
                if bad:
                    rep.violation(bad, {"class": cname, "program": p, "impl": impl,
                                        "replay": base.snippet(cname, p)})
    # slices with a step other than 1 / -1 (outside the DSL): refused, or well-typed
    srng = random.Random(seed + 71)
    for cname in ("monoidal", "rigid"):
        cls = ci.Cls(cname)
        gg = G.G(srng, rigid=(cname == "rigid"))
        for _ in range(120 if tier == "quick" else 2000):
            p, _info = gg.diagram(n_boxes=srng.randint(2, 6))
            try:
                d = common.with_timeout(10.0, ci.interp, cls, p)
            except Exception:   # noqa
                continue
            n = len(d)
            key = slice(srng.choice([None, 0, 1, srng.randint(-n, n)]), srng.choice([None, n, srng.randint(-n, n)]),
                        srng.choice([2, 3, -2, -3, n + 1]))
            rep.count("stream:strided-slices")
            try:
                r = d[key]
            except Exception:   # noqa: a refusal is fine
                rep.count("strided-slices:refused")
                continue
            bad = rescan(ci, r)
            if bad:
                rep.violation("d[%r:%r:%r] returned an ill-typed diagram: %s" % (key.start, key.stop, key.step, bad),
                              {"class": cname, "program": p, "slice": [key.start, key.stop, key.step],
                               "replay": base.snippet(cname, p)})
    # oracle-only tour of the classes without a structural model of their own
    import class_tour

    def chk(name, r, exc):
        rep.case(["tour", name, rep.evaluations], nontrivial=False)
        if exc is not None:
            rep.violation("an ill-typed diagram was built inside the library (hook DISCOPY_VERIF) during " + name,
                          {"operation": name, "error": str(exc)[:400],
                           "replay": "cd /verif/harness && PYTHONPATH=/repo DISCOPY_VERIF=1 /venv/bin/python -B -c "
                                     "\"import random, class_tour; class_tour.tour(random.Random(%d), %d, print, lambda s: None)\""
                                     % (seed + 17, 25)})
        elif isinstance(r, str):
            rep.violation(r, {"operation": name})
        else:
            bad = rescan(ci, r)
            if bad:
                rep.violation("%s returned an ill-typed diagram: %s" % (name, bad),
                              {"operation": name, "value": repr(r)[:600]})
    class_tour.tour(random.Random(seed + 17), 25 if tier == "quick" else 400, chk, rep.count)
    # the extracted runner against vm_compute inside coqc, on a sample of this run's programs
    xs = programs(tier, seed, True)
    common.cross_check_extraction(rep, "core", ["DV.Common.Base", "DV.Core.Prog"], "run_sexp", xs,
                                  random.Random(seed + 99), n=60 if tier == "quick" else 600)
    base.settle(rep, "C01", proof_ok, "C01")
    return rep.finish(
        rule="classes monoidal and rigid: hand-written corpus (constructor offsets, reversed partial "
             "slices, empty slices), every diagram over a small signature with few boxes under every "
             "unary operation and index pair, random API-call programs on grown diagrams (all 19 DSL "
             "operations incl. functors), ~15% malformed requests; non-trivial = refusal, trace, or a "
             "result with >= 2 boxes; distinct by (class, program)",
        trusted_base=base.TRUSTED_CORE,
        assumptions=["the oracle re-scans every returned diagram (and every yielded step) with an "
                     "independent range-checked reader and compares it with d.layers",
                     "the hook DISCOPY_VERIF=1 (if installed in /repo) re-scans diagrams built with "
                     "caller-supplied layers inside the library",
                     "classes tensor, circuit, zx and cat are exercised by an oracle-only tour (random values of the "
                     "class, generic operations, permutations/cups/caps/transposes/circuit2zx) whose results are "
                     "re-scanned; biclosed and cartesian diagrams are re-scanned by the C18 / C19 checks"],
        checker_cmd="make -C coq Props/C01.vo  (coqc 8.16.1, Print Assumptions parsed)")
