"""C06 -- monoidal normal form is a sound, idempotent, canonical representative."""
import itertools
import random

import common
from common import Report
from props import base
from props.c01 import rescan
import gen as G
import struct_oracles as so

LIMIT = 60


def connected_programs(tier, seed):
    rng = random.Random(seed * 17)
    g = G.G(rng, rigid=False)
    a, b = [1, 0], [2, 0]
    k = 3 if tier == "quick" else 4
    sig = [bx for bx in G.small_signature() if 1 <= len(bx[2]) + len(bx[3]) <= 3]
    small = G.enumerate_diagrams(k, [[], [a], [a, b]], sig[::2] if tier == "quick" else sig, max_width=3)
    rng.shuffle(small)
    out = []
    for dom, cod, boxes, offs in small[:(700 if tier == "quick" else 5000)]:
        out.append(([G.MK, dom, cod, boxes, offs], (dom, cod, boxes, offs)))
    for _ in range(300 if tier == "quick" else 6000):
        p, info = g.diagram(n_boxes=rng.randint(2, 6))
        out.append((p, info))
    # connected by construction: one state, then every box eats at least one open wire
    for _ in range(500 if tier == "quick" else 8000):
        n = rng.randint(3, 6 if tier == "quick" else 7)
        first = g.box([], g.ty(2, 3))
        first[4] = 0
        boxes, offs, scan = [first], [0], list(first[3])
        for _ in range(n - 1):
            if not scan:
                break
            k = rng.randint(1, min(2, len(scan)))
            off = rng.randint(0, len(scan) - k)
            cod = g.ty(0, 2 if len(scan) < 5 else 1)
            b = g.box(scan[off:off + k], cod)
            boxes.append(b)
            offs.append(off)
            scan = scan[:off] + cod + scan[off + k:]
        out.append(([G.MK, [], scan, boxes, offs], ([], scan, boxes, offs)))
    return out


def legal_single_interchange(prev, step, left):
    from discopy.rewriting import InterchangerError
    for i in range(len(prev) - 1):
        try:
            if prev.interchange(i, i + 1, left=left) == step:
                # legality in the sense of normalize's guard: the move goes in the preferred direction
                return True
        except InterchangerError:
            continue
    return False


def oracle(ci, cls, p, left, rng, rep):
    from discopy import monoidal
    try:
        d = ci.interp(cls, p)
    except Exception:   # noqa
        return None
    is_conn = so.connected(d)
    rep.count("connected" if is_conn else "disconnected")
    steps = list(itertools.islice(monoidal.Diagram.normalize(d, left=left), LIMIT + 1))
    if len(steps) > LIMIT:
        if is_conn:
            return "normalisation of a connected diagram yields more than %d steps" % LIMIT
        # disconnected and looping: the loop must be REPORTED as NotImplementedError
        try:
            monoidal.Diagram.normal_form(d, normalizer=ci.bounded(monoidal.Diagram.normalize), left=left)
        except NotImplementedError:
            return None
        except ci.OutOfFuel:
            return "normal_form rewrites forever without raising NotImplementedError"
        except Exception as exc:   # noqa
            return "normal_form raised %s" % type(exc).__name__
        return "normal_form returned although normalize does not terminate"
    prev = d
    for k, s in enumerate(steps):
        bad = rescan(ci, s)
        if bad:
            return "step %d is ill-typed: %s" % (k, bad)
        if s.dom != d.dom or s.cod != d.cod:
            return "step %d changed domain or codomain" % k
        if not legal_single_interchange(prev, s, left):
            return "step %d is not a single legal interchange of the previous diagram" % k
        prev = s
    try:
        nf = monoidal.Diagram.normal_form(d, left=left)
    except NotImplementedError:
        if is_conn:
            return "NotImplementedError on a connected diagram"
        return None
    except Exception as exc:   # noqa
        return "normal_form raised %s" % type(exc).__name__
    if steps and nf != steps[-1] or (not steps and nf != d):
        return "normal_form differs from the last step of normalize"
    if sorted(map(repr, nf.boxes)) != sorted(map(repr, d.boxes)):
        return "normal form has different boxes"
    if monoidal.Diagram.normal_form(nf, left=left) != nf:
        return "normal form is not a fixed point"
    if list(itertools.islice(monoidal.Diagram.normalize(nf, left=left), 1)):
        return "normal form still admits a move"
    width = max([len(d.dom)] + [len(layer.cod) for layer in d.layers.boxes])
    if width <= 6:
        f = so.random_tensor_functor(rng, d, dims=(1, 2))
        if so.semantics(f, d) != so.semantics(f, nf):
            return "denotation changed under an integer tensor functor"
    if is_conn and len(d.boxes) <= 6:
        members, truncated = so.interchanger_class(d, limit=150)
        rep.count("class_size:%d" % min(len(members), 20))
        if not truncated:
            for m in members:
                try:
                    nm = monoidal.Diagram.normal_form(m, left=left)
                except Exception as exc:   # noqa
                    return "normal_form of an equivalent diagram raised %s" % type(exc).__name__
                if nm != nf:
                    return "two interchanger-equivalent connected diagrams have different normal forms"
            rep.extra["classes_exhausted"] = rep.extra.get("classes_exhausted", 0) + 1
    return None


def circuit_stream(rep, rng, count):
    """Oracle-only stream on the real objects: monoidal normal forms of circuit diagrams, whose
    boxes (Bits, Copy, ClassicalGate, gates, measurements) have their own __eq__ / __hash__ /
    __repr__: the normal form exists or is refused with NotImplementedError, has the same boxes,
    is a fixed point, is the end of the normalize trace and denotes the same map."""
    from discopy import monoidal
    from discopy.quantum import circuit, gates
    AND = gates.ClassicalGate('AND', 2, 1, [1, 0, 1, 0, 1, 0, 0, 1])
    pool = [gates.H, gates.X, gates.CX, gates.Rz(0.25), gates.Ket(0), gates.Ket(1), gates.Bra(0), gates.Bits(0),
            gates.Bits(1), gates.Bits(1, 0), gates.Copy(), gates.Match(), AND, circuit.Measure(), circuit.Discard(),
            circuit.Discard(circuit.bit), gates.scalar(0.5), gates.ClassicalGate('NOT', 1, 1, [0, 1, 1, 0])]
    corpus = [gates.Bits(0) >> gates.Bits(1) @ circuit.Id(circuit.bit) >> AND,
              gates.Ket(0) >> gates.Ket(1) @ circuit.Id(circuit.qubit) >> gates.CX]
    bad = 0
    for k in range(count):
        if k < len(corpus):
            d = corpus[k]
        else:
            d = circuit.Id(circuit.Ty())
            for _ in range(rng.randint(2, 6)):
                scan = d.cod
                b = rng.choice(pool)
                places = [i for i in range(len(scan) - len(b.dom) + 1) if scan[i:i + len(b.dom)] == b.dom]
                if not places:
                    continue
                off = rng.choice(places) if len(b.dom) else rng.randint(0, len(scan))
                d = d >> circuit.Id(scan[:off]) @ b @ circuit.Id(scan[off + len(b.dom):])
        left = bool(rng.randint(0, 1))
        rep.case(["circuit-normal-form", repr(d), left], nontrivial=len(d) >= 2)
        rep.count("stream:circuit-normal-form")
        what = None
        try:
            nf = common.with_timeout(20.0, lambda: monoidal.Diagram.normal_form(
                d, normalizer=ci_bounded(monoidal.Diagram.normalize), left=left))
            steps = common.with_timeout(20.0, lambda: list(itertools.islice(
                monoidal.Diagram.normalize(d, left=left), 2000)))
            if sorted(map(repr, nf.boxes)) != sorted(map(repr, d.boxes)):
                what = "normal form of a circuit has different boxes"
            elif (steps[-1] if steps else d) != nf:
                what = "normal form of a circuit is not the end of the normalize trace"
            elif monoidal.Diagram.normal_form(nf, left=left) != nf:
                what = "normal form of a circuit is not a fixed point"
            elif len(nf.dom) + len(nf.cod) <= 4 and max([len(x.cod) for x in nf.layers.boxes] + [0]) <= 5:
                a, b2 = d.eval(mixed=True), nf.eval(mixed=True)
                import numpy
                if not numpy.allclose(numpy.asarray(a.array, dtype=complex), numpy.asarray(b2.array, dtype=complex)):
                    what = "normal form of a circuit has a different denotation"
        except NotImplementedError:
            rep.count("circuit-normal-form:not-implemented")
        except Exception as exc:   # noqa
            if type(exc).__name__ in ("CaseTimeout", "OutOfFuel"):
                continue
            what = "normal_form of a circuit raised %s: %s" % (type(exc).__name__, exc)
        if what:
            bad += 1
            rep.count("oracle:circuit-normal-form:FAIL")
            if bad <= 3:
                rep.violation(what, {"class": "circuit", "diagram": repr(d), "left": left,
                                     "replay": "from discopy.quantum import *; (%r).normal_form(left=%s)" % (d, left)})
        else:
            rep.count("oracle:circuit-normal-form:pass")


def ci_bounded(normalizer):
    import core_impl
    return core_impl.bounded(normalizer)


def run(tier, seed):
    import core_impl as ci
    rep = Report("C06", tier, seed)
    ci.CHECK_PURITY = True      # every operation must leave its arguments as they were
    proof_ok = common.proof_stage(rep, "C06")
    rng = random.Random(seed + 6)
    cls = ci.Cls("monoidal")
    cases = connected_programs(tier, seed)
    progs, meta = [], []
    for k_case, (p, info) in enumerate(cases):
        left = rng.randint(0, 1)
        # a third of the diagrams reach normalisation through a double dagger or a full slice: equal
        # values, but built by other constructors (other internal containers)
        if k_case % 3 == 1:
            p = [G.DAGGER, [G.DAGGER, p]]
        elif k_case % 3 == 2:
            p = [G.SLICE, p, [0], []]
        progs.append([G.NORMALIZE, p, left])
        meta.append((p, left))
        progs.append([G.NORMALFORM, p, left])
        meta.append((p, left))
    results = base.differential(rep, ci, "monoidal", progs, project=base.project_public,
                                family="corr:core:normalize")
    seen = set()
    index = {id(q): m for q, m in zip(progs, meta)}
    for q, impl, mod in results:
        p, left = index[id(q)]
        rep.case(["monoidal", q], nontrivial=True,
                 sample={"program": q} if rep.evaluations % 311 == 0 else None)
        rep.count("op:" + ci.OPNAMES[q[0]])
        rep.count("outcome:" + ("value" if impl[0] == 0 else "err%d" % impl[1]))
        if impl[0] == 0 and impl[1][0] == 1:
            rep.count("trace_len:%d" % min(len(impl[1][1]), 10))
        key = (common.to_sexp(p), left)
        if key in seen:
            continue
        seen.add(key)
        bad = oracle(ci, cls, p, bool(left), rng, rep)
        if bad:
            rep.violation(bad, {"class": "monoidal", "program": q, "impl": impl,
                                "replay": base.snippet("monoidal", q)})
    # spirals: the classical worst case (connected; long normalisation)
    from discopy import monoidal

    def spiral(n_cups):
        from discopy.monoidal import Ty, Box, Id
        _type = Ty('n1')
        unit, counit = Box('n80', Ty(), _type), Box('n81', _type, Ty())
        cup, cap = Box('n82', _type @ _type, Ty()), Box('n83', Ty(), _type @ _type)
        result = unit
        for i in range(n_cups):
            result = result >> Id(_type ** i) @ cap @ Id(_type ** (i + 1))
        result = result >> Id(_type ** n_cups) @ counit @ Id(_type ** n_cups)
        for i in range(n_cups):
            result = result >> Id(_type ** (n_cups - i - 1)) @ cup @ Id(_type ** (n_cups - i - 1))
        return result
    for n in range(1, 4 if tier == "quick" else 7):
        d = spiral(n)
        for left in (False, True):
            rep.case(["spiral", n, left], nontrivial=True)
            try:
                nf = d.normal_form(left=left)
                if nf.normal_form(left=left) != nf:
                    rep.violation("spiral(%d) normal form is not a fixed point" % n,
                                  {"replay": "test_monoidal.spiral(%d).normal_form(left=%s)" % (n, left)})
            except Exception as exc:   # noqa
                rep.violation("spiral(%d).normal_form raised %s" % (n, type(exc).__name__),
                              {"replay": "test_monoidal.spiral(%d).normal_form(left=%s)" % (n, left)})
    # subclasses: the monoidal normal form requested explicitly on a rigid diagram (through the
    # class's own normal_form, which defaults to snake removal) is the monoidal one: interchanges
    # only, cups and caps stay.  Oracle-only (the rigid default is C07's business).
    rcls = ci.Cls("rigid")
    rg = G.G(random.Random(seed + 66), rigid=True)
    snake_corpus = []
    a, b = [1, 0], [2, 0]
    for x in (a, b, [1, 1], [2, -1]):
        xr = [x[0], x[1] + 1]
        f = [G.KBOX, 70, [x], [x], 0, []]
        cap, cup = [G.KCAP, -3, [], [xr, x], 0, []], [G.KCUP, -2, [x, xr], [], 0, []]
        snake_corpus.append([G.MK, [x], [x], [cap, f, cup], [1, 0, 0]])
        snake_corpus.append([G.MK, [x], [x], [f, cap, cup], [0, 1, 0]])
    n_sub = 150 if tier == "quick" else 2000
    for k in range(n_sub):
        p = snake_corpus[k] if k < len(snake_corpus) else rg.diagram(n_boxes=rg.rng.randint(2, 6))[0]
        left = bool(rg.rng.randint(0, 1))
        rep.case(["rigid-explicit-normalizer", p, left], nontrivial=True)
        rep.count("stream:rigid-explicit-normalizer")
        try:
            d = common.with_timeout(10.0, ci.interp, rcls, p)
        except Exception:   # noqa: not a diagram
            continue

        def outcome(fn):
            try:
                return [0, ci.canon_diagram(common.with_timeout(10.0, fn))[:4]]
            except Exception as exc:   # noqa
                return [1, type(exc).__name__]
        want = outcome(lambda: monoidal.Diagram.normal_form(
            d, normalizer=ci.bounded(monoidal.Diagram.normalize), left=left))
        got = outcome(lambda: d.normal_form(
            normalizer=ci.bounded(monoidal.Diagram.normalize), left=left))
        if got != want:
            rep.count("oracle:explicit-normalizer:FAIL")
            rep.violation("rigid diagram: d.normal_form(normalizer=monoidal.Diagram.normalize) is not the "
                          "monoidal normal form (reachable by interchanges alone)",
                          {"class": "rigid", "program": p, "left": left, "got": got, "want": want,
                           "replay": base.snippet("rigid", [G.NORMALFORM, p, int(left)])})
        else:
            rep.count("oracle:explicit-normalizer:pass")
    circuit_stream(rep, random.Random(seed + 606), 80 if tier == "quick" else 1500)
    base.settle(rep, "C06", proof_ok, "C06")
    return rep.finish(
        rule="class monoidal: every diagram over a small signature with <= 3 (4) boxes and random grown "
             "diagrams with 2..6 boxes, one left/right flag each; the whole yielded trace and the normal form are "
             "compared with the model; for each connected diagram with <= 6 boxes the full interchanger class is "
             "enumerated by BFS on the implementation and every member must have the same normal form (a TEST "
             "standing in for the unproved confluence); spirals 1..3 (6)",
        trusted_base=base.TRUSTED_CORE,
        assumptions=["canonicity and termination are NOT proved (Props/C06.v keeps their statements as "
                     "Definitions); the class search is exhaustive per class but a test",
                     "connectivity is decided by an independent wire-identity reader"],
        checker_cmd="make -C coq Props/C06.vo  (coqc 8.16.1, Print Assumptions parsed)")
