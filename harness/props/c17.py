"""C17 -- export to and import from pyzx graphs preserve the ZX diagram.

Stages: (1) theorems of coq/Props/C17.v re-checked; (2) exact correspondence of
zx.Diagram.to_pyzx / from_pyzx (through harness/pyzx_adapter.py) with the
extracted model on generated diagrams and graphs; (3) property oracles on the
implementation's results: pyzx's own tensor semantics of the exported graph vs a
numpy evaluation of the diagram's standard interpretation (equal at 1e-9,
scalars included), the imported diagram well-typed, same arities, same matrix
once multiplied by the graph's scalar, bad boundaries refused with ValueError.

Known finding F15 (two sub-cases, see notes/C17.md) is recognised as DESIGN.md
section 5 prescribes: implementation == bug-compatible model, the model violates
the property there, the fully repaired model (both switches on) satisfies it,
the switch(es) that change the model's outcome have their trigger predicate
true on the graph.  Anything else is a VIOLATION.
"""
import json
import os
import random
from fractions import Fraction

import numpy as np

import common
from common import Report, freeze
from props import base

TOL = 1e-9
# the model switches describing /repo as it is (0 = code as is, 1 = the fix proposed in
# notes/C17.md applied); VERIF_C17_FIXED=ab lets one check a patched tree before the
# constants are flipped
FIX_A = 0 if "a" in os.environ.get("VERIF_C17_UNFIXED", "") else 1   # F15a repaired upstream (ac991a2)
FIX_B = 0 if "b" in os.environ.get("VERIF_C17_UNFIXED", "") else 1   # F15b repaired upstream (ac991a2)


# ------------------------------------------------------------------ generators
def q(fr):
    fr = Fraction(fr)
    return [fr.numerator, fr.denominator]


def spider(kind, n, m, phase):
    return [0, kind, n, m] + q(phase)


H, SWAP = [1], [2]


def scalar(re, im):
    return [3] + q(re) + q(im)


def mk(dom, boxes):
    """[dom, cod, boxes] with cod computed; None when a box does not fit."""
    import pyzx_impl as pi
    width = dom
    for b, off in boxes:
        n, m = pi.box_arity(b)
        if off < 0 or off + n > width:
            return None
        width += m - n
    return [dom, width, [[b, off] for b, off in boxes]]


CORPUS = [
    # (label, description)
    ("F15 minimal: Z(1,2,.25) >> H @ Id(1)", mk(1, [(spider(0, 1, 2, Fraction(1, 4)), 0), (H, 0)])),
    ("F15b: Z(1,2,.25) >> H @ H", mk(1, [(spider(0, 1, 2, Fraction(1, 4)), 0), (H, 0), (H, 1)])),
    ("F15b no Hadamard: Z(0,2) @ X(0,1) >> Id(1) @ SWAP",
     mk(0, [(spider(0, 0, 2, Fraction(1, 4)), 0), (spider(1, 0, 1, Fraction(1, 8)), 2), (SWAP, 1)])),
    ("F15a: Id(2) @ H >> Id(1) @ SWAP >> Z(2,1,.125) @ Id(1)",
     mk(3, [(H, 2), (SWAP, 1), (spider(0, 2, 1, Fraction(1, 8)), 0)])),
    ("F15a without SWAP: X(1,1) @ Id(1) @ H >> ... Z(2,1) on wires 0 and 2",
     mk(3, [(H, 2), (SWAP, 0), (SWAP, 1), (spider(0, 2, 1, Fraction(3, 8)), 1)])),
    ("docstring bialgebra",
     mk(2, [(spider(0, 1, 2, Fraction(1, 4)), 0), (spider(0, 1, 2, Fraction(3, 4)), 2), (SWAP, 1),
            (spider(1, 2, 1, Fraction(1, 2)), 0), (spider(1, 2, 1, Fraction(1, 2)), 1)])),
    ("empty", mk(0, [])),
    ("identity on three wires", mk(3, [])),
    ("SWAP", mk(2, [(SWAP, 0)])),
    ("H", mk(1, [(H, 0)])),
    ("H H", mk(1, [(H, 0), (H, 0)])),
    ("scalars only", mk(0, [(scalar(Fraction(1, 2), Fraction(-3, 4)), 0), (scalar(0, 1), 0)])),
    ("phase >= 1 turn and negative", mk(1, [(spider(0, 1, 1, Fraction(9, 8)), 0), (spider(1, 1, 1, Fraction(-3, 8)), 0)])),
    ("arity-0 spiders", mk(0, [(spider(0, 0, 0, Fraction(1, 8)), 0), (spider(1, 0, 0, Fraction(1, 2)), 0)])),
    ("CZ-like with Hadamard between spiders",
     mk(2, [(spider(0, 1, 2, 0), 0), (H, 1), (spider(0, 2, 1, 0), 1)])),
    ("phase one third", mk(1, [(spider(0, 1, 1, Fraction(1, 3)), 0)])),
]


def random_phase(rng):
    r = rng.random()
    if r < 0.15:
        return Fraction(0)
    if r < 0.85:
        return Fraction(rng.randint(1, 7), 8)
    if r < 0.93:
        return Fraction(rng.randint(-12, 20), 8)
    return Fraction(rng.randint(1, 31), 16)


def random_scalar(rng):
    while True:
        re, im = Fraction(rng.randint(-6, 6), 4), Fraction(rng.randint(-6, 6), 4)
        if re or im:
            return scalar(re, im)


def random_diagram(rng, max_boxes, max_width=5, odd=False):
    dom = rng.choice([0, 1, 1, 2, 2, 3])
    width, boxes = dom, []
    for _ in range(rng.randint(0, max_boxes)):
        r = rng.random()
        if r < 0.5 or width == 0:
            n = rng.randint(0, min(3, width))
            m = rng.randint(0, 3)
            if width - n + m > max_width:
                m = max(0, max_width - width + n)
            off = rng.randint(0, width - n)
            kind = rng.choice([0, 1]) if not odd or rng.random() < 0.7 else 2
            boxes.append((spider(kind, n, m, random_phase(rng)), off))
            width += m - n
        elif r < 0.68:
            boxes.append((H, rng.randint(0, width - 1)))
        elif r < 0.86 and width >= 2:
            boxes.append((SWAP, rng.randint(0, width - 2)))
        elif r < 0.93:
            boxes.append((random_scalar(rng), rng.randint(0, width)))
        elif odd:
            n, m = rng.randint(0, min(2, width)), rng.randint(0, 2)
            boxes.append(([4, n, m], rng.randint(0, width - n)))
            width += m - n
    return mk(dom, boxes)


def small_scope(limit_boxes):
    """Every diagram with dom <= 2 and at most limit_boxes boxes over a small signature."""
    sig = [spider(k, n, m, p) for k in (0, 1) for n in range(3) for m in range(3)
           for p in (Fraction(0), Fraction(1, 8)) if n + m <= 3 and (p or k == 0)]
    sig += [H, SWAP, scalar(Fraction(1, 2), Fraction(1, 2))]
    import pyzx_impl as pi
    out = []

    def grow(dom, width, boxes, depth):
        out.append(mk(dom, boxes))
        if depth == limit_boxes:
            return
        for b in sig:
            n, m = pi.box_arity(b)
            if width - n + m > 4:
                continue
            for off in range(0, width - n + 1):
                if b[0] == 3 and off > 0:
                    continue
                grow(dom, width - n + m, boxes + [(b, off)], depth + 1)
    for dom in range(3):
        grow(dom, dom, [], 0)
    return out


def random_graph(rng, shuffle_ids=False):
    """A simple pyzx graph of Z/X spiders, every boundary of degree one, inputs and
    outputs declared and disjoint; vertices 0..n-1 and edges in insertion order."""
    n_sp = rng.choice([0, 1, 1, 2, 2, 3, 3, 4, 5])
    n_in, n_out = rng.randint(0, 3), rng.randint(0, 3)
    if n_sp == 0:
        n_out = n_in
    kinds = ["i"] * n_in + ["s"] * n_sp + ["o"] * n_out
    if shuffle_ids:
        rng.shuffle(kinds)
    ids = {"i": [], "s": [], "o": []}
    for v, k in enumerate(kinds):
        ids[k].append(v)
    verts, row = [], {}
    for v, k in enumerate(kinds):
        if k == "s":
            ph = Fraction(rng.randint(0, 7), 4) if rng.random() < 0.85 else Fraction(rng.randint(0, 15), 8)
            verts.append([v, rng.choice([1, 2])] + q(ph) + [ids["s"].index(v) % 3, 1 + ids["s"].index(v)])
        elif k == "i":
            verts.append([v, 0, 0, 1, ids["i"].index(v), 0])
        else:
            verts.append([v, 0, 0, 1, ids["o"].index(v), n_sp + 1])
    edges = []
    et = lambda: 2 if rng.random() < 0.4 else 1   # noqa: E731
    dens = rng.choice([0.15, 0.35, 0.6])
    for a in range(len(ids["s"])):
        for b in range(a + 1, len(ids["s"])):
            if rng.random() < dens:
                edges.append([ids["s"][a], ids["s"][b], et()])
    free_out = list(ids["o"])
    for v in ids["i"]:
        if ids["s"] and (rng.random() < 0.8 or not free_out):
            edges.append([v, rng.choice(ids["s"]), et()])
        elif free_out:
            edges.append([v, free_out.pop(rng.randrange(len(free_out))), et()])
        else:
            return None
    for v in free_out:
        if not ids["s"]:
            return None
        edges.append([rng.choice(ids["s"]), v, et()])
    rng.shuffle(edges)
    edges = [[b, a, t] if rng.random() < 0.3 else [a, b, t] for a, b, t in edges]
    ins, outs = list(ids["i"]), list(ids["o"])
    rng.shuffle(ins)
    rng.shuffle(outs)
    sc = [1, 1, 0, 1] if rng.random() < 0.6 else random_scalar(rng)[1:]
    return [verts, edges, ins, outs, sc]


def spoil_boundaries(rng, gd):
    """A graph with a boundary vertex missing from, or shared between, inputs and outputs."""
    verts, edges, ins, outs, sc = json.loads(json.dumps(gd))
    mode = rng.choice(["missing-in", "missing-out", "shared", "extra-boundary"])
    if mode == "missing-in" and ins:
        ins.pop(rng.randrange(len(ins)))
    elif mode == "missing-out" and outs:
        outs.pop(rng.randrange(len(outs)))
    elif mode == "shared" and (ins or outs):
        if ins and (not outs or rng.random() < 0.5):
            outs.insert(rng.randint(0, len(outs)), rng.choice(ins))
        else:
            ins.insert(rng.randint(0, len(ins)), rng.choice(outs))
    else:
        verts.append([len(verts), 0, 0, 1, 0, 0])
        mode = "extra-boundary"
    return mode, [verts, edges, ins, outs, sc]


# ------------------------------------------------------------------ graph predicates (harness side)
def adjacency(gd):
    adj = {v[0]: [] for v in gd[0]}
    for a, b, t in gd[1]:
        adj[a].append((b, t))
        adj[b].append((a, t))
    return adj


def graph_in_scope(gd):
    """The quantifier of C17 for import: simple, Z/X spiders only, inputs and outputs
    declared, disjoint and duplicate-free, every boundary of degree one and wired to a
    spider or an input to an output."""
    verts, edges, ins, outs, _ = gd
    ids = [v[0] for v in verts]
    pairs = [frozenset((a, b)) for a, b, _ in edges]
    if len(set(pairs)) != len(pairs) or any(a == b for a, b, _ in edges):
        return False
    if any(t not in (1, 2) for _, _, t in edges):
        return False
    if len(set(ins)) != len(ins) or len(set(outs)) != len(outs) or set(ins) & set(outs):
        return False
    ty = {v[0]: v[1] for v in verts}
    if any(v not in ty or ty[v] != 0 for v in ins + outs):
        return False
    if any(t == 0 and v not in ins + outs for v, t in ty.items()):
        return False
    if any(t not in (0, 1, 2) for t in ty.values()):
        return False
    adj = adjacency(gd)
    for v in ins + outs:
        if len(adj[v]) != 1:
            return False
        w = adj[v][0][0]
        if ty[w] == 0 and not ((v in ins and w in outs) or (v in outs and w in ins)):
            return False
    return ids == list(range(len(ids)))


def bad_boundaries(gd):
    verts, _, ins, outs, _ = gd
    return (any(v[1] == 0 and v[0] not in ins + outs for v in verts)
            or bool(set(ins) & set(outs)))


def trigger_a(gd):
    """F15a: some spider has >= 2 input-side neighbours (the code's definition) and a
    Hadamard edge to one of them."""
    _, _, ins, outs, _ = gd
    adj = adjacency(gd)
    for node in adj:
        if node in ins or node in outs:
            continue
        inp = [(v, t) for v, t in adj[node] if (v < node and v not in outs) or v in ins]
        if len(inp) >= 2 and any(t == 2 for _, t in inp):
            return True
    return False


def trigger_b(gd):
    """F15b: some non-boundary vertex is adjacent to >= 2 outputs."""
    _, _, ins, outs, _ = gd
    adj = adjacency(gd)
    return any(node not in ins and node not in outs and sum(1 for v, _ in adj[node] if v in outs) >= 2
               for node in adj)


# ------------------------------------------------------------------ oracles
def close(a, b):
    return a.shape == b.shape and bool(np.allclose(a, b, atol=TOL, rtol=0))


def export_verdict(pi, desc, ga):
    """graph_sem(to_pyzx d) == zx_sem d, arities, boundary order (direct statement)."""
    g = ga._g
    if len(ga.inputs) != desc[0] or len(ga.outputs) != desc[1]:
        return "exported graph has %d inputs / %d outputs for a %d -> %d diagram" % (
            len(ga.inputs), len(ga.outputs), desc[0], desc[1])
    n_sp = sum(1 for b, _ in desc[2] if b[0] == 0)
    if len(list(g.vertices())) != desc[0] + n_sp + desc[1]:
        return "exported graph does not have one vertex per spider and per boundary wire"
    if any(int(g.type(v)) != 0 for v in ga.inputs + ga.outputs):
        return "an input or output of the exported graph is not a boundary vertex"
    want = pi.eval_desc(desc)
    got = pi.graph_matrix(ga)
    if not close(want, got):
        return "pyzx's tensor of the exported graph differs from the diagram's matrix (max |diff| %.3g)" % (
            float(np.max(np.abs(want - got))) if want.shape == got.shape else -1)
    return None


def import_verdict(pi, outcome_desc, gd, gmat):
    """outcome_desc: description of the returned diagram, or an error code (int)."""
    if isinstance(outcome_desc, int):
        return "graph in scope refused (error code %d)" % outcome_desc
    dom, cod, _ = outcome_desc
    if dom != len(gd[2]) or cod != len(gd[3]):
        return "imported diagram is %d -> %d for a graph with %d inputs and %d outputs" % (
            dom, cod, len(gd[2]), len(gd[3]))
    try:
        mat = pi.eval_desc(outcome_desc)
    except ValueError as exc:
        return "imported diagram is ill-typed: %s" % exc
    mat = mat * pi.graph_scalar(gd)
    if not close(mat, gmat):
        return "imported diagram (times the graph's scalar) differs from pyzx's tensor of the graph"
    return None


def outcome_desc(pi, out):
    """description (for the verdict) of a canonical outcome [0, core diagram] | [1, code]."""
    return pi.core_to_desc(out[1]) if out[0] == 0 else out[1]


# ------------------------------------------------------------------ running cases
def model_import_variants(kind, payload):
    return [[kind, fa, fb] + payload for fa, fb in ((FIX_A, FIX_B), (1, FIX_B), (FIX_A, 1), (1, 1))]


def replay_cmd(case):
    return ("cd /verif && PYTHONPATH=/verif/harness:/repo /venv/bin/python -B -c "
            "\"from props import c17; c17.replay(%s)\"" % json.dumps(case))


def replay(case):
    """Stand-alone reproduction of one case against /repo: prints the diagram or graph,
    the implementation's outcome, the model's, and the oracle verdicts."""
    import pyzx_impl as pi
    rep = Report("C17", "replay", 0)
    res = run_case(pi, rep, case, verbose=True)
    print("verdicts:", res)


def run_case(pi, rep, case, models=None, verbose=False):
    """One case = ['d', description] (export + round trip) or ['g', graph] (import).
    Returns the list of (what, classification) it produced."""
    kind, payload = case
    found = []
    if models is None:
        progs = case_programs(case)
        models = common.run_model("pyzx", progs)
    if kind == "d":
        desc = payload
        m_export, m_imports = models[0], models[1:5]
        d = pi.build_diagram(desc)
        assert pi.describe_diagram(d) == desc, (pi.describe_diagram(d), desc)
        simple = pi.is_simple_desc(desc)
        claimed = simple and all(b[0] in (1, 2, 3) or (b[0] == 0 and b[1] in (0, 1)) for b, _ in desc[2])
        ga_box = {}

        def export():
            ga_box["ga"] = d.to_pyzx()
            return pi.canon_graph(ga_box["ga"])
        if not simple:
            rep.count("skipped:non-simple-diagram")
            return found
        out = pi._observe(export)
        if verbose:
            print("diagram:", d)
            print("to_pyzx (implementation):", out)
            print("to_pyzx (model):         ", m_export)
        m_cmp = [0, pi.model_graph_canon(m_export[1][0])] if m_export[0] == 0 else m_export
        rep.disagreements_checked += 1
        rep.count("export-outcome:" + ("graph" if out[0] == 0 else "err%d" % out[1]))
        if m_export[0] == 0 and (m_export[1][1] != 1):
            raise AssertionError("model says the exported graph is not simple, harness says the diagram is")
        agree = freeze(out) == freeze(m_cmp)
        if agree and out[0] == 0:
            agree = pi.neighbour_orders(ga_box["ga"]) == pi.model_neighbour_orders(m_export[1][0])
        if not agree:
            rep.extra.setdefault("disagreements", []).append(
                {"family": "corr:pyzx:to_pyzx", "class": "zx", "program": case,
                 "impl": out, "model": m_cmp})
        if out[0] != 0:
            if claimed:
                rep.violation("to_pyzx refuses a diagram of Z/X spiders, H, SWAP and scalars",
                              {"case": case, "impl": out, "replay": replay_cmd(case)})
                found.append(("export refused", "violation"))
            return found
        ga = ga_box["ga"]
        if claimed:
            bad = export_verdict(pi, desc, ga)
            if bad:
                rep.violation(bad, {"case": case, "impl": out, "replay": replay_cmd(case)})
                found.append((bad, "violation"))
        else:
            rep.count("outside-claim:Y-or-other-box")
            return found
        gd = out[1]
        found += check_import(pi, rep, case, gd, ga, m_imports, verbose)
        return found
    gd = payload
    ga = pi.build_graph(gd)
    assert pi.canon_graph(ga)[:4] == [gd[0], sorted([min(a, b), max(a, b), t] for a, b, t in gd[1]), gd[2], gd[3]]
    found += check_import(pi, rep, case, gd, ga, models[0:4], verbose)
    return found


def case_programs(case):
    kind, payload = case
    if kind == "d":
        return [[0] + payload] + model_import_variants(2, payload)
    return model_import_variants(1, [payload])


def check_import(pi, rep, case, gd, ga, m_imports, verbose):
    found = []
    m00, m10, m01, m11 = m_imports

    def imp():
        from discopy.quantum import zx
        d2 = zx.Diagram.from_pyzx(ga)
        return pi.canon_core(d2)
    out = pi._observe(imp)
    m_cmp = [0, m00[1][0]] if m00[0] == 0 else m00
    if verbose:
        print("graph:", gd)
        print("from_pyzx (implementation):", out if out[0] else pi.core_to_desc(out[1]))
        print("from_pyzx (model):         ", m_cmp if m_cmp[0] else pi.core_to_desc(m_cmp[1]))
    rep.disagreements_checked += 1
    rep.count("import-outcome:" + ("diagram" if out[0] == 0 else "err%d" % out[1]))
    agree = freeze(out) == freeze(m_cmp)
    if not agree:
        rep.extra.setdefault("disagreements", []).append(
            {"family": "corr:pyzx:from_pyzx", "class": "zx", "program": case,
             "impl": out if out[0] else pi.core_to_desc(out[1]),
             "model": m_cmp if m_cmp[0] else pi.core_to_desc(m_cmp[1])})
    if bad_boundaries(gd):
        rep.count("import:bad-boundaries")
        if out != [1, pi.ERR["ValueError"]]:
            what = "graph with a boundary vertex missing from / shared between inputs and outputs not refused with ValueError"
            rep.violation(what, {"case": case, "impl": out, "replay": replay_cmd(case)})
            found.append((what, "violation"))
        return found
    if not graph_in_scope(gd):
        rep.count("import:outside-claim")
        return found
    rep.count("import:in-scope")
    if m00[0] == 0 and m00[1][1] != 1:
        raise AssertionError("graph in scope is not balanced according to the model: %r" % (gd,))
    gmat = pi.graph_matrix(ga)
    bad = import_verdict(pi, outcome_desc(pi, out), gd, gmat)
    if verbose:
        print("import oracle:", bad)
    if not bad:
        return found
    # --- classification (DESIGN section 5.3)
    bad_model = import_verdict(pi, outcome_desc(pi, m_cmp), gd, gmat)
    fixed_cmp = [0, m11[1][0]] if m11[0] == 0 else m11
    bad_fixed = import_verdict(pi, outcome_desc(pi, fixed_cmp), gd, gmat)
    resp = []
    if freeze(m10) != freeze(m00):
        resp.append(("F15a", trigger_a(gd)))
    if freeze(m01) != freeze(m00):
        resp.append(("F15b", trigger_b(gd)))
    known = (agree and bad_model is not None and bad_fixed is None
             and resp and all(t for _, t in resp))
    if known:
        for fid, _ in resp:
            rep.count("known:" + fid)
            rep.known_finding(fid, KNOWN_TEXT[fid])
            found.append((bad, "known:" + fid))
    else:
        rep.violation(bad, {"case": case, "impl": out if out[0] else pi.core_to_desc(out[1]),
                            "model": m_cmp if m_cmp[0] else pi.core_to_desc(m_cmp[1]),
                            "agrees_with_bug_compatible_model": agree,
                            "model_violates": bad_model, "repaired_model_violates": bad_fixed,
                            "responsible_switches": resp, "replay": replay_cmd(case)})
        found.append((bad, "violation"))
    return found


KNOWN_TEXT = {
    "F15a": "from_pyzx drops the Hadamard of an edge whose wire make_wires_adjacent has to move "
            "(inner `move` inserts the enclosing loop's `node` instead of scan[source], so the edge type is "
            "looked up on (node, node)); e.g. from_pyzx((Id(2) @ H >> Id(1) @ SWAP >> Z(2, 1, .125) @ Id(1)).to_pyzx())",
    "F15b": "from_pyzx mis-wires outputs when one spider feeds several outputs: scan.index(node) returns a leg "
            "that was already placed; e.g. the round trip of Z(1, 2, .25) >> H @ Id(1) puts the H on the other output",
}


def scalar_stream(rep, pi, rng, count):
    """Oracle-only stream on the real objects: diagrams with scalar boxes of every kind of value -
    exact zeros (0, 0.0, 0j), negative, complex, tiny, several of them - next to spiders.  pyzx's
    own matrix of the exported graph (scalar preserved) equals the diagram's matrix computed by the
    independent evaluator; in particular a zero scalar gives the zero matrix."""
    import numpy
    from discopy.quantum import zx
    bad = 0
    for k in range(count):
        values = [rng.choice([0, 0.0, 0j, -1, 0.5, 2j, -0.25 + 0.5j, 1e-3, 1]) for _ in range(rng.randint(1, 2))]
        if k < 3:
            values = [[0], [0.0], [0j]][k]
        d = zx.Id(1)
        width = 1
        for _ in range(rng.randint(0, 2)):
            m = rng.randint(1, 2)
            d = d >> rng.choice([zx.Z, zx.X])(width, m, rng.choice([0, 0.25, 0.5])) if width else d
            width = m if width else width
        for v in values:
            d = zx.scalar(v) @ d if rng.random() < 0.5 else d @ zx.scalar(v)
        rep.count("stream:scalars")
        what = None
        try:
            want = pi.eval_desc(pi.describe_diagram(d))
            ga = d.to_pyzx()
            got = pi.graph_matrix(ga)
            if got.shape != want.shape or not numpy.allclose(got, want, atol=1e-9):
                what = "the matrix of the exported graph is not the diagram's: scalars %r; |graph| max %.3g, |diagram| max %.3g" % (
                    values, float(numpy.abs(got).max()), float(numpy.abs(want).max()))
        except Exception as exc:   # noqa
            what = "exporting a diagram with scalars %r raised %s: %s" % (values, type(exc).__name__, exc)
        if what:
            bad += 1
            rep.count("oracle:scalars:FAIL")
            if bad <= 3:
                rep.violation("to_pyzx with scalar boxes: " + what, {"diagram": repr(d)})
        else:
            rep.count("oracle:scalars:pass")


def run(tier, seed):
    import pyzx_impl as pi
    rep = Report("C17", tier, seed)
    proof_ok = common.proof_stage(rep, "C17")
    rng = random.Random(seed * 17 + 3)
    quick = tier == "quick"
    cases = []
    for label, desc in CORPUS:
        assert desc is not None, label
        cases.append(["d", desc])
    scope = small_scope(2)
    if quick:
        rng.shuffle(scope)
        scope = scope[:700]
    cases += [["d", d] for d in scope]
    for _ in range(900 if quick else 12000):
        d = random_diagram(rng, 7 if rng.random() < 0.8 else 10)
        if d is not None:
            cases.append(["d", d])
    for _ in range(120 if quick else 1500):      # malformed stream: Y spiders, foreign boxes
        d = random_diagram(rng, 5, odd=True)
        if d is not None:
            cases.append(["d", d])
    n_graphs = 700 if quick else 9000
    for i in range(n_graphs):
        g = random_graph(rng, shuffle_ids=(i % 4 == 3))
        if g is None:
            continue
        cases.append(["g", g])
        if i % 6 == 0:
            mode, bad = spoil_boundaries(rng, g)
            rep.count("malformed:" + mode)
            cases.append(["g", bad])
        if i % 25 == 0 and any(v[1] in (1, 2) for v in g[0]):   # non Z/X vertex: outside the claim
            bad = json.loads(json.dumps(g))
            v = rng.choice([v for v in bad[0] if v[1] in (1, 2)])
            v[1] = 3
            cases.append(["g", bad])
    # one batch through the model
    progs, spans = [], []
    for c in cases:
        ps = case_programs(c)
        spans.append((len(progs), len(progs) + len(ps)))
        progs += ps
    answers = common.run_model_parallel("pyzx", progs)
    for a, p in zip(answers, progs):
        if a[0] == 1 and a[1] == 8:
            raise RuntimeError("model could not decode %r" % (p,))
    rep.programs = len(progs)
    for c, (lo, hi) in zip(cases, spans):
        res = run_case(pi, rep, c, models=answers[lo:hi])
        kind = c[0]
        nb = len(c[1][2]) if kind == "d" else len(c[1][0])
        rep.case(c, nontrivial=(nb >= 2),
                 sample=({"case": c} if rep.evaluations % 499 == 0 else None))
        rep.count("kind:" + ("diagram" if kind == "d" else "graph"))
        rep.count(("boxes:%d" if kind == "d" else "vertices:%d") % min(nb, 10))
        for _, cls in res:
            rep.count("result:" + cls)
    scalar_stream(rep, pi, random.Random(seed + 1717), 40 if tier == "quick" else 600)
    base.settle(rep, "C17", proof_ok, "C17")
    return rep.finish(
        rule="corpus (F15 reproducers, docstring example, edge cases); every diagram with dom <= 2 and <= 2 boxes over "
             "{Z/X spiders of arity <= 3 with phases 0, 1/8; H; SWAP; a scalar} (sampled in quick); random forward-grown "
             "diagrams (spider arities 0..3 each side, phases k/8 incl. >= 1 turn and negative, k/16, H, SWAP, Gaussian "
             "dyadic scalars, width <= 5, <= 10 boxes), non-simple ones rejected by an independent wire-tracing check; "
             "a malformed stream with Y spiders and foreign boxes; random simple pyzx graphs (<= 5 Z/X spiders, <= 3 "
             "inputs / outputs, Hadamard and plain edges, shuffled insertion order, every 4th with shuffled vertex ids) "
             "plus graphs with spoiled boundaries and non-Z/X vertices; non-trivial = >= 2 boxes / vertices; distinct "
             "by case",
        trusted_base=base.TRUSTED_CORE[:1] + [
            "hand-written Gallina model coq/PyZX/PyZX.v of zx.Diagram.to_pyzx / from_pyzx and of the pyzx graph "
            "API they call, tied to /repo only by this run's correspondence check",
            base.TRUSTED_CORE[2], base.TRUSTED_CORE[3],
            "harness/pyzx_adapter.py: the installed pyzx is 0.10.6, newer than the API zx.py was written for "
            "(inputs/outputs are methods, phases must be Fractions, edge_type of a missing edge raises); the adapter "
            "restores list-valued inputs/outputs, converts float phases to Fractions, returns 0 for a missing edge "
            "and calls set_inputs/set_outputs before to_matrix(); it is installed in-process by monkeypatching "
            "pyzx.Graph and is part of the environment, not of the code under test",
            "pyzx 0.10.6 GraphS and its to_matrix() (tensor semantics of graphs) and numpy 2.x are external "
            "oracles: modelled / used, not verified",
        ],
        assumptions=[
            "semantic oracles are numeric (absolute tolerance 1e-9 on every matrix entry, scalars included); the "
            "diagram side is an independent numpy evaluation of the standard interpretation (Z(n,m,a) = |0..0><0..0| "
            "+ exp(2 pi i a)|1..1><1..1| with a in full turns, X its Hadamard conjugate)",
            "pyzx merges parallel edges with Hopf/fusion rules, so non-simple diagrams are outside the claim and skipped",
            "graphs in scope: simple, Z/X vertices, declared duplicate-free disjoint inputs/outputs, boundaries of "
            "degree one wired to a spider or input-to-output, vertex ids 0..n-1",
            "F15a / F15b are recognised only when implementation == bug-compatible model, the model violates the "
            "property, the repaired model does not, and the trigger predicate of each responsible switch holds",
        ],
        checker_cmd="make -C coq Props/C17.vo  (coqc 8.16.1, Print Assumptions parsed)")
