"""C15 -- diagrammatic gradients evaluate to the gradient of the evaluation.

Stage 1: the theorems of coq/Props/C15.v (model coq/Grad/*.v of Diagram.grad,
the per-box rules and jacobian).
Stage 2: exact syntactic correspondence between the extracted model and the
implementation: the formal sum returned by grad / jacobian (terms in order,
boxes, offsets, shifted phase polynomials, scalar coefficients a*pi^k*i^l*poly
[*exp(2 i pi q)], bubble functions) for circuits, tensor diagrams with bubbles
and ZX diagrams; sympy's diff on the polynomial fragment.
Stage 3: independent oracles on the implementation: the evaluated sum equals
the sympy derivative of the symbolic evaluation at rational grid points
(amplitudes for grad(var, mixed=False) on pure circuits, the CQMap array for
the default gradient, tensor arrays for tensor diagrams); a diagram not
depending on the symbol has the empty sum; the jacobian stacks the gradients
in the order of the variables.

Known findings F12 / F12b / F12c are recognised only when the implementation
equals the bug-compatible model on the program AND the precise trigger holds;
anything else is a violation."""
import json
import os
import random
from fractions import Fraction

import sympy

import common
from common import Report, freeze
from props import base
from props import c14

NSYM = 3
GRIDS = [{1: sympy.Rational(1, 3), 2: sympy.Rational(2, 7), 3: sympy.Rational(-3, 5), 4: sympy.Rational(5, 11)},
         {1: sympy.Rational(-5, 11), 2: sympy.Rational(7, 9), 3: sympy.Rational(1, 13), 4: sympy.Rational(2, 3)}]

FINDINGS = {
    "F12": "Scalar.grad differentiates s, but under the default (mixed) gradient the scalar evaluates "
           "to |s|^2: (scalar(phi) @ Rz(phi)).grad(phi) is not the derivative of the CQ map",
    "F12b": "a Bubble has no free symbols: Diagram.grad returns the empty sum (or drops the term) "
            "when the variable only occurs inside a bubble of a composite diagram",
    "F12c": "the gradient of a mixed scalar (MixedScalar / scalar(.., is_mixed=True)) is a PURE "
            "Scalar, which the mixed evaluation squares",
}

symx, num, poly, box_syms = c14.symx, c14.num, c14.poly, c14.box_syms

# One switch per finding with a small upstream repair (notes/patches/F12b.diff, F12c.diff):
# False = /repo is the pinned code (the finding is recognised as KNOWN-FINDING), True = /repo
# carries the fix: the model runs the repaired behaviour (coq/Grad/Grad.v gfixes) and the finding
# is no longer excused.  F12 itself has no switch (its repair changes a test of the suite).
# Override: VERIF_C15_FIXED="b,c".
FIXED = {"F12b": True, "F12c": True}   # repaired upstream: f60eace, a2eee3e
if os.environ.get("VERIF_C15_FIXED") is not None:
    _on = {x.strip().lower() for x in os.environ["VERIF_C15_FIXED"].split(",") if x.strip()}
    assert _on <= {"b", "c"}, _on
    FIXED = {"F12b": "b" in _on, "F12c": "c" in _on}
SWITCHES = [1 if FIXED["F12b"] else 0, 1 if FIXED["F12c"] else 0]     # wire order of GradProg.dec_gfixes
_WRAPPED = []


def wrap(programs):
    """requests are (switches program); an older runner without switches takes bare programs."""
    if not _WRAPPED:
        probe = [SWITCHES, [2, symx(1), 1]]
        _WRAPPED.append(common.run_model("grad", [probe])[0] != [1, 8])
        if not _WRAPPED[0] and any(SWITCHES):
            raise RuntimeError("runner/bin/grad has no repair switches but VERIF_C15_FIXED asks for them")
    return [[SWITCHES, p] for p in programs] if _WRAPPED[0] else list(programs)
FUNS = [[[[[90, 2]], 1, 1]],                                  # T^2
        [[[[90, 1]], 3, 1], [[[90, 2]], 1, 1]],               # T^2 + 3 T
        [[[], 1, 1], [[[90, 1]], 2, 1]],                      # 2 T + 1
        [[[[90, 3]], 1, 1]],                                  # T^3
        [[[[90, 1]], 1, 1]],                                  # T
        [[[[90, 2]], 1, 2]],                                  # T^2 / 2
        [[[], 5, 1]]]                                         # 5


def snippet(program):
    return ("cd /verif/harness && PYTHONPATH=/verif/harness:/repo /venv/bin/python -B -c "
            "\"import grad_impl as gi; print(gi.observe(%s))\"" % json.dumps(program))


# ------------------------------------------------------------------ wire helpers
def deep_syms(b):
    """symbols occurring in a wire box, bubbles included."""
    if b[0] == 0:
        return box_syms(b[1])
    if b[0] == 3:
        out = set()
        for x in b[4]:
            out |= deep_syms(x)
        return out
    return set()


def shallow_syms(b):
    return box_syms(b[1]) if b[0] == 0 else set()


def has_bubble_with(b, var):
    return b[0] == 3 and var in deep_syms(b)


# ------------------------------------------------------------------ generators
class Gen:
    def __init__(self, rng, pi):
        self.rng, self.pi = rng, pi
        self.g14 = c14.Gen(rng, pi)

    def expr(self, p_number=0.1):
        e = self.g14.expr(syms=list(range(1, NSYM + 1)), p_number=p_number)
        if not c14.expr_syms(e):
            e = [0, e[1]]          # closed parameters are Python numbers (a sympy number cannot be evaluated: F11a)
        return e

    def circuit(self, pure, max_q=2, n_boxes=None, ctrl=True):
        r, pi = self.rng, self.pi
        dom = [pi.QUBIT] * r.randint(0, max_q)

        def pick(scan):
            n = len(scan)
            qpos = [i for i in range(n) if scan[i] == pi.QUBIT]
            qq = [i for i in range(n - 1) if scan[i] == pi.QUBIT and scan[i + 1] == pi.QUBIT]
            opts = ["scalar", "scalar"]
            if n < max_q:
                opts += ["ket", "ket"]
            if qpos:
                opts += ["rot1"] * 5 + ["gate1", "bra"]
            if qq:
                opts += (["rot2"] * 3 if ctrl else []) + ["gate2"]
            if not pure:
                opts += ["mscalar", "mscalar"]
                if qpos:
                    opts += ["measure", "discard"]
            k = r.choice(opts)
            if k == "scalar":
                return [0, [pi.KQSCALAR, 0, [], [], 0, 0, [0, self.expr()]]], r.randint(0, n)
            if k == "mscalar":
                kind = r.choice([pi.KQSCALAR, pi.KMIXEDSCALAR])
                return [0, [kind, 0, [], [], 0, 1, [0, self.expr()]]], r.randint(0, n)
            if k == "rot1":
                return [0, [pi.KROT, r.choice([1, 2, 3]), [2], [2], 0, 0, [0, self.expr()]]], r.choice(qpos)
            if k == "rot2":
                return [0, [pi.KROT, r.choice([4, 5, 6]), [2, 2], [2, 2], 0, 0, [0, self.expr()]]], r.choice(qq)
            if k == "gate1":
                code = r.choice([1, 2, 3, 12, 17])
                return [0, [pi.KGEN, code, [2], [2], 0, 0, []]], r.choice(qpos)
            if k == "gate2":
                return [0, [pi.KGEN, r.choice([4, 5, 16]), [2, 2], [2, 2], 0, 0, []]], r.choice(qq)
            if k == "ket":
                return [0, [pi.KGEN, r.choice([6, 7]), [], [2], 0, 0, []]], r.randint(0, n)
            if k == "bra":
                return [0, [pi.KGEN, r.choice([8, 9]), [2], [], 0, 0, []]], r.choice(qpos)
            if k == "measure":
                return [0, [pi.KGEN, 10, [2], [1], 0, 1, []]], r.choice(qpos)
            return [0, [pi.KGEN, 11, [2], [], 0, 1, []]], r.choice(qpos)
        return self.grow(pi.CCIRC, dom, n_boxes or r.randint(1, 5), pick)

    def grow(self, cls, dom, n_boxes, pick):
        scan, boxes, offs = list(dom), [], []
        for _ in range(n_boxes):
            got = pick(scan)
            if got is None:
                continue
            b, off = got
            bd, bc = box_dom_cod(b)
            assert scan[off:off + len(bd)] == bd, (scan, b, off)
            scan = scan[:off] + bc + scan[off + len(bd):]
            boxes.append(b)
            offs.append(off)
        return {"cls": cls, "dom": list(dom), "cod": scan, "boxes": boxes, "offs": offs}

    def tbox(self, bdom, bcod, p_number=0.35):
        size = 1
        for x in bdom + bcod:
            size *= x
        data = [1, [self.g14.expr(syms=[1, 2, 3], p_number=p_number) for _ in range(size)]]
        return [0, [self.pi.KGEN, 100 + self.rng.randint(0, 5), bdom, bcod, 0, 0, data]]

    def bubble(self, wire_in, depth):
        """a bubble on the wire list wire_in (length <= 1), returning the box."""
        r = self.rng
        inner = self.tensor(dom=list(wire_in), n_boxes=r.randint(1, 2), depth=depth + 1, single_wire=True)
        return [3, [0, r.choice(FUNS)], inner["dom"], inner["cod"], inner["boxes"], inner["offs"]]

    def tensor(self, dom=None, n_boxes=None, depth=0, single_wire=False, p_bubble=0.25):
        r, pi = self.rng, self.pi
        if dom is None:
            dom = [r.choice([2, 2, 3]) for _ in range(r.randint(0, 2))]

        def pick(scan):
            n = len(scan)
            k = r.random()
            if single_wire:
                # keep the inside of a bubble on at most one wire
                if n == 0:
                    return self.tbox([], [r.choice([2, 3])] if r.random() < 0.6 else []), 0
                if k < p_bubble and depth < 2:
                    return self.bubble(scan, depth), 0
                return self.tbox(list(scan), [r.choice([2, 3])] if r.random() < 0.8 else []), 0
            if k < 0.10 and n >= 2:
                off = r.randint(0, n - 2)
                return [0, [pi.KGEN, 1, scan[off:off + 2], scan[off:off + 2][::-1], 0, 0, []]], off
            if k < 0.18 and n >= 1 and n <= 2:
                off = r.randint(0, n - 1)
                return [2, 1, 2, [scan[off]]], off
            if k < 0.18 + p_bubble and depth < 2:
                if n and r.random() < 0.8:
                    off = r.randint(0, n - 1)
                    return self.bubble([scan[off]], depth), off
                return self.bubble([], depth), r.randint(0, n)
            w = r.randint(0, min(n, 2))
            off = r.randint(0, n - w)
            bdom = scan[off:off + w]
            bcod = [r.choice([2, 2, 3]) for _ in range(r.randint(0, 2 if n < 3 else 1))]
            size = 1
            for x in bdom + bcod:
                size *= x
            if size > 12:
                return None
            return self.tbox(bdom, bcod), off
        return self.grow(pi.CTEN, dom, n_boxes or r.randint(1, 4), pick)

    def zx(self):
        lit = self.g14.zx()
        return {"cls": self.pi.CZX, "dom": lit[2], "cod": lit[3],
                "boxes": [[0, b] for b in lit[4]], "offs": lit[5]}


def box_dom_cod(b):
    if b[0] == 0:
        return b[1][2], b[1][3]
    if b[0] == 2:
        return b[3] * b[1], b[3] * b[2]
    if b[0] == 3:
        return b[2], b[3]
    raise ValueError(b)


def grad_prog(c, var, mixed):
    return [0, c["cls"], c["dom"], c["cod"], c["boxes"], c["offs"], var, mixed]


def jac_prog(c, vs, mixed):
    return [1, c["cls"], c["dom"], c["cod"], c["boxes"], c["offs"], list(vs), mixed]


# ------------------------------------------------------------------ checker
class Checker:
    def __init__(self, rep, gi):
        self.rep, self.gi = rep, gi
        self.programs, self.impl, self.model = [], {}, {}

    def add(self, p):
        key = common.to_sexp(p)
        if key not in self.impl:
            self.impl[key] = None
            self.programs.append(p)
        return p

    def run_all(self):
        todo = [p for p in self.programs if self.impl[common.to_sexp(p)] is None]
        for p in todo:
            self.impl[common.to_sexp(p)] = self.gi.observe(p)
        mod = common.run_model_parallel("grad", wrap(todo))
        for p, m in zip(todo, mod):
            key = common.to_sexp(p)
            self.model[key] = m
            a = self.impl[key]
            self.rep.disagreements_checked += 1
            self.rep.count("outcome:" + ("value" if a[0] == 0 else "err%d" % a[1]))
            if m == [1, 8]:
                raise RuntimeError("model could not decode / outside the fragment: %r" % (p,))
            if freeze(a) != freeze(m):
                self.rep.extra.setdefault("disagreements", []).append(
                    {"family": "corr:grad", "class": "grad", "program": p, "impl": a, "model": m})

    def out(self, p):
        return self.impl[common.to_sexp(p)]

    def agree(self, *ps):
        return all(freeze(self.impl[common.to_sexp(p)]) == freeze(self.model[common.to_sexp(p)]) for p in ps)

    def fail(self, what, fids, programs, extra=None):
        """An oracle failed.  fids: findings whose trigger holds on this input."""
        if fids and self.agree(*programs):
            for fid in fids:
                self.rep.known_finding(fid, FINDINGS[fid])
                self.rep.count("known:" + fid)
            return
        payload = {"program": programs[0], "what": what,
                   "impl": [self.impl[common.to_sexp(p)] for p in programs],
                   "model": [self.model[common.to_sexp(p)] for p in programs],
                   "triggers": list(fids), "replay": snippet(programs[0])}
        if extra:
            payload.update(extra)
        self.rep.violation(what, payload)


def triggers(pi, c, var, mixed):
    """Known findings whose precise trigger holds for grad(var) of literal c."""
    out = []
    if c["cls"] == pi.CCIRC and mixed:
        for b in c["boxes"]:
            if b[0] != 0 or var not in box_syms(b[1]):
                continue
            if b[1][0] == pi.KQSCALAR and not b[1][5] and "F12" not in out:
                out.append("F12")
            if (b[1][0] == pi.KMIXEDSCALAR or (b[1][0] == pi.KQSCALAR and b[1][5])) and "F12c" not in out \
                    and not FIXED["F12c"]:
                out.append("F12c")
    if c["cls"] == pi.CTEN and any(has_bubble_with(b, var) for b in c["boxes"]) and not FIXED["F12b"]:
        out.append("F12b")
    return out


def nested_bubble_trigger(b, var):
    """F12b inside a bubble: the inside of b is a composite whose dependence on var is in a bubble."""
    if b[0] != 3:
        return False
    return any(has_bubble_with(x, var) or nested_bubble_trigger(x, var) for x in b[4])


# ------------------------------------------------------------------ the derivative oracle
def flat(t):
    a = t.array
    return list(a.flatten()) if hasattr(a, "flatten") else list(a)


def numeric(x, grid):
    if isinstance(x, sympy.Basic):
        return complex(sympy.N(x.subs(grid), 25))
    return complex(x)


def derivative_oracle(ck, pi, gi, rep, c, var_modes, budget_s=60.0):
    """evaluate(d.grad(x)) == d/dx evaluate(d), entrywise, at rational grid points."""
    cls = c["cls"]
    d = gi.build_diagram(cls, c["dom"], c["cod"], c["boxes"], c["offs"])
    cache = {}

    def evaluate(obj, mixed_eval):
        if cls == pi.CCIRC:
            return flat(obj.eval(mixed=True) if mixed_eval else obj.eval())
        return flat(obj.eval())
    for var, mixed in var_modes:
        prog = grad_prog(c, var, mixed)
        out = ck.out(prog)
        if out[0] != 0:
            continue
        mixed_eval = bool(mixed) and cls == pi.CCIRC
        fids = triggers(pi, c, var, mixed)
        if cls == pi.CTEN and any(nested_bubble_trigger(b, var) for b in c["boxes"]) and "F12b" not in fids \
                and not FIXED["F12b"]:
            fids.append("F12b")
        try:
            if mixed_eval not in cache:
                cache[mixed_eval] = common.with_timeout(budget_s, evaluate, d, mixed_eval)
            base_arr = cache[mixed_eval]
            x = pi.sym(var)
            want = [sympy.diff(sympy.sympify(e), x) for e in base_arr]
        except BaseException as exc:   # noqa
            if isinstance(exc, (KeyboardInterrupt, SystemExit)):
                raise
            rep.count("oracle:symbolic-eval-failed:" + type(exc).__name__)
            return
        try:
            kw = gi.kwargs_of(cls, mixed)
            s = d.grad(x, **kw)
            terms = [common.with_timeout(budget_s, evaluate, t, mixed_eval) for t in s.terms]
        except BaseException as exc:   # noqa
            if isinstance(exc, (KeyboardInterrupt, SystemExit)):
                raise
            ck.fail("a term of the gradient cannot be evaluated (%s)" % type(exc).__name__, fids, [prog])
            continue
        bad = None
        for grid_ids in GRIDS:
            grid = {pi.sym(k): v for k, v in grid_ids.items()}
            w = [numeric(e, grid) for e in want]
            got = [0j] * len(w)
            for t in terms:
                if len(t) != len(w):
                    bad = ("shape", len(t), len(w))
                    break
                got = [a + numeric(e, grid) for a, e in zip(got, t)]
            if bad is None:
                for i, (a, b) in enumerate(zip(w, got)):
                    if abs(a - b) > 1e-9 * max(1.0, abs(a)):
                        bad = (i, str(a), str(b))
                        break
            if bad is not None:
                break
        rep.count("oracle:compared:" + ("mixed" if mixed_eval else "pure" if cls == pi.CCIRC else "tensor"))
        if bad is not None:
            ck.fail("the evaluated gradient differs from the derivative of the evaluation "
                    "(%s, variable s%d)" % ("default mixed gradient of a circuit" if mixed_eval else
                                             "pure gradient of a circuit" if cls == pi.CCIRC else
                                             "tensor diagram", var),
                    fids, [prog], {"entry_want_got": bad, "variable": var, "mixed": mixed})
        else:
            rep.count("oracle:ok")


# ------------------------------------------------------------------ run
def sqrt_scalar_stream(rep, rng, count):
    """Oracle-only stream on the real objects (outside the polynomial model): pure circuits whose
    scalars are sqrt(expr) and scalar(expr) with non-linear expr of two real symbols, in front of a
    rotation body.  grad(var, mixed=False).eval() must be the sympy derivative of eval(), compared
    numerically at a random point."""
    import numpy
    from discopy.quantum import gates as G
    x, y = sympy.symbols("x y", real=True)
    bad = 0
    for i in range(count):
        vals = {x: rng.uniform(0.1, 1.5), y: rng.uniform(0.1, 1.5)}
        exprs = [y + 2, x * y + 1, x ** 2 + 1, x + y ** 2 + sympy.Rational(1, 2), 2 * x + 3, x * x * y + 4]
        body = G.Ket(0, 0) >> G.H @ G.Rx(rng.choice([x, x * y, y / 2])) \
            >> G.CRz(rng.choice([x + 2 * y, y, 0.25])) >> G.Rz(rng.choice([y ** 2, x])) @ G.H \
            >> G.Bra(rng.randint(0, 1), rng.randint(0, 1))
        parts, circuit = [], body
        for _ in range(rng.randint(1, 2)):
            e = rng.choice(exprs)
            mk = rng.choice(["sqrt", "sqrt", "scalar"])
            parts.append("%s(%s)" % (mk, e))
            circuit = getattr(G, mk)(e) @ circuit
        rep.count("stream:sqrt-scalars")
        what = None
        for var in (x, y):
            try:
                ev = list(numpy.array(circuit.eval().array).flatten())
                want = numpy.array([complex(sympy.diff(sympy.sympify(e), var).subs(vals)) for e in ev])
                gr = circuit.grad(var, mixed=False).eval()
                if isinstance(gr, (int, float)):      # the empty sum evaluates to the number 0
                    got = numpy.full(want.shape, gr, dtype=complex)
                else:
                    got = numpy.array([complex(sympy.sympify(e).subs(vals))
                                       for e in numpy.array(gr.array).flatten()])
                if got.shape != want.shape or not numpy.allclose(got, want, atol=1e-7, rtol=0):
                    what = "d/d%s of %s @ body: grad(mixed=False).eval() = %r but diff(eval()) = %r at %r" % (
                        var, " @ ".join(parts), list(got), list(want), vals)
            except Exception as exc:   # noqa
                what = "d/d%s of %s @ body raised %s: %s" % (var, " @ ".join(parts), type(exc).__name__, exc)
            if what:
                break
        if what is None:
            rep.count("oracle:O_sqrt_scalar:pass")
        else:
            bad += 1
            rep.count("oracle:O_sqrt_scalar:FAIL")
            if bad <= 3:
                rep.violation("O_sqrt_scalar: " + what,
                              {"oracle": "O_sqrt_scalar", "circuit": repr(circuit), "point": repr(vals)})


def grad_then_subs_stream(rep, rng, count):
    """Oracle-only stream on the real objects: differentiating and substituting another symbol
    commute - `c.grad(x).subs(y, v)` evaluates to what `c.subs(y, v).grad(x)` evaluates to, for
    the default (parameter-shift) gradient and for the pure one (the substitution keeps every
    flag of the gradient's scalars and boxes)."""
    import numpy
    from discopy.quantum import gates as G
    from discopy.quantum.circuit import Measure
    x, y = sympy.symbols("x y", real=True)
    bad = 0

    def num(arr, vals):
        return numpy.array([complex(sympy.sympify(e).subs(vals)) for e in numpy.array(arr).flatten()])
    for k in range(count):
        mixed = bool(k % 2)
        v = rng.choice([0.25, 0.5, 0.125])
        xv = rng.uniform(0.1, 0.9)
        # every phase keeps the symbol x after y is substituted (a phase that becomes a closed sympy
        # number cannot be evaluated at all: known finding F11a of C14)
        c = G.Ket(0) >> G.Rx(rng.choice([x, x + y, 2 * x])) >> G.Rz(rng.choice([x * y, x + y])) >> G.Rx(rng.choice([x + 2 * y, x]))
        c = c >> (Measure() if mixed else G.Bra(rng.randint(0, 1)))
        rep.count("stream:grad-then-subs")
        what = None
        try:
            a = c.grad(x, mixed=mixed).subs(y, v).eval(mixed=mixed) if mixed else c.grad(x, mixed=False).subs(y, v).eval()
            b = c.subs(y, v).grad(x, mixed=mixed).eval(mixed=mixed) if mixed else c.subs(y, v).grad(x, mixed=False).eval()
            ga = numpy.zeros(1) if isinstance(a, (int, float)) else num(a.array, {x: xv})
            gb = numpy.zeros(1) if isinstance(b, (int, float)) else num(b.array, {x: xv})
            if ga.shape != gb.shape or not numpy.allclose(ga, gb, atol=1e-7):
                what = "c.grad(x%s).subs(y, %r) evaluates to %r at x = %.3f, c.subs(y, %r).grad(x) to %r" % (
                    "" if mixed else ", mixed=False", v, list(numpy.round(ga, 5)), xv, v, list(numpy.round(gb, 5)))
        except Exception as exc:   # noqa
            what = "grad then subs raised %s: %s" % (type(exc).__name__, exc)
        if what:
            bad += 1
            rep.count("oracle:O_grad_subs:FAIL")
            if bad <= 3:
                rep.violation("O_grad_subs: " + what, {"oracle": "O_grad_subs", "circuit": repr(c)})
        else:
            rep.count("oracle:O_grad_subs:pass")


def sum_gradient_stream(rep, rng, count):
    """Oracle-only stream on the real objects: pure gradients (mixed=False) of FORMAL SUMS of circuits
    and second-order pure gradients (the gradient of a gradient is the gradient of a sum).  Evaluating
    them gives the first / second partial derivative of the amplitudes (sympy on eval())."""
    import numpy
    from discopy.quantum import gates as G
    x, y = sympy.symbols("x y", real=True)
    bad = 0

    def flat(r):
        if isinstance(r, (int, float)):
            return None
        return numpy.array(r.array).flatten()

    def num(entries, vals):
        return numpy.array([complex(sympy.sympify(e).subs(vals)) for e in entries])
    for k in range(count):
        vals = {x: rng.uniform(0.1, 1.2), y: rng.uniform(0.1, 1.2)}

        def body():
            return (G.Ket(0) >> G.Rx(rng.choice([x, x * y, x + y, 2 * x])) >> G.Rz(rng.choice([y, x * y, y ** 2]))
                    >> G.Rx(rng.choice([x, y, 0.25])) >> G.Bra(rng.randint(0, 1)))
        c1, c2 = body(), body()
        what = None
        try:
            if k % 2 == 0:          # gradient of a formal sum
                total = c1 + c2
                for var in (x, y):
                    want = num([sympy.diff(sympy.sympify(a) + sympy.sympify(b), var)
                                for a, b in zip(flat(c1.eval()), flat(c2.eval()))], vals)
                    g = flat(total.grad(var, mixed=False).eval())
                    got = numpy.zeros(want.shape, dtype=complex) if g is None else num(g, vals)
                    if got.shape != want.shape or not numpy.allclose(got, want, atol=1e-7):
                        what = "d/d%s of a sum of two circuits (mixed=False): got %r, sympy gives %r" % (
                            var, list(got), list(want))
                        break
            else:                   # second-order pure gradient
                v1, v2 = rng.choice([(x, x), (x, y), (y, x), (y, y)])
                want = num([sympy.diff(sympy.sympify(a), v1, v2) for a in flat(c1.eval())], vals)
                g = flat(c1.grad(v1, mixed=False).grad(v2, mixed=False).eval())
                got = numpy.zeros(want.shape, dtype=complex) if g is None else num(g, vals)
                if got.shape != want.shape or not numpy.allclose(got, want, atol=1e-7):
                    what = "d2/d%s d%s of a circuit (mixed=False twice): got %r, sympy gives %r" % (
                        v1, v2, list(got), list(want))
        except Exception as exc:   # noqa
            what = "pure gradient of a sum raised %s: %s" % (type(exc).__name__, exc)
        rep.count("stream:sum-gradients")
        if what:
            bad += 1
            rep.count("oracle:O_sum_grad:FAIL")
            if bad <= 3:
                rep.violation("O_sum_grad: " + what, {"oracle": "O_sum_grad", "c1": repr(c1), "c2": repr(c2),
                                                      "point": repr(vals)})
        else:
            rep.count("oracle:O_sum_grad:pass")


def run(tier, seed):
    try:
        common.model_entry("grad")
    except RuntimeError:
        print("C15: runner/models.txt has no line `grad:ExtractGrad.v:Grad/GradProg.vo` -- add it "
              "(and `Grad/*.v`, `Props/C15.v` to coq/included.txt); cannot run the correspondence")
        return 2
    import param_impl as pi
    import grad_impl as gi
    rep = Report("C15", tier, seed)
    proof_ok = common.proof_stage(rep, "C15")
    rep.extra["repair_switches"] = dict(FIXED)
    rng = random.Random(seed)
    g = Gen(rng, pi)
    ck = Checker(rep, gi)
    quick = tier == "quick"

    s1, s2 = symx(1), symx(2)
    sq = poly([(((1, 2),), (1, 1))])

    def rot(code, e, w=1):
        return [0, [pi.KROT, code, [2] * w, [2] * w, 0, 0, [0, e]]]

    def sc(e, kind=None, mixed=0):
        return [0, [pi.KQSCALAR if kind is None else kind, 0, [], [], 0, mixed, [0, e]]]

    def tb(name, dom, cod, data):
        return [0, [pi.KGEN, name, dom, cod, 0, 0, [1, data]]]

    def lit(cls, dom, cod, boxes, offs):
        return {"cls": cls, "dom": dom, "cod": cod, "boxes": boxes, "offs": offs}
    gbox = tb(101, [2], [2], [poly([(((1, 1),), (-1, 1))]), num(0), num(0), poly([(((1, 1), (2, 1)), (1, 1))])])
    bub = [3, [0, FUNS[1]], [2], [2], [gbox], [0]]
    # ---------------------------------------------------------------- cases
    cases = []       # dict(lit, kind, modes)
    corpus = [
        # F12: (scalar(phi) @ Rz(phi)).grad(phi); F12c: MixedScalar(phi^2); refusals; F12b
        (lit(pi.CCIRC, [2], [2], [sc(s1), rot(3, s1)], [0, 0]), "pure"),
        (lit(pi.CCIRC, [], [], [sc(sq, pi.KMIXEDSCALAR, 1)], [0]), "mixed"),
        (lit(pi.CCIRC, [2], [2], [sc(sq, None, 1), rot(1, s2)], [0, 0]), "mixed"),
        (lit(pi.CCIRC, [2, 2], [2, 2], [rot(1, s1), rot(5, sq, 2), rot(4, s2, 2), rot(6, poly([(((1, 1), (2, 1)), (1, 2))]), 2)],
             [1, 0, 0, 0]), "pure"),
        (lit(pi.CCIRC, [2], [2], [rot(1, s1), rot(3, poly([(((1, 1),), (2, 1)), (((2, 1),), (1, 1))])),
                                  rot(2, poly([(((1, 1), (2, 1)), (1, 1))]))], [0, 0, 0]), "pure"),
        (lit(pi.CCIRC, [2, 2], [2, 2], [rot(5, poly([(((1, 1),), (1, 2)), (((2, 1),), (1, 1))]), 2)], [0]), "pure"),
        (lit(pi.CCIRC, [2, 2], [2, 2], [rot(6, poly([(((1, 1), (2, 1)), (3, 1))]), 2), rot(2, s1)], [0, 1]), "pure"),
        (lit(pi.CCIRC, [2, 2], [2, 2], [rot(4, poly([(((1, 2),), (1, 1)), (((1, 1),), (1, 1))]), 2)], [0]), "pure"),
        (lit(pi.CCIRC, [], [1], [[0, [pi.KGEN, 6, [], [2], 0, 0, []]], rot(1, s1),
                                 [0, [pi.KGEN, 10, [2], [1], 0, 1, []]]], [0, 0, 0]), "mixed"),
        (lit(pi.CTEN, [2], [2], [tb(102, [2], [2], [num(1), num(2), num(3), num(4)]), bub], [0, 0]), "tensor"),
        (lit(pi.CTEN, [2], [2], [tb(100, [2], [2], [num(1), num(0), num(0), s1]), bub], [0, 0]), "tensor"),
        (lit(pi.CTEN, [2], [2], [[3, [0, FUNS[0]], [2], [2], [bub], [0]]], [0]), "tensor"),
        (lit(pi.CTEN, [], [2], [tb(103, [], [2], [sq, poly([(((1, 1), (2, 1)), (1, 1))])])], [0]), "tensor"),
    ]
    for c, kind in corpus:
        cases.append({"lit": c, "kind": kind, "tag": "corpus"})
    n = 32 if quick else 400
    for _ in range(n):
        cases.append({"lit": g.circuit(True), "kind": "pure", "tag": "circuit-pure"})
    for _ in range(n // 2):
        cases.append({"lit": g.circuit(False, ctrl=False, n_boxes=rng.randint(1, 4)), "kind": "mixed",
                      "tag": "circuit-mixed"})
    for _ in range(n):
        cases.append({"lit": g.tensor(), "kind": "tensor", "tag": "tensor"})
    for _ in range(n // 2):
        cases.append({"lit": g.zx(), "kind": "zx", "tag": "zx"})

    # ---------------------------------------------------------------- programs
    for c in cases:
        L = c["lit"]
        deep = set()
        for b in L["boxes"]:
            deep |= deep_syms(b)
        c["deep"] = deep
        vs = sorted(deep) + [NSYM + 1]          # every symbol of the diagram and an absent one
        modes = {"pure": [0, 1], "mixed": [1], "tensor": [1], "zx": [1]}[c["kind"]]
        c["var_modes"] = [(v, m) for v in vs for m in modes]
        for v, m in c["var_modes"]:
            ck.add(grad_prog(L, v, m))
        if c["kind"] != "zx":
            order = list(vs)
            rng.shuffle(order)
            lists = [order[:k] for k in sorted({0, 1, 2, len(order)}) if k <= len(order)]
            c["jacs"] = [(vl, modes[0]) for vl in lists]
            for vl, m in c["jacs"]:
                ck.add(jac_prog(L, vl, m))
                for v in vl:
                    ck.add(grad_prog(L, v, m))
    # sympy diff on the fragment
    diffs = []
    for _ in range(150 if quick else 2000):
        e = g.g14.expr(syms=[1, 2, 3], p_number=0)
        for _ in range(rng.randint(0, 2)):      # sums of several forms: several occurrences per symbol
            e2 = g.g14.expr(syms=[1, 2, 3], p_number=0)
            e = poly([(tuple(tuple(xk) for xk in mono), (a, b)) for mono, a, b in e[1] + e2[1]])
        diffs.append(ck.add([2, e, rng.randint(1, 4)]))
    # malformed stream
    malformed = []
    n_mal = max(25, len(cases) // 6)
    for _ in range(n_mal):
        c = rng.choice(cases)
        L = dict(c["lit"])
        v = min(c["deep"]) if c["deep"] else 1
        k = rng.random()
        if k < 0.25 and L["offs"]:
            offs = list(L["offs"])
            i = rng.randrange(len(offs))
            offs[i] += rng.choice([-1, 1, 4])
            L["offs"] = offs
        elif k < 0.4:
            L["cod"] = L["cod"] + [1 if L["cls"] == pi.CZX else 2]
        elif k < 0.5:
            L["offs"] = L["offs"] + [0]
        elif k < 0.65 and all(b[0] == 0 for b in L["boxes"]) and L["cls"] in (pi.CCIRC, pi.CTEN):
            # a class without gradients (rigid): same boxes rebuilt as rigid boxes is not possible for
            # library gates, so use one generic rigid box
            L = lit(pi.CRIG, [1], [1], [[0, [pi.KGEN, 100, [1], [1], 0, 0, [0, s1]]]], [0])
            v = 1
        elif k < 0.8:
            # a bubble on two wires: Spider refuses (ValueError)
            f = tb(100, [2], [2], [num(1), num(0), num(0), s1])
            L = lit(pi.CTEN, [2, 2], [2, 2], [[3, [0, FUNS[0]], [2, 2], [2, 2], [f, f], [0, 1]], f], [0, 0])
            v = 1
        elif k < 0.9:
            L = lit(pi.CCIRC, [2], [2], [[0, [pi.KGEN, 100, [2], [2], 0, 0, [0, s1]]], rot(1, s1)], [0, 0])
            v = 1
        else:
            L = lit(pi.CZX, [1], [1], [[0, [pi.KGEN, 100, [1], [1], 0, 0, [0, s1]]]], [0])
            v = 1
        malformed.append(ck.add(grad_prog(L, v, 1)))
        rep.count("malformed")
    rep.programs = len(ck.programs)
    ck.run_all()

    # ---------------------------------------------------------------- oracles
    n_oracle = {"pure": 0, "mixed": 0, "tensor": 0}
    budget = {"pure": 26 if quick else 120, "mixed": 10 if quick else 60, "tensor": 32 if quick else 200}
    for c in cases:
        L, kind = c["lit"], c["kind"]
        rep.count("class:" + pi.CLASSES[L["cls"]])
        rep.count("boxes:%d" % len(L["boxes"]))
        rep.count("symbols:%d" % len(c["deep"]))
        if any(b[0] == 3 for b in L["boxes"]):
            rep.count("with-bubble")
        shallow = set()
        for b in L["boxes"]:
            shallow |= shallow_syms(b)
        for v, m in c["var_modes"]:
            p = grad_prog(L, v, m)
            out = ck.out(p)
            rep.case([p], nontrivial=len(L["boxes"]) >= 2 and v in c["deep"],
                     sample={"class": pi.CLASSES[L["cls"]], "program": p})
            if out[0] != 0:
                # refusals: NotImplementedError for controlled rotations / generic boxes depending on
                # var under the default gradient -- outside the claim, recorded; must equal the model
                ctrl = any(b[0] == 0 and b[1][0] == pi.KROT and b[1][1] >= 4 and v in box_syms(b[1])
                           for b in L["boxes"])
                if out == [1, 6] and m == 1 and ctrl and L["cls"] == pi.CCIRC:
                    rep.count("refusal:controlled-rotation-mixed-gradient")
                else:
                    ck.fail("grad refused a well-typed diagram (error code %d)" % out[1], [], [p])
                continue
            terms = out[1][3]
            rep.count("terms:%d" % min(len(terms), 9))
            if out[1][1] != L["dom"] or out[1][2] != L["cod"]:
                ck.fail("the gradient has another domain / codomain than the diagram", [], [p])
            # a diagram not depending on the symbol has the empty sum as gradient
            if v not in c["deep"] and terms:
                ck.fail("the gradient with respect to an absent symbol is not the empty sum", [], [p])
            if v in shallow and not terms:
                ck.fail("empty gradient although a box depends on the symbol", [], [p])
        # the jacobian stacks the gradients in the order of the variables
        for vl, m in c.get("jacs", []):
            pj = jac_prog(L, vl, m)
            out = ck.out(pj)
            grads = [ck.out(grad_prog(L, v, m)) for v in vl]
            rep.count("jacobian:%d" % len(vl))
            if any(gq[0] != 0 for gq in grads):
                if out[0] == 0:
                    ck.fail("jacobian succeeded although a gradient is refused", [], [pj])
                continue
            if out[0] != 0:
                ck.fail("jacobian refused although every gradient exists", [], [pj])
                continue
            nv = len(vl)
            if L["cls"] == pi.CCIRC:
                if nv == 0:
                    want_cod, want = L["cod"], []
                elif nv == 1:
                    want_cod, want = L["cod"], grads[0][1][3]
                else:
                    w = 1 if nv == 2 else 10 + nv
                    want_cod, want = [w] + L["cod"], []
                    for i, gq in enumerate(grads):
                        code = 1 + i if nv == 2 else 2000 + 100 * nv + i
                        head = [0, [pi.KCLASSICAL, code, [], [w], 0, 0, []]]
                        want += [[[head] + t[0], [0] + [o + 1 for o in t[1]]] for t in gq[1][3]]
            else:
                dim = [] if nv <= 1 else [nv]
                want_cod, want = dim + L["cod"], []
                for i, (v, gq) in enumerate(zip(vl, grads)):
                    hot = [1, [[0, [[[], 1, 1]]] if j == i else [0, []] for j in range(max(nv, 1))]]
                    head = [0, [pi.KGEN, 1000 + v, [], dim, 0, 0, hot]]
                    want += [[[head] + t[0], [0] + [o + len(dim) for o in t[1]]] for t in gq[1][3]]
            if out[1][2] != want_cod or freeze(out[1][3]) != freeze(want):
                ck.fail("the jacobian is not the gradients stacked in the order of the variables", [], [pj])
        # derivative oracle
        if kind in n_oracle and n_oracle[kind] < budget[kind] and c["deep"]:
            if kind != "tensor" and len(L["dom"]) + len(L["cod"]) > 4:
                continue
            n_oracle[kind] += 1
            vm = [(v, m) for v, m in c["var_modes"] if v in c["deep"]]
            if len(vm) > 4 and c["tag"] != "corpus":
                vm = rng.sample(vm, 4)
            derivative_oracle(ck, pi, gi, rep, L, vm)
    for k, v in n_oracle.items():
        rep.count("oracle-diagrams:" + k, v)
    # sympy diff: the model's poly_diff against sympy (already compared as outcomes); here the
    # independent reading: d/dx is linear and kills absent symbols
    for p in diffs:
        out = ck.out(p)
        if out[0] != 0:
            ck.fail("sympy diff failed on a polynomial", [], [p])
        elif p[2] not in c14.expr_syms(p[1]) and out[1][1][1]:
            ck.fail("derivative with respect to an absent symbol is not zero", [], [p])
    for p in malformed:
        out = ck.out(p)
        rep.case([p], nontrivial=True)
        if out[0] == 0 and p[1] == pi.CRIG:
            ck.fail("a rigid diagram has a gradient", [], [p])
    if not quick:
        common.cross_check_extraction(rep, "grad", ["DV.Common.Base", "DV.Grad.GradProg"], "run_sexp",
                                      wrap(ck.programs), rng, n=150)

    sqrt_scalar_stream(rep, rng, 40 if quick else 400)
    sum_gradient_stream(rep, rng, 30 if quick else 300)
    grad_then_subs_stream(rep, rng, 20 if quick else 200)
    base.settle(rep, "C15", proof_ok, "C15")
    return rep.finish(
        rule="random parametrised circuits on <= 2 qubits (Rx Ry Rz, CU1 CRz CRx, pure / mixed scalars, "
             "H X Z S T CX CZ SWAP, kets, bras, measure, discard) whose phases are Python numbers, symbols, "
             "affine forms, monomials and products of affine forms in s1..s3 with dyadic coefficients, each "
             "symbol possibly occurring in several boxes; tensor diagrams (Dim 2 / 3, symbolic boxes, swaps, "
             "spiders, nested single-wire bubbles applying polynomials entrywise); ZX diagrams (syntactic "
             "only: they cannot be evaluated); per diagram: grad for every symbol and an absent one, pure "
             "(mixed=False) and default gradients, jacobians over 0, 1, 2 and all variables in shuffled "
             "order; sympy diff on random polynomials; ~15% malformed (ill-typed literals, classes without "
             "grad, multi-wire bubbles, generic boxes with parameters); derivative oracle on a budgeted "
             "subset at two rational grid points; non-trivial = at least two boxes and the symbol occurs; "
             "distinct by program",
        trusted_base=base.TRUSTED_CORE[:1] + [
            "hand-written Gallina model coq/Grad/{Grad,GradProg}.v (on top of coq/Param/{Expr,Param,ParamProg}.v) "
            "of Diagram.grad, the box rules and jacobian, tied to /repo only by this run's correspondence check",
            "sympy 1.14 as installed: diff / Poly(...).terms() on the polynomial fragment, symbolic evaluation "
            "and differentiation of exp / sin / cos entries in the oracle; numpy.pi / math.pi as the float "
            "3.141592653589793 (coefficients are recognised as rational or rational * pi at 1e-12)",
        ] + base.TRUSTED_CORE[2:],
        assumptions=[
            "expressions stay in the polynomial fragment with dyadic rational coefficients; symbols are real",
            "the derivative oracle compares complex numbers at two rational grid points with relative "
            "tolerance 1e-9",
            "controlled rotations under the default (mixed) gradient and generic boxes with parameters raise "
            "NotImplementedError: refusals, outside the claim, compared by exception class only",
            "ZX diagrams have no evaluation in this version of DisCoPy: syntactic correspondence only",
            "Sqrt scalars and ClassicalGates depending on the variable are outside the model (never generated)",
        ],
        checker_cmd="make -C coq Props/C15.vo  (coqc 8.16.1, Print Assumptions parsed)")
