"""C14 -- substituting parameters commutes with evaluation.

Stage 1: the theorems of coq/Props/C14.v (model of subs / lambdify /
free_symbols on parametrised boxes, coq/Param/*.v).
Stage 2: exact syntactic correspondence between the extracted model and the
implementation on literal diagrams of every class with every substitution form.
Stage 3: independent oracles on the implementation (sympy used directly):
shape / flag preservation, parameters of d.subs(s) == parameters of d with s
applied by sympy, free symbols == symbols of the box data, closing
substitutions leave no symbol and evaluate, d.subs(s).eval() == d.eval() with s
applied entrywise (numerically, at rational grid points), lambdify == subs.

Known findings F11a..F11k are recognised only when the implementation behaves
exactly like the bug-compatible model on the programs involved and the precise
trigger holds on the input; anything else is a violation."""
import json
import os
import random

import sympy

import common
from common import Report, freeze
from props import base

GRID = {1: sympy.Rational(1, 3), 2: sympy.Rational(2, 7), 3: sympy.Rational(-3, 5),
        4: sympy.Rational(5, 11), 5: sympy.Rational(1, 13), 6: sympy.Rational(7, 9)}
NSYM = 4            # symbols s1..s4 occur in diagrams; s5, s6 only in substitutions
COEFFS = [(1, 1), (1, 1), (2, 1), (3, 1), (-1, 1), (1, 2), (-1, 2), (1, 4), (3, 4), (-3, 2)]

# One switch per finding that has an upstream repair (notes/patches/F11x.diff): False = /repo
# is the pinned code (the finding is recognised as KNOWN-FINDING), True = /repo carries the fix
# (the model runs the repaired behaviour, the finding is no longer excused: its former minimal
# input is an ordinary regression case).  Override: VERIF_C14_FIXED="b,c,d,h,i,j".
FIXED = {"F11b": True, "F11c": True, "F11d": True, "F11h": True, "F11i": True, "F11j": True}   # repaired upstream: eb5ad40 401b874 8396d85 1c75e43 2ed8bd1 d680073
if os.environ.get("VERIF_C14_FIXED") is not None:
    _on = {x.strip().lower() for x in os.environ["VERIF_C14_FIXED"].split(",") if x.strip()}
    assert _on <= {"b", "c", "d", "h", "i", "j"}, _on
    FIXED = {k: k[-1] in _on for k in FIXED}
SWITCHES = [1 if FIXED["F11" + x] else 0 for x in "bcdhij"]    # wire order of ParamProg.dec_fixes


def run_model(programs, parallel=True):
    wrapped = [[SWITCHES, p] for p in programs]
    return (common.run_model_parallel if parallel else common.run_model)("param", wrapped)


FINDINGS = {
    "F11a": "a rotation whose phase became a closed sympy number cannot be evaluated: "
            "Rx(phi).subs(phi, 1/4).eval() raises TypeError (numpy.sin of a sympy Float)",
    "F11b": "subs / lambdify lose mixedness: scalar(phi, is_mixed=True).subs(phi, 2).is_mixed is "
            "False; a pure circuit.Box with data comes back with is_mixed=True",
    "F11c": "ClassicalGate.subs drops the dagger flag",
    "F11d": "Tensor.subs replaces every non-sympy entry by the variable (ValueError for a list of pairs)",
    "F11e": "CQMap.subs raises TypeError unless domain and codomain are empty (Tensor.map builds a "
            "Tensor with CQ types)",
    "F11f": "ZX spiders and scalars cannot be lambdified: cat.Box.lambdify passes _dagger/data "
            "keywords their constructors do not take (TypeError)",
    "F11g": "ClassicalGate.lambdify / Tensor.lambdify raise TypeError (sympy.lambdify on a numpy "
            "object array)",
    "F11h": "ClassicalGate.subs / lambdify raise AttributeError when data is None: no circuit "
            "containing Bits(...) can be substituted",
    "F11i": "Sum.free_symbols is {} whatever the terms contain",
    "F11j": "Sum.lambdify returns the sum unchanged (raises AttributeError once Sum.free_symbols alone "
            "is repaired: it is the inherited cat.Box.lambdify)",
    "F11k": "lambdify of a box with list data raises NameError unless every symbol of the data is "
            "bound (lists are printed without their free symbols in scope)",
}


# ------------------------------------------------------------------ wire helpers
def num(n, d=1, flag=0):
    return [flag, [] if n == 0 else [[[], n, d]]]


def poly(terms):
    """terms: dict {((sym, exp), ...): (num, den)} -> canonical sympy-typed wire expression."""
    from fractions import Fraction
    acc = {}
    for mono, c in terms:
        mono = tuple(sorted((x, k) for x, k in mono if k))
        acc[mono] = acc.get(mono, Fraction(0)) + Fraction(*c)
    out = [[[list(xk) for xk in mono], c.numerator, c.denominator]
           for mono, c in acc.items() if c != 0]
    out.sort(key=lambda t: t[0])
    return [1, out]


def symx(k):
    return poly([(((k, 1),), (1, 1))])


def expr_syms(e):
    return {x for mono, _, _ in e[1] for x, _ in mono} if e[0] else set()


def data_exprs(data):
    if not data:
        return []
    return [data[1]] if data[0] == 0 else list(data[1])


def box_syms(b):
    out = set()
    for e in data_exprs(b[6]):
        out |= expr_syms(e)
    return out


def form_pairs(f):
    return [(f[1], f[2])] if f[0] == 0 else [(x, v) for x, v in f[1]]


# ------------------------------------------------------------------ generators
class Gen:
    def __init__(self, rng, pi):
        self.rng, self.pi = rng, pi

    def coeff(self):
        return self.rng.choice(COEFFS)

    def expr(self, syms=None, p_number=0.15, nonneg=False):
        """A sympy-typed expression of the fragment, or (sometimes) a Python number.
        nonneg: numbers are >= 0 (entries of numpy arrays that sympy.lambdify will
        misread as array shapes: a negative one would turn its TypeError into a ValueError)."""
        r = self.rng
        syms = syms or list(range(1, NSYM + 1))
        k = r.random()
        if k < p_number:
            c = self.coeff()
            if nonneg:
                c = (abs(c[0]), c[1])
            if r.random() < 0.5:
                return num(c[0], c[1], flag=0)
            return num(c[0], c[1], flag=1)
        x, y = r.choice(syms), r.choice(syms)
        if k < 0.40:
            return symx(x)
        if k < 0.65:      # affine
            ts = [(((x, 1),), self.coeff())]
            if r.random() < 0.6:
                ts.append(((), self.coeff()))
            if r.random() < 0.4:
                ts.append((((y, 1),), self.coeff()))
            return poly(ts)
        if k < 0.85:      # monomial
            return poly([(((x, 1), (y, 1)) if x != y else ((x, 2),), self.coeff())])
        # product of two affine forms, expanded
        a0, a1, b0, b1 = self.coeff(), self.coeff(), self.coeff(), self.coeff()
        from fractions import Fraction as F
        A0, A1, B0, B1 = F(*a0), F(*a1), F(*b0), F(*b1)

        def fr(q):
            return (q.numerator, q.denominator)
        mono_xy = ((x, 1), (y, 1)) if x != y else ((x, 2),)
        return poly([((), fr(A0 * B0)), (((y, 1),), fr(A0 * B1)), (((x, 1),), fr(A1 * B0)),
                     (mono_xy, fr(A1 * B1))])

    def value(self, kind=None, syms=None):
        r = self.rng
        kind = kind or r.choice(["int", "float", "rational", "symbol", "expr"])
        if kind == "int":
            return num(r.choice([0, 1, 2, -1, 3]), 1, flag=0)
        if kind == "float":
            return num(r.choice([1, 3, -1, 5]), r.choice([2, 4]), flag=0)
        if kind == "rational":
            return num(r.choice([1, 3, -1, 5, 0, 2]), r.choice([1, 2, 4]), flag=1)
        if kind == "symbol":
            return symx(r.choice(syms or list(range(1, NSYM + 3))))
        return self.expr(syms or list(range(1, NSYM + 3)), p_number=0)

    def number(self):
        return self.value(self.rng.choice(["int", "float", "rational"]))

    def pynumber(self):
        return self.value(self.rng.choice(["int", "float"]))

    # ---- boxes.  Each returns (box, evaluable)
    def circuit_box(self, scan, evaluable_only):
        """Pick a box applicable to the wire list `scan`; returns (box, offset) or None."""
        pi, r = self.pi, self.rng
        n = len(scan)
        opts = ["scalar", "rot1", "ket"]
        qpos = [i for i in range(n) if scan[i] == pi.QUBIT]
        qq = [i for i in range(n - 1) if scan[i] == pi.QUBIT and scan[i + 1] == pi.QUBIT]
        bpos = [i for i in range(n) if scan[i] == pi.BIT]
        if qpos:
            opts += ["rot1", "rot1", "gate1", "measure", "bra", "discard"]
        if qq:
            opts += ["rot2", "rot2", "gate2"]
        if bpos:
            opts += ["classical", "classical"]
        if not evaluable_only:
            opts += ["generic", "bits", "copy"]
        k = r.choice(opts)
        if k == "bits" and r.random() < 0.7:      # every subs of a circuit with Bits is refused (F11h)
            k = "ket"
        if k == "scalar":
            kind = r.choice([pi.KQSCALAR, pi.KQSCALAR, pi.KMIXEDSCALAR, pi.KSQRT])
            mixed = {pi.KQSCALAR: r.choice([0, 0, 1]), pi.KMIXEDSCALAR: 1, pi.KSQRT: 0}[kind]
            e = self.expr()
            if kind == pi.KSQRT:        # keep sqrt arguments out of the oracle's way
                e = symx(r.randint(1, NSYM)) if e[0] else e
            return [kind, 0, [], [], 0, mixed, [0, e]], r.randint(0, n)
        if k == "rot1" and qpos:
            return [pi.KROT, r.choice([1, 2, 3]), [2], [2], 0, 0, [0, self.expr()]], r.choice(qpos)
        if k == "rot2" and qq:
            return [pi.KROT, r.choice([4, 5, 6]), [2, 2], [2, 2], 0, 0, [0, self.expr()]], r.choice(qq)
        if k == "gate1" and qpos:
            code = r.choice([1, 2, 3, 12, 13, 17])
            return [pi.KGEN, code, [2], [2], 1 if code == 13 else 0, 0, []], r.choice(qpos)
        if k == "gate2" and qq:
            code = r.choice([4, 5, 16])
            return [pi.KGEN, code, [2, 2], [2, 2], 0, 0, []], r.choice(qq)
        if k == "ket":
            return [pi.KGEN, r.choice([6, 7]), [], [2], 0, 0, []], r.randint(0, n)
        if k == "bra" and qpos:
            return [pi.KGEN, r.choice([8, 9]), [2], [], 0, 0, []], r.choice(qpos)
        if k == "measure" and qpos:
            return [pi.KGEN, 10, [2], [1], 0, 1, []], r.choice(qpos)
        if k == "discard" and qpos:
            return [pi.KGEN, 11, [2], [], 0, 1, []], r.choice(qpos)
        if k == "classical" and bpos:
            dag = r.choice([0, 0, 1])
            data = [1, [self.expr(p_number=0.4, nonneg=True) for _ in range(4)]]
            return [pi.KCLASSICAL, 100 + r.randint(0, 5), [1], [1], dag, 0, data], r.choice(bpos)
        if k == "generic":
            w = r.choice([0, 1]) if n else 0
            dom = scan[:0] if w == 0 else None
            off = r.randint(0, n - w)
            dom = scan[off:off + w]
            data = r.choice([[], [0, self.expr()], [1, [self.expr() for _ in range(r.randint(1, 3))]]])
            return [pi.KGEN, 100 + r.randint(0, 5), dom, dom, r.choice([0, 0, 1]),
                    r.choice([0, 1]), data], off
        if k == "bits":
            code = r.choice([1, 2])
            return [pi.KCLASSICAL, code, [], [1], 0, 0, []], r.randint(0, n)
        if k == "copy" and bpos:
            ent = lambda v: num(v)   # noqa: E731
            return [pi.KCLASSICAL, 3, [1], [1, 1], 0, 0,
                    [1, [ent(v) for v in [1, 0, 0, 0, 0, 0, 0, 1]]]], r.choice(bpos)
        return [pi.KQSCALAR, 0, [], [], 0, 0, [0, self.expr()]], r.randint(0, n)

    def grow(self, cls, dom, n_boxes, pick):
        scan, boxes, offs = list(dom), [], []
        for _ in range(n_boxes):
            got = pick(scan)
            if got is None:
                continue
            b, off = got
            assert scan[off:off + len(b[2])] == b[2], (scan, b, off)
            scan = scan[:off] + b[3] + scan[off + len(b[2]):]
            boxes.append(b)
            offs.append(off)
        return [self.pi.DIAG, cls, list(dom), scan, boxes, offs]

    def circuit(self, evaluable_only, max_q=2):
        r, pi = self.rng, self.pi
        dom = [pi.QUBIT] * r.randint(0, max_q)
        if not evaluable_only and r.random() < 0.2:
            dom.insert(r.randint(0, len(dom)), pi.BIT)

        def pick(scan):
            if evaluable_only and len(scan) >= max_q + 1:
                # do not grow wider
                b, off = self.circuit_box(scan, evaluable_only)
                if len(b[3]) > len(b[2]):
                    return None
                return b, off
            return self.circuit_box(scan, evaluable_only)
        return self.grow(pi.CCIRC, dom, r.randint(1, 5), pick)

    def tensor(self):
        r, pi = self.rng, self.pi
        dom = [r.choice([2, 2, 3]) for _ in range(r.randint(0, 2))]

        def pick(scan):
            n = len(scan)
            k = r.random()
            if k < 0.15 and n >= 2:
                off = r.randint(0, n - 2)
                return [pi.KGEN, 1, scan[off:off + 2], scan[off:off + 2][::-1], 0, 0, []], off
            w = r.randint(0, min(n, 2))
            off = r.randint(0, n - w)
            bdom = scan[off:off + w]
            bcod = [r.choice([2, 2, 3]) for _ in range(r.randint(0, 2 if n < 3 else 1))]
            size = 1
            for x in bdom + bcod:
                size *= x
            if size > 12:
                return None
            if size == 1 and r.random() < 0.5:
                data = [0, self.expr(p_number=0.3)]
            else:
                data = [1, [self.expr(p_number=0.35) for _ in range(size)]]
            return [pi.KGEN, 100 + r.randint(0, 5), bdom, bcod, 0, 0, data], off
        return self.grow(pi.CTEN, dom, r.randint(1, 4), pick)

    def zx(self):
        r, pi = self.rng, self.pi
        dom = [1] * r.randint(0, 3)

        def pick(scan):
            n = len(scan)
            k = r.random()
            if k < 0.1:
                return [pi.KZSCALAR, 0, [], [], 0, 0, [0, self.expr()]], r.randint(0, n)
            if k < 0.2 and n >= 1:
                return [pi.KGEN, 1, [1], [1], 0, 0, []], r.randint(0, n - 1)
            if k < 0.3 and n >= 2:
                return [pi.KGEN, 2, [1, 1], [1, 1], 0, 0, []], r.randint(0, n - 2)
            a = r.randint(0, min(n, 2))
            c = r.randint(0, 2)
            ph = self.expr() if r.random() < 0.8 else num(0)
            return [pi.KSPIDER, r.choice([1, 2, 3]), [1] * a, [1] * c, 0, 0, [0, ph]], r.randint(0, n - a)
        return self.grow(pi.CZX, dom, r.randint(1, 5), pick)

    def plain(self, cls):
        """cat / monoidal / rigid diagrams of generic boxes with data."""
        r, pi = self.rng, self.pi
        if cls == pi.CCAT:
            dom = [r.randint(1, 3)]
        else:
            dom = [r.randint(1, 3) for _ in range(r.randint(0, 3))]

        def pick(scan):
            n = len(scan)
            if cls == pi.CCAT:
                w, off = 1, 0
                bcod = [r.randint(1, 3)]
            else:
                w = r.randint(0, min(n, 2))
                off = r.randint(0, n - w)
                bcod = [r.randint(1, 3) for _ in range(r.randint(0, 2))]
            data = r.choice([[], [0, self.expr()], [0, self.expr()],
                             [1, [self.expr(p_number=0.3) for _ in range(r.randint(0, 3))]]])
            return [pi.KGEN, 100 + r.randint(0, 9), scan[off:off + w], bcod,
                    r.choice([0, 0, 1]), 0, data], off
        return self.grow(cls, dom, r.randint(1, 4), pick)

    # ---- substitutions for a diagram whose symbols are `free`
    def forms(self, free):
        r = self.rng
        free = sorted(free)
        pool = free or [1]
        out = []
        x = r.choice(pool)
        out.append(("number", [0, x, self.number()]))
        out.append(("symbol", [0, x, symx(r.choice([y for y in range(1, NSYM + 3) if y != x]))]))
        out.append(("expr", [0, x, self.value("expr")]))
        pairs = []
        for y in r.sample(pool, r.randint(1, len(pool))):
            pairs.append([y, self.value()])
        if r.random() < 0.3:
            pairs.append([r.randint(1, NSYM + 2), self.value()])
        out.append(("pairs", [1, pairs]))
        if r.random() < 0.3:
            out.append(("absent", [0, NSYM + 2, self.number()]))
        if r.random() < 0.15:
            out.append(("empty", [1, []]))
        return out

    def closing(self, free, python=False):
        order = sorted(free)
        self.rng.shuffle(order)
        return [1, [[x, self.pynumber() if python else self.number()] for x in order]]


# ------------------------------------------------------------------ oracles
def snippet(program):
    return ("cd /verif/harness && PYTHONPATH=/verif/harness:/repo /venv/bin/python -B -c "
            "\"import param_impl as pi; print(pi.observe(%s))\"" % json.dumps(program))


def to_complex(x, grid):
    if isinstance(x, sympy.Basic):
        return complex(sympy.N(x.subs(grid), 30))
    return complex(x)


def sympy_apply(x, form, pi):
    """Apply a substitution to one entry with sympy directly."""
    x = sympy.sympify(x)
    args = pi.build_form(form)
    return x.subs(*args)


class Checker:
    def __init__(self, rep, pi, tier):
        self.rep, self.pi, self.tier = rep, pi, tier
        self.programs, self.roles = [], []
        self.impl, self.model = {}, {}

    def add(self, program):
        key = common.to_sexp(program)
        if key not in self.impl:
            self.impl[key] = None
            self.programs.append(program)
        return key

    def run_all(self):
        pi = self.pi
        todo = [p for p in self.programs if self.impl[common.to_sexp(p)] is None]
        for p in todo:
            self.impl[common.to_sexp(p)] = pi.observe(p)
        mod = run_model(todo)
        for p, m in zip(todo, mod):
            key = common.to_sexp(p)
            self.model[key] = m
            a = self.impl[key]
            self.rep.disagreements_checked += 1
            self.rep.count("outcome:" + ("value" if a[0] == 0 else "err%d" % a[1]))
            if m == [1, 8]:
                raise RuntimeError("model could not decode %r" % (p,))
            if freeze(a) != freeze(m):
                self.rep.extra.setdefault("disagreements", []).append(
                    {"family": "corr:param", "class": "param", "program": p, "impl": a, "model": m})

    def agree(self, *programs):
        return all(freeze(self.impl[common.to_sexp(p)]) == freeze(self.model[common.to_sexp(p)])
                   for p in programs)

    def fail(self, what, fid, trigger, programs, extra=None):
        """An oracle failed.  Known finding iff listed id, trigger holds and the
        implementation equals the bug-compatible model on the programs involved."""
        if fid and trigger and not FIXED.get(fid, False) and self.agree(*programs):
            self.rep.known_finding(fid, FINDINGS[fid])
            self.rep.count("known:" + fid)
            return
        payload = {"program": programs[0], "programs": programs, "what": what,
                   "impl": [self.impl[common.to_sexp(p)] for p in programs],
                   "model": [self.model[common.to_sexp(p)] for p in programs],
                   "suspected_finding": fid, "trigger_holds": bool(trigger),
                   "replay": snippet(programs[0])}
        if extra:
            payload.update(extra)
        self.rep.violation(what, payload)


def lambdify_triggers(pi, lit, syms):
    """Which lambdify findings can fire on this literal (by box, wire level)."""
    out = set()
    for b in lit[4]:
        hit = bool(set(syms) & box_syms(b))
        if b[0] == pi.KCLASSICAL:
            out.add("F11h" if not b[6] else "F11g")
        elif b[0] in (pi.KSPIDER, pi.KZSCALAR) and hit:
            out.add("F11f")
        elif b[0] == pi.KGEN and hit and b[6] and b[6][0] == 1 and (box_syms(b) - set(syms)):
            out.add("F11k")
    return out


def check_shape(ck, pi, cls, lit, prog, form_vars, is_subs):
    """dom / cod / offsets / kinds / names unchanged; flags unchanged."""
    out = ck.impl[common.to_sexp(prog)]
    if out[0] != 0:
        return
    body = out[1][1:]
    if body[0] != lit[2] or body[1] != lit[3] or body[3] != lit[5] or len(body[2]) != len(lit[4]):
        ck.fail("subs / lambdify changed domain, codomain, offsets or the number of boxes",
                None, False, [prog])
        return
    for b, b2 in zip(lit[4], body[2]):
        if b[:4] != b2[:4]:
            ck.fail("subs / lambdify changed the kind, name, domain or codomain of a box",
                    None, False, [prog])
            return
        if b[5] != b2[5]:
            hit = bool(set(form_vars) & box_syms(b))
            trig = (b[0] == pi.KQSCALAR and b[5] == 1) or \
                   (b[0] == pi.KGEN and cls == pi.CCIRC and b[1] >= 100 and b[5] == 0 and hit)
            ck.fail("subs / lambdify changed the mixedness of a box", "F11b", trig, [prog])
        if b[4] != b2[4]:
            trig = b[0] == pi.KCLASSICAL and b[4] == 1 and is_subs
            ck.fail("subs / lambdify changed the dagger flag of a box", "F11c", trig, [prog])


def check_params(ck, pi, lit, prog, form):
    """Every parameter of d.subs(form) equals the parameter of d with the
    substitution applied by sympy directly (compared as canonical polynomials)."""
    out = ck.impl[common.to_sexp(prog)]
    if out[0] != 0:
        return
    for b, b2 in zip(lit[4], out[1][3]):
        old, new = data_exprs(b[6]), data_exprs(b2[6])
        if len(old) != len(new):
            ck.fail("subs changed the shape of box data", None, False, [prog])
            return
        for e, e2 in zip(old, new):
            want = pi.enc_expr(sympy_apply(pi.build_expr(e), form, pi))
            if want[1] != e2[1]:
                ck.fail("a parameter of d.subs(s) differs from the parameter of d with s applied",
                        None, False, [prog], {"expected": want, "got": e2})
                return


def flags_and_sums_stream(rep, rng, count):
    """Oracle-only stream on the real objects: (a) substitutions that leave the data of a box equal
    (phi -> phi, phi -> phi + 0, chained pairs that swap two symbols back) keep the box as it was -
    in particular its mixedness - for generic circuit boxes, pure and mixed; (b) formal sums with no
    term, and sums nested in sums: lambdify(...)(values) equals subs with the same values, with the
    same dom, cod and number of terms."""
    import sympy
    from discopy.quantum import circuit as C, gates as G
    from discopy.quantum.circuit import qubit
    phi, psi = sympy.symbols("phi psi")
    bad = 0

    def fail(what, payload=None):
        nonlocal bad
        bad += 1
        rep.count("oracle:flags-sums:FAIL")
        if bad <= 4:
            rep.violation(what, payload or {})
    for k in range(count):
        rep.count("stream:flags-sums")
        try:
            mixed = bool(k % 2)
            data = rng.choice([phi, phi + psi, 2 * phi, phi * psi])
            b = C.Box("b", qubit, qubit, data=data, is_mixed=mixed)
            for name, args in (("subs(phi, phi)", (phi, phi)), ("subs(phi, phi + 0)", (phi, phi + 0)),
                               ("subs([(phi, psi), (psi, phi)]) twice", None)):
                r = b.subs(*args) if args else b.subs([(phi, psi)]).subs([(psi, phi)]) if data == phi else b.subs(phi, phi)
                if r.is_mixed != b.is_mixed or r.dom != b.dom or r.cod != b.cod or r.data != b.data and args:
                    fail("%s on a %s generic circuit box returns a box with is_mixed=%r, data %r" % (
                        name, "mixed" if mixed else "pure", r.is_mixed, r.data), {"box": repr(b)})
                    break
                whole = (G.Ket(0) >> b >> G.H)
                rw = whole.subs(*args) if args else whole
                if rw.is_mixed != whole.is_mixed:
                    fail("%s turns a %s circuit into a %s one" % (name, "mixed" if whole.is_mixed else "pure",
                                                                   "mixed" if rw.is_mixed else "pure"), {"box": repr(b)})
                    break
            else:
                # (b) sums
                c1, c2 = G.Rx(phi), G.Rz(phi + psi)
                empty = C.Sum([], qubit, qubit) if hasattr(C, "Sum") else None
                val = rng.choice([0.25, 0.5, 1])
                if empty is not None:
                    a1 = empty.lambdify(phi, psi)(val, 0.5)
                    a2 = empty.subs([(phi, val), (psi, 0.5)])
                    if len(a1.terms) != 0 or a1.dom != qubit or a1.cod != qubit or len(a2.terms) != 0:
                        fail("lambdify / subs of the empty sum do not give the empty sum on the same types")
                        continue
                nested = C.Sum([c1, C.Sum([c2, c1], qubit, qubit)], qubit, qubit)
                l1 = nested.lambdify(phi, psi)(val, 0.5)
                l2 = nested.subs([(phi, val), (psi, 0.5)])
                if len(l1.terms) != len(l2.terms) or l1 != l2:
                    fail("lambdify and subs disagree on a sum nested in a sum: %d vs %d terms" % (len(l1.terms), len(l2.terms)))
                    continue
                rep.count("oracle:flags-sums:pass")
        except Exception as exc:   # noqa
            fail("flags / sums stream raised %s: %s" % (type(exc).__name__, exc))


def run(tier, seed):
    import param_impl as pi
    rep = Report("C14", tier, seed)
    proof_ok = common.proof_stage(rep, "C14")
    rep.extra["repair_switches"] = dict(FIXED)
    rng = random.Random(seed)
    g = Gen(rng, pi)
    ck = Checker(rep, pi, tier)
    quick = tier == "quick"

    # ---------------------------------------------------------------- cases
    cases = []   # dict(cls, lit, evaluable, tag)
    s1, s2 = symx(1), symx(2)
    rx = [pi.KROT, 1, [2], [2], 0, 0, [0, s1]]
    corpus = [
        # F11a / F11b minimal inputs, then one per finding
        (pi.CCIRC, [pi.DIAG, pi.CCIRC, [2], [2], [rx], [0]], True),
        (pi.CCIRC, [pi.DIAG, pi.CCIRC, [2], [2], [[pi.KQSCALAR, 0, [], [], 0, 1, [0, s1]], rx], [0, 0]], True),
        (pi.CCIRC, [pi.DIAG, pi.CCIRC, [1], [1],
                    [[pi.KCLASSICAL, 100, [1], [1], 1, 0, [1, [s1, num(1), num(0), s2]]]], [0]], True),
        (pi.CCIRC, [pi.DIAG, pi.CCIRC, [2], [1, 2], [[pi.KCLASSICAL, 1, [], [1], 0, 0, []], rx], [0, 1]], False),
        (pi.CCIRC, [pi.DIAG, pi.CCIRC, [2], [2], [[pi.KGEN, 100, [2], [2], 0, 0, [0, s1]]], [0]], False),
        (pi.CZX, [pi.DIAG, pi.CZX, [1], [1, 1], [[pi.KSPIDER, 1, [1], [1, 1], 0, 0, [0, s1]]], [0]], False),
        (pi.CZX, [pi.DIAG, pi.CZX, [], [], [[pi.KZSCALAR, 0, [], [], 0, 0, [0, s1]]], [0]], False),
        (pi.CTEN, [pi.DIAG, pi.CTEN, [2], [], [[pi.KGEN, 100, [2], [], 0, 0, [1, [s1, s2]]]], [0]], True),
        (pi.CMON, [pi.DIAG, pi.CMON, [1], [1], [[pi.KGEN, 100, [1], [1], 1, 0, [1, [s1, num(1), s2]]]], [0]], False),
        (pi.CCIRC, [pi.DIAG, pi.CCIRC, [], [], [[pi.KMIXEDSCALAR, 0, [], [], 0, 1, [0, s1]],
                                                [pi.KSQRT, 0, [], [], 0, 0, [0, s2]]], [0, 0]], True),
    ]
    for cls, lit, ev in corpus:
        cases.append({"cls": cls, "lit": lit, "evaluable": ev, "tag": "corpus"})
    n = 60 if quick else 400
    for _ in range(n):
        cases.append({"cls": pi.CCIRC, "lit": g.circuit(True, max_q=2), "evaluable": True, "tag": "circuit-eval"})
    for _ in range(n):
        cases.append({"cls": pi.CCIRC, "lit": g.circuit(False, max_q=3), "evaluable": False, "tag": "circuit"})
    for _ in range(n):
        cases.append({"cls": pi.CTEN, "lit": g.tensor(), "evaluable": True, "tag": "tensor"})
    for _ in range(n):
        cases.append({"cls": pi.CZX, "lit": g.zx(), "evaluable": False, "tag": "zx"})
    for cls in (pi.CCAT, pi.CMON, pi.CRIG):
        for _ in range(n // 3):
            cases.append({"cls": cls, "lit": g.plain(cls), "evaluable": False, "tag": pi.CLASSES[cls]})

    # ---------------------------------------------------------------- programs
    for c in cases:
        lit = c["lit"]
        free = set()
        for b in lit[4]:
            free |= box_syms(b)
        c["free"] = free
        ck.add(lit)
        ck.add([pi.FREE, lit])
        c["forms"] = g.forms(free)
        for _, f in c["forms"]:
            ck.add([pi.SUBS, lit, f])
            ck.add([pi.FREE, [pi.SUBS, lit, f]])
        c["closing"] = g.closing(free)
        pc = [pi.SUBS, lit, c["closing"]]
        ck.add(pc)
        ck.add([pi.FREE, pc])
        if c["evaluable"]:
            ck.add([pi.EVALSTATUS, pc])
        # lambdify: all symbols bound to Python numbers, in a shuffled order
        order = sorted(free)
        rng.shuffle(order)
        if rng.random() < 0.3:
            order.append(NSYM + 1)
        vals = [g.pynumber() for _ in order]
        c["lam_all"] = (order, vals)
        pl = [pi.LAMBDIFY, lit, order, vals]
        ck.add(pl)
        ck.add([pi.SUBS, lit, [1, [[x, v] for x, v in zip(order, vals)]]])
        if c["evaluable"]:
            ck.add([pi.EVALSTATUS, pl])
        # lambdify: a subset of the symbols, values of any kind not mentioning bound symbols
        sub = [x for x in sorted(free) if rng.random() < 0.6] or ([min(free)] if free else [NSYM + 2])
        rng.shuffle(sub)
        others = [y for y in range(1, NSYM + 3) if y not in sub]
        vals2 = [g.value(syms=others) for _ in sub]
        c["lam_part"] = (sub, vals2)
        ck.add([pi.LAMBDIFY, lit, sub, vals2])
        ck.add([pi.SUBS, lit, [1, [[x, v] for x, v in zip(sub, vals2)]]])
        # simultaneous vs sequential: swap two symbols (correspondence only)
        if len(free) >= 2 and rng.random() < 0.3:
            a, b = sorted(free)[:2]
            ck.add([pi.LAMBDIFY, lit, [a, b], [symx(b), symx(a)]])
    # sums
    sums = []
    for _ in range(10 if quick else 200):
        t1 = g.circuit(True, max_q=1)
        cod_ok = [c for c in (g.circuit(True, max_q=1) for _ in range(6))
                  if c[2] == t1[2] and c[3] == t1[3]]
        terms = [t1[2:]] + [c[2:] for c in cod_ok[:2]]
        sums.append([pi.SUM, pi.CCIRC, t1[2], t1[3], terms])
    sums.append([pi.SUM, pi.CCIRC, [2], [2], [[[2], [2], [rx], [0]],
                                              [[2], [2], [[pi.KROT, 3, [2], [2], 0, 0, [0, s2]]], [0]]]])
    sums.append([pi.SUM, pi.CCIRC, [2], [2], [[[2], [2], [rx], [0]], [[2], [], [], []]]])   # malformed
    for s in sums:
        ck.add(s)
        ck.add([pi.FREE, s])
        ck.add([pi.SUBS, s, [0, 1, num(1, 2)]])
        ck.add([pi.LAMBDIFY, s, [1, 2], [num(1, 2), num(1, 4)]])
        ck.add([pi.SUBS, s, [1, [[1, num(1, 2)], [2, num(1, 4)]]]])
    # tensors (evaluation results) and CQMap
    tens = []
    for _ in range(30 if quick else 500):
        size = rng.choice([1, 2, 4])
        dom = {1: [], 2: [2], 4: [2, 2]}[size]
        tens.append([pi.TENS, dom, [], [g.expr(p_number=0.4, nonneg=True) for _ in range(size)]])
    tens.append([pi.TENS, [2, 2], [], [s1, num(1), num(0), s2]])
    tens.append([pi.TENS, [2], [], [s1, symx(2)]])
    for t in tens:
        ck.add(t)
        ck.add([pi.SUBS, t, [0, 1, num(3)]])
        ck.add([pi.SUBS, t, [1, [[1, num(3)], [2, s1]]]])
        if len(t[3]) == 4:      # other shapes: the error class depends on the numbers
            ck.add([pi.LAMBDIFY, t, [1, 2], [num(1), num(2)]])
    cqs = [[pi.CQSUBS, [0, 1, num(1)], [2], [], [s1, num(0), num(0), s2]],
           [pi.CQSUBS, [0, 1, num(1)], [], [2], [s1, s2, s2, s1]],
           [pi.CQSUBS, [1, [[1, num(1)]]], [2], [], [s1, num(0), num(0), s2]],
           [pi.CQSUBS, [1, [[1, num(1)]]], [2], [], [num(1), num(0), num(0), num(1)]],
           [pi.CQSUBS, [0, 1, num(1)], [], [], [s1]],        # empty types: behaves like Tensor.subs
           [pi.CQSUBS, [0, 1, num(1)], [], [], [num(3)]]]
    for cq in cqs:
        ck.add(cq)
    # malformed stream
    n_mal = max(20, len(cases) // 7)
    for _ in range(n_mal):
        c = rng.choice(cases)
        lit = [x if not isinstance(x, list) else list(x) for x in c["lit"]]
        k = rng.random()
        if c["cls"] == pi.CCAT and k < 0.6:
            # arrows have no offsets and one-object types: only a wrong codomain is expressible
            lit[3] = [lit[3][0] % 3 + 1]
            ck.add(lit)
        elif k < 0.3 and lit[5]:
            i = rng.randrange(len(lit[5]))
            lit[5][i] = lit[5][i] + rng.choice([-1, 1, 5])
            ck.add(lit)
            ck.add([pi.SUBS, lit, [0, 1, num(1)]])
        elif k < 0.5:
            # (a ZX type is a number of wires: its only object code is 1)
            lit[3] = lit[3] + [lit[3][0] if lit[3] else (1 if c["cls"] == pi.CZX else 2)]
            ck.add(lit)
        elif k < 0.6 and c["cls"] != pi.CCAT:
            lit[5] = lit[5] + [0]
            ck.add(lit)
        else:
            order, vals = c["lam_all"]
            ck.add([pi.LAMBDIFY, c["lit"], order + [NSYM + 2], vals])
            ck.add([pi.LAMBDIFY, c["lit"], order, vals + [num(1)]])
        rep.count("malformed")
    rep.programs = len(ck.programs)
    ck.run_all()

    # ---------------------------------------------------------------- oracles
    for c in cases:
        cls, lit, free = c["cls"], c["lit"], c["free"]
        rep.count("class:" + pi.CLASSES[cls])
        rep.count("boxes:%d" % len(lit[4]))
        rep.count("free:%d" % len(free))
        for b in lit[4]:
            rep.count("kind:%d" % b[0])
        rep.case([cls, lit], nontrivial=len(lit[4]) >= 2 and bool(free),
                 sample={"class": pi.CLASSES[cls], "program": lit})
        lit_out = ck.impl[common.to_sexp(lit)]
        if lit_out[0] != 0:
            ck.fail("well-typed literal refused", None, False, [lit])
            continue
        has_none = any(b[0] == pi.KCLASSICAL and not b[6] for b in lit[4])
        # (c) free symbols are exactly the symbols of the box data
        pf = [pi.FREE, lit]
        if ck.impl[common.to_sexp(pf)] != [0, [3, sorted(free)]]:
            ck.fail("free_symbols differ from the symbols occurring in box data", None, False, [pf])
        # substitutions
        for kind, f in c["forms"] + [("closing", c["closing"])]:
            ps = [pi.SUBS, lit, f]
            rep.count("subs:" + kind)
            out = ck.impl[common.to_sexp(ps)]
            fvars = [x for x, _ in form_pairs(f)]
            if out[0] != 0:
                trig = has_none and out == [1, 9]
                ck.fail("subs refused a well-typed diagram", "F11h", trig, [ps])
                continue
            check_shape(ck, pi, cls, lit, ps, fvars, True)
            check_params(ck, pi, lit, ps, f)
            # free symbols after substituting closed values
            if all(not expr_syms(v) for _, v in form_pairs(f)):
                # (terms may cancel, so fewer symbols may remain; none may appear or survive)
                got = ck.impl[common.to_sexp([pi.FREE, ps])]
                left = set()
                for b2 in out[1][3]:
                    left |= box_syms(b2)
                if got[0] != 0 or not set(got[1][1]) <= free - set(fvars) or set(got[1][1]) != left:
                    ck.fail("free symbols after substituting numbers are not the remaining ones",
                            None, False, [[pi.FREE, ps]])
                if kind == "closing" and got != [0, [3, []]]:
                    ck.fail("free symbols remain after substituting all of them by numbers",
                            None, False, [[pi.FREE, ps]])
            if kind == "closing" and c["evaluable"]:
                pe = [pi.EVALSTATUS, ps]
                st = ck.impl[common.to_sexp(pe)]
                if st[0] != 0:
                    trig = st == [1, 5] and any(
                        b2[0] == pi.KROT and b2[6][1][0] == 1 and not expr_syms(b2[6][1])
                        for b2 in out[1][3])
                    ck.fail("a diagram with every symbol substituted by a number cannot be evaluated",
                            "F11a", trig, [pe, ps])
        # lambdify with every symbol bound to a Python number == subs, and evaluates
        for which in ("lam_all", "lam_part"):
            syms, vals = c[which]
            pl = [pi.LAMBDIFY, lit, syms, vals]
            ps = [pi.SUBS, lit, [1, [[x, v] for x, v in zip(syms, vals)]]]
            lo, so = ck.impl[common.to_sexp(pl)], ck.impl[common.to_sexp(ps)]
            rep.count("lambdify:" + which)
            if lo[0] != 0:
                trigs = lambdify_triggers(pi, lit, syms)
                fid = {9: "F11h", 10: "F11k"}.get(lo[1])
                if lo[1] == 5:
                    fid = "F11f" if "F11f" in trigs else "F11g"
                ck.fail("lambdify refused a well-typed diagram", fid, fid in trigs, [pl])
                continue
            check_shape(ck, pi, cls, lit, pl, syms, False)
            if so[0] == 0 and pi.strip_flags(lo) != pi.strip_flags(so):
                # the only legitimate difference is F11c (subs drops the dagger flag, lambdify refuses)
                ck.fail("lambdify(*symbols)(*values) differs from subs(zip(symbols, values))",
                        None, False, [pl, ps])
            if which == "lam_all" and c["evaluable"]:
                pe = [pi.EVALSTATUS, pl]
                if ck.impl[common.to_sexp(pe)][0] != 0:
                    ck.fail("lambdified diagram with every symbol bound cannot be evaluated",
                            None, False, [pe])
                if ck.impl[common.to_sexp([pi.FREE, pl])] if False else False:
                    pass
    # sums
    for s in sums:
        so = ck.impl[common.to_sexp(s)]
        if so[0] != 0:
            continue
        want = set()
        for t in s[4]:
            for b in t[2]:
                want |= box_syms(b)
        pf = [pi.FREE, s]
        if ck.impl[common.to_sexp(pf)] != [0, [3, sorted(want)]]:
            ck.fail("free symbols of a sum are not those of its terms", "F11i", bool(want), [pf])
        pl = [pi.LAMBDIFY, s, [1, 2], [num(1, 2), num(1, 4)]]
        ps = [pi.SUBS, s, [1, [[1, num(1, 2)], [2, num(1, 4)]]]]
        all_boxes = [None] * 4 + [[b for t in s[4] for b in t[2]]]
        lo = ck.impl[common.to_sexp(pl)]
        if lo[0] != 0:
            # only possible once Sum.lambdify maps over the terms: a term refused
            trigs = lambdify_triggers(pi, all_boxes, [1, 2])
            fid = {9: "F11h", 10: "F11k"}.get(lo[1])
            if lo[1] == 5:
                fid = "F11f" if "F11f" in trigs else "F11g"
            if FIXED["F11i"] and not FIXED["F11j"] and lo == [1, 9] and want & {1, 2}:
                # Sum.free_symbols repaired, Sum.lambdify still the inherited cat.Box.lambdify:
                # its guard now passes and sympy.lambdify is handed data None
                ck.fail("lambdify refused a well-typed sum", "F11j", True, [pl])
            else:
                ck.fail("lambdify refused a well-typed sum", fid, fid in trigs, [pl])
        elif pi.strip_flags(lo) != pi.strip_flags(ck.impl[common.to_sexp(ps)]):
            if want & {1, 2} and not FIXED["F11j"]:
                ck.fail("lambdify of a sum differs from subs", "F11j", True, [pl, ps])
            else:
                # no bound symbol occurs: lambdify is legitimately the identity, and subs may
                # only differ by the flags it loses (F11b / F11c) on boxes it rebuilds unguarded
                fid, trig = flag_finding(pi, all_boxes)
                ck.fail("lambdify of a sum differs from subs", fid, trig, [pl, ps])
        rep.case(["sum", s], nontrivial=True)
    # tensors: Tensor.subs == entrywise sympy substitution
    for t in tens:
        for f in ([0, 1, num(3)], [1, [[1, num(3)], [2, s1]]]):
            ps = [pi.SUBS, t, f]
            out = ck.impl[common.to_sexp(ps)]
            want = [pi.enc_expr(sympy_apply(pi.build_expr(e), f, pi))[1] for e in t[3]]
            got = [e[1] for e in out[1][3]] if out[0] == 0 else None
            if got != want:
                trig = any(e[0] == 0 for e in t[3])
                ck.fail("Tensor.subs differs from entrywise substitution", "F11d", trig, [ps])
        pl = [pi.LAMBDIFY, t, [1, 2], [num(1), num(2)]]
        if len(t[3]) == 4 and ck.impl[common.to_sexp(pl)][0] != 0:
            ck.fail("Tensor.lambdify refused", "F11g", ck.impl[common.to_sexp(pl)] == [1, 5], [pl])
        rep.case(["tensor", t], nontrivial=True)
    for cq in cqs:
        out = ck.impl[common.to_sexp(cq)]
        want = [pi.enc_expr(sympy_apply(pi.build_expr(e), cq[1], pi))[1] for e in cq[4]]
        if out[0] != 0:
            ck.fail("CQMap.subs refused", "F11e", bool(cq[2] or cq[3]) and out[1] in (4, 5), [cq])
        elif [e[1] for e in out[1][3]] != want:
            ck.fail("CQMap.subs differs from entrywise substitution", "F11d",
                    any(e[0] == 0 for e in cq[4]), [cq])
        rep.case(["cqmap", cq], nontrivial=True)

    # ---------------------------------------------------------------- evaluation oracle
    n_eval = 0
    budget = 70 if quick else 500
    for c in cases:
        if not c["evaluable"] or n_eval >= budget:
            continue
        n_eval += 1
        eval_oracle(ck, pi, rep, c)
    rep.count("eval-oracle-cases", n_eval)

    flags_and_sums_stream(rep, random.Random(seed + 1414), 40 if tier == "quick" else 600)
    base.settle(rep, "C14", proof_ok, "C14")
    return rep.finish(
        rule="literal diagrams of classes cat, monoidal, rigid, tensor, circuit (evaluable: rotations, "
             "scalars, gates, kets, bras, measurements, classical gates; non-evaluable: generic boxes "
             "with data, Bits, Copy), zx (spiders, scalars, H, SWAP) with expressions of the polynomial "
             "fragment (symbols, affine forms, monomials, products of affine forms, Python and sympy "
             "numbers, dyadic coefficients) in rotation phases, scalars, spider phases and box data; "
             "per diagram: subs with a number / symbol / expression / list of pairs / absent symbol / "
             "empty list / closing list, lambdify with all symbols (Python numbers) and with a subset "
             "(any values), swapped symbols; formal sums, Tensor literals, a CQMap; ~15%% malformed "
             "(ill-typed literals, arity mismatches); non-trivial = at least two boxes and one free "
             "symbol; distinct by (class, literal)",
        trusted_base=base.TRUSTED_CORE[:1] + [
            "hand-written Gallina model coq/Param/{Expr,Param,ParamProg}.v of subs / lambdify / "
            "free_symbols, tied to /repo only by this run's correspondence check",
            "sympy 1.14 as installed: modelled as polynomial arithmetic over Q on the generated "
            "fragment (Poly(...).terms() is the canonical form on the Python side); lambdify's "
            "printing of ndarrays / lists is modelled as observed",
        ] + base.TRUSTED_CORE[2:],
        assumptions=[
            "expressions stay in the polynomial fragment with dyadic rational coefficients so that "
            "Python floats are exact; symbols are real",
            "evaluation oracle compares complex numbers at rational grid points with tolerance 1e-9",
            "lambdify with duplicate symbols (SyntaxError) is outside the model",
        ],
        checker_cmd="make -C coq Props/C14.vo  (coqc 8.16.1, Print Assumptions parsed)")


def flag_finding(pi, lit):
    """Which flag finding can explain a wrong evaluation after subs / lambdify."""
    if any(b[0] == pi.KQSCALAR and b[5] == 1 for b in lit[4]):
        return "F11b", True      # a mixed scalar became pure: s instead of |s|^2 ... or vice versa
    if any(b[0] == pi.KCLASSICAL and b[4] == 1 for b in lit[4]):
        return "F11c", True      # a daggered classical gate lost its flag: array no longer transposed
    return None, False


def eval_oracle(ck, pi, rep, c):
    """d.subs(s).eval() == d.eval() with s applied entrywise by sympy, numerically at
    grid points; when every symbol is bound to a number, also via lambdify."""
    cls, lit, free = c["cls"], c["lit"], c["free"]
    grid = {pi.sym(k): v for k, v in GRID.items()}

    def build():
        return pi.build_diagram(cls, *lit[2:])

    def arr(t):
        return list(t.array.flatten()) if hasattr(t.array, "flatten") else list(t.array)
    try:
        d = build()
        base_arr = common.with_timeout(30, lambda: arr(d.eval()))
    except BaseException as exc:   # noqa
        if isinstance(exc, (KeyboardInterrupt, SystemExit)):
            raise
        rep.count("eval-oracle:symbolic-eval-failed:" + type(exc).__name__)
        return
    forms = [(k, f) for k, f in c["forms"] if k in ("symbol", "expr", "pairs", "number")]
    forms.append(("closing", c["closing"]))
    for kind, f in forms:
        ps = [pi.SUBS, lit, f]
        if ck.impl[common.to_sexp(ps)][0] != 0:
            continue
        try:
            want = [to_complex(sympy_apply(x, f, pi), grid) for x in base_arr]
        except BaseException as exc:   # noqa
            if isinstance(exc, (KeyboardInterrupt, SystemExit)):
                raise
            rep.count("eval-oracle:reference-failed")
            continue
        try:
            sub = d.subs(*pi.build_form(f))
            got = common.with_timeout(30, lambda: [to_complex(x, grid) for x in arr(sub.eval())])
        except TypeError:
            out = ck.impl[common.to_sexp(ps)]
            trig = any(b2[0] == pi.KROT and b2[6][1][0] == 1 and not expr_syms(b2[6][1])
                       for b2 in out[1][3])
            # known only through the model: program (eval-status (subs lit f)) must agree
            pe = [pi.EVALSTATUS, ps]
            key = common.to_sexp(pe)
            if key not in ck.impl:
                ck.impl[key] = pi.observe(pe)
                ck.model[key] = run_model([pe], parallel=False)[0]
            ck.fail("d.subs(s).eval() raises TypeError", "F11a", trig, [pe, ps])
            rep.count("eval-oracle:subs-eval-typeerror")
            continue
        except BaseException as exc:   # noqa
            if isinstance(exc, (KeyboardInterrupt, SystemExit)):
                raise
            ck.fail("d.subs(s).eval() raises %s" % type(exc).__name__, None, False, [ps])
            continue
        rep.count("eval-oracle:compared")
        if len(want) != len(got) or any(abs(a - b) > 1e-9 for a, b in zip(want, got)):
            fid, trig = flag_finding(pi, lit)
            ck.fail("d.subs(s).eval() differs from d.eval() with s applied entrywise",
                    fid, trig, [ps], {"form": f, "want": [str(x) for x in want][:8],
                                          "got": [str(x) for x in got][:8]})
    # lambdify route: all symbols bound to Python numbers
    syms, vals = c["lam_all"]
    pl = [pi.LAMBDIFY, lit, syms, vals]
    if ck.impl[common.to_sexp(pl)][0] == 0:
        f = [1, [[x, v] for x, v in zip(syms, vals)]]
        try:
            want = [to_complex(sympy_apply(x, f, pi), grid) for x in base_arr]
            lam = d.lambdify(*[pi.sym(k) for k in syms])(*[pi.build_expr(v) for v in vals])
            got = common.with_timeout(30, lambda: [to_complex(x, grid) for x in arr(lam.eval())])
        except BaseException as exc:   # noqa
            if isinstance(exc, (KeyboardInterrupt, SystemExit)):
                raise
            ck.fail("lambdified diagram cannot be evaluated (%s)" % type(exc).__name__,
                    None, False, [pl])
            return
        rep.count("eval-oracle:compared-lambdify")
        if len(want) != len(got) or any(abs(a - b) > 1e-9 for a, b in zip(want, got)):
            fid, trig = flag_finding(pi, lit)
            ck.fail("d.lambdify(*xs)(*vs).eval() differs from d.eval() with the values substituted",
                    fid, trig, [pl], {"want": [str(x) for x in want][:8],
                                          "got": [str(x) for x in got][:8]})
