"""C05 -- interchange moves exactly one box past a disconnected neighbour."""
import random

import common
from common import Report
from props import base
from props.c01 import rescan
import gen as G
import struct_oracles as so


def programs(tier, seed, rigid):
    rng = random.Random(seed * 13 + (1 if rigid else 0))
    g = G.G(rng, rigid=rigid)
    cases = []          # (diagram program, info)
    a, b = [1, 0], [2, 0]
    k = 3 if tier == "quick" else 4
    sig = [bx for bx in G.small_signature() if len(bx[2]) + len(bx[3]) <= 3]
    small = G.enumerate_diagrams(k, [[], [a], [a, b]], sig[::2] if tier == "quick" else sig, max_width=3)
    rng.shuffle(small)
    for dom, cod, boxes, offs in small[:(150 if tier == "quick" else 1300)]:
        if len(boxes) >= 2:
            cases.append(([G.MK, dom, cod, boxes, offs], (dom, cod, boxes, offs)))
    for _ in range(180 if tier == "quick" else 1900):
        p, info = g.diagram(n_boxes=rng.randint(2, 7))
        cases.append((p, info))
    progs = []
    for k_case, (p, info) in enumerate(cases):
        # a third of the diagrams reach interchange through a double dagger or a full slice: equal
        # values built by other constructors (other internal containers)
        if k_case % 3 == 1:
            p = [G.DAGGER, [G.DAGGER, p]]
        elif k_case % 3 == 2:
            p = [G.SLICE, p, [0], []]
        n = len(info[2])
        pairs = [(i, j) for i in range(n) for j in range(n)]
        if n > 4:
            pairs = rng.sample(pairs, 12)
        for i, j in pairs:
            progs.append(([G.INTERCHANGE, p, i, j, rng.randint(0, 1)], p, info))
        # out-of-range indices and sequences of interchanges
        progs.append(([G.INTERCHANGE, p, rng.choice([-1, n, n + 2]), rng.randint(-1, n), 0], p, info))
        if n >= 3:
            q = [G.INTERCHANGE, [G.INTERCHANGE, p, 0, 1, 0], 1, 2, 1]
            progs.append((q, p, info))
    return progs


def oracle(ci, cls, prog, base_prog, rng):
    """The statement of C05 on the implementation, for one interchange request."""
    from discopy.rewriting import InterchangerError
    try:
        d = ci.interp(cls, base_prog)
    except Exception:   # noqa
        return None
    if prog[0] != G.INTERCHANGE or prog[1] is not base_prog:
        # a sequence: only the semantic / typing clauses
        try:
            r = ci.interp(cls, prog)
        except Exception:   # noqa
            return None
        return check_result(ci, d, r, rng, None, None)
    _, _, i, j, left = prog
    n = len(d.boxes)
    try:
        r = d.interchange(i, j, left=bool(left))
    except IndexError:
        return None if not (0 <= i < n and 0 <= j < n) else "in-range indices refused with IndexError"
    except InterchangerError:
        if not (0 <= i < n and 0 <= j < n):
            return "out-of-range indices not refused with IndexError"
        if abs(i - j) == 1 and not so.adjacent_conflict(d, min(i, j)):
            return "adjacent boxes that share no wire were refused"
        if i != j and abs(i - j) > 1:
            # consistency: some adjacent step on the way must be refused too
            cur, step = d, (1 if j > i else -1)
            for k in range(i, j, step):
                try:
                    cur = cur.interchange(k, k + step, left=bool(left))
                except InterchangerError:
                    return None
            return "move refused although every adjacent step on the way is accepted"
        return None
    except Exception as exc:   # noqa
        return "unexpected %s" % type(exc).__name__
    if not (0 <= i < n and 0 <= j < n):
        return "out-of-range indices accepted"
    if abs(i - j) == 1 and so.adjacent_conflict(d, min(i, j)):
        return "adjacent boxes that share a wire were exchanged"
    return check_result(ci, d, r, rng, i, j)


def check_result(ci, d, r, rng, i, j):
    bad = rescan(ci, r)
    if bad:
        return "result is ill-typed: " + bad
    if r.dom != d.dom or r.cod != d.cod:
        return "domain or codomain changed"
    if i is not None:
        want = list(d.boxes)
        x = want.pop(i)
        want.insert(j, x)
        if r.boxes != want:
            return "boxes are not the original ones with box %d moved to position %d" % (i, j)
        lo, hi = min(i, j), max(i, j)
        if r.offsets[:lo] != d.offsets[:lo] or r.offsets[hi + 1:] != d.offsets[hi + 1:]:
            return "offsets of boxes not involved in the move changed"
    elif sorted(map(repr, r.boxes)) != sorted(map(repr, d.boxes)):
        return "boxes changed"
    width = max(len(t) for t in [d.dom, d.cod] + [layer.cod for layer in d.layers.boxes] or [d.dom])
    if width <= 6:
        for _ in range(2):
            f = so.random_tensor_functor(rng, d, dims=(1, 2))
            if so.semantics(f, d) != so.semantics(f, r):
                return "denotation changed under an integer tensor functor"
    return None


def nested_stream(rep, ci, rng, count):
    """Oracle-only stream on the real objects: diagrams whose boxes are themselves diagrams (what
    foliation() returns, or hand-built) and subclass diagrams.  interchange(i, j) either returns a
    well-typed diagram with the same boundary and boxes, or refuses with InterchangerError (wired
    boxes) / IndexError (range) - never with another exception."""
    from discopy import monoidal, rewriting
    from props.c01 import rescan
    g = G.G(rng, rigid=False)
    cls = ci.Cls("monoidal")
    bad = 0
    for k in range(count):
        p, _ = g.diagram(n_boxes=rng.randint(3, 7), max_width=6)
        try:
            d = common.with_timeout(10.0, ci.interp, cls, p)
            fol = common.with_timeout(10.0, d.foliation)
        except Exception:   # noqa
            continue
        if rng.random() < 0.4 and len(d) >= 2:     # hand-built: consecutive slices of d as boxes
            cut = sorted(rng.sample(range(1, len(d)), min(len(d) - 1, rng.randint(1, 2))))
            parts = [d[a:b] for a, b in zip([0] + cut, cut + [len(d)])]
            fol = monoidal.Diagram(d.dom, d.cod, parts, len(parts) * [0])
        n = len(fol)
        rep.count("stream:nested-diagrams")
        for _ in range(3):
            i, j = rng.randint(-1, n), rng.randint(-1, n)
            left = bool(rng.randint(0, 1))
            what = None
            try:
                r = common.with_timeout(10.0, lambda: fol.interchange(i, j, left=left))
                why = rescan(ci, r)
                if why:
                    what = "interchange(%d, %d) of a diagram of diagrams is ill-typed: %s" % (i, j, why)
                elif len(r) != n:
                    what = "interchange(%d, %d) of a diagram of diagrams changed the number of boxes" % (i, j)
            except rewriting.InterchangerError:
                rep.count("nested:refused-interchanger")
            except IndexError:
                if 0 <= i < n and 0 <= j < n:
                    what = "interchange(%d, %d) raised IndexError for indices in range(%d)" % (i, j, n)
            except Exception as exc:   # noqa
                what = "interchange(%d, %d) of a diagram of diagrams raised %s: %s" % (
                    i, j, type(exc).__name__, exc)
            if what:
                bad += 1
                rep.count("oracle:nested:FAIL")
                if bad <= 3:
                    rep.violation(what, {"class": "monoidal", "inner program": p, "slices": len(fol),
                                         "replay": base.snippet("monoidal", p) + "  # then .foliation().interchange(%d, %d, left=%s)" % (i, j, left)})
            else:
                rep.count("oracle:nested:pass")
        # depth / foliation of the diagram of diagrams itself go through the same refusals
        for name, f in (("depth", lambda: fol.depth()), ("normal_form", lambda: fol.normal_form())):
            try:
                common.with_timeout(10.0, f)
                rep.count("oracle:nested:pass")
            except NotImplementedError:
                rep.count("nested:refused-not-implemented")
            except Exception as exc:   # noqa
                bad += 1
                rep.count("oracle:nested:FAIL")
                if bad <= 3:
                    rep.violation("%s() of a diagram of diagrams raised %s: %s" % (name, type(exc).__name__, exc),
                                  {"class": "monoidal", "inner program": p,
                                   "replay": base.snippet("monoidal", p) + "  # then .foliation().%s()" % name})


def run(tier, seed):
    import core_impl as ci
    rep = Report("C05", tier, seed)
    ci.CHECK_PURITY = True      # every operation must leave its arguments as they were
    proof_ok = common.proof_stage(rep, "C05")
    rng = random.Random(seed + 5)
    for cname in ("monoidal", "rigid"):
        cls = ci.Cls(cname)
        triples = programs(tier, seed, cname == "rigid")
        progs = [t[0] for t in triples]
        results = base.differential(rep, ci, cname, progs, project=base.project_public,
                                    family="corr:core:interchange")
        index = {id(t[0]): t for t in triples}
        for p, impl, mod in results:
            _, bp, info = index[id(p)]
            rep.case([cname, p], nontrivial=True,
                     sample={"class": cname, "program": p} if rep.evaluations % 1777 == 0 else None)
            rep.count("class:" + cname)
            rep.count("outcome:" + ("value" if impl[0] == 0 else "err%d" % impl[1]))
            rep.count("n_boxes:%d" % len(info[2]))
            bad = oracle(ci, cls, p, bp, rng)
            if bad:
                rep.violation(bad, {"class": cname, "program": p, "impl": impl,
                                    "replay": base.snippet(cname, p)})
    nested_stream(rep, ci, random.Random(seed + 55), 120 if tier == "quick" else 2000)
    base.settle(rep, "C05", proof_ok, "C05")
    return rep.finish(
        rule="classes monoidal and rigid: every (i, j) on every diagram over a small signature with <= 3 (4) "
             "boxes and on random grown diagrams with 2..7 boxes (12 sampled pairs when > 4 boxes), both "
             "left/right preferences, out-of-range indices, sequences of interchanges; all cases non-trivial; "
             "distinct by (class, program)",
        trusted_base=base.TRUSTED_CORE,
        assumptions=["semantic oracle: two random integer tensor functors (dims 1..2) per accepted move, exact",
                     "wiring oracle: wire identities followed independently; zero-width boxes strictly inside "
                     "the other box's span count as obstructing (planar reading of 'wired')"],
        checker_cmd="make -C coq Props/C05.vo  (coqc 8.16.1, Print Assumptions parsed)")
