"""C11 -- pure circuits evaluate to the unitary they describe.

Stages: (0) proof stage (coq/Props/C11.v); (1) the model's reference table Std.v
against pytket's own Op.get_unitary(); (2) correspondence of the bug-compatible
model coq/Quantum/Gates.v with Circuit.eval() on every generated program (and on
its dagger); (3) property oracles on the implementation's results, independent
of the model: O_ref (ordered product of the pytket matrices of the boxes),
O_unitary, O_dagger, O_rewire, refusals.  There are no known findings: the former
F6 (Y), F7 (Ry), F8 (Controlled(g).dagger()) were repaired upstream (fix commits
283c08a, 648c8a7, a3ece78); their minimal inputs stay in the corpus as regression
cases and any oracle failure is a VIOLATION."""
import itertools
import os
import random

import numpy

import common
from common import Report

ATOL = 1e-9

# ------------------------------------------------------------------ program builders
def circ(n, layers):
    return [0, n, [[off, b] for off, b in layers]]


def single(gi, b):
    return circ(gi.box_dom(b), [(0, b)])


def ident(n):
    return [0, n, []]


def then(*ps):
    out = ps[0]
    for p in ps[1:]:
        out = [2, out, p]
    return out


def tens(*ps):
    out = ps[0]
    for p in ps[1:]:
        out = [3, out, p]
    return out


H, S, T, X, Y, Z = ([0, g, 0] for g in range(6))
SDG, TDG, YDG = [0, 1, 1], [0, 2, 1], [0, 4, 1]
CZ, SWAP = [2], [5]
CX = [3, [0, 3, 0]]


def scal(pairs, d=1):
    nums = [0] * 16
    for j, n in pairs:
        nums[j] = n
    return [8, nums, d]


def rand_k(rng):
    return rng.randrange(32) if rng.random() < 0.9 else rng.randint(-48, 80)


def rand_gate1(rng):
    if rng.random() < 0.6:
        g = rng.randrange(6)
        return [0, g, 1 if g in (1, 2, 4) and rng.random() < 0.35 else 0]
    return [1, rng.randrange(3), rand_k(rng)]


def rand_scalar(rng):
    nums = [0] * 16
    for _ in range(rng.randint(1, 3)):
        nums[rng.randrange(16)] = rng.randint(-3, 3)
    return [8, nums, rng.choice([1, 1, 2, 3, 4])]


def rand_bits(rng, n):
    return [rng.randrange(2) for _ in range(n)]


def rand_box(rng, w, cap):
    """A box that fits on w wires and leaves at most cap wires."""
    opts = [("scalar", 3), ("sqrt", 2)]
    if w >= 1:
        opts += [("g1", 40)]
    if w >= 2:
        opts += [("cz", 5), ("ctrl", 16), ("rot2", 10), ("swap", 8)]
    opts += [("bra", 6 if w else 1)]
    opts += [("ket", 7 if w < cap else 1)]
    kind = rng.choices([o for o, _ in opts], [x for _, x in opts])[0]
    if kind == "g1":
        return rand_gate1(rng)
    if kind == "cz":
        return [2]
    if kind == "ctrl":
        return [3, rand_gate1(rng)]
    if kind == "rot2":
        return [4, rng.randrange(3), rand_k(rng)]
    if kind == "swap":
        return [5]
    if kind == "ket":
        room = cap - w
        return [6, rand_bits(rng, 0 if room <= 0 else min(room, rng.choice([1, 1, 1, 2, 0])))]
    if kind == "bra":
        return [7, rand_bits(rng, 0 if w == 0 else min(w, rng.choice([1, 1, 1, 2, 0])))]
    if kind == "scalar":
        return rand_scalar(rng)
    return [9, rng.randint(-3, 4)]


def gen_layers(gi, rng, n, nboxes, cap):
    """Layers grown forwards from n wires, so that every box fits."""
    w, layers = n, []
    for _ in range(nboxes):
        b = rand_box(rng, w, cap)
        d, c = gi.box_dom(b), gi.box_cod(b)
        layers.append((rng.randint(0, w - d), b))
        w = w - d + c
    return layers, w


def adapter(gi, rng, c, d):
    """A circuit of Kets / Bras from c wires to d wires."""
    w, layers = c, []
    while w < d:
        n = rng.randint(1, d - w)
        layers.append((rng.randint(0, w), [6, rand_bits(rng, n)]))
        w += n
    while w > d:
        n = rng.randint(1, w - d)
        layers.append((rng.randint(0, w - n), [7, rand_bits(rng, n)]))
        w -= n
    return circ(c, layers)


def gen_tree(gi, rng, depth, cap):
    """(program, dom, cod): daggers / then / tensor over leaf circuits, widths <= cap."""
    if depth == 0 or rng.random() < 0.25:
        n = rng.randint(0, cap)
        layers, w = gen_layers(gi, rng, n, rng.randint(0, 5), cap)
        return circ(n, layers), n, w
    r = rng.random()
    if r < 0.3:
        p, d, c = gen_tree(gi, rng, depth - 1, cap)
        return [1, p], c, d
    if r < 0.7:
        p, d, c = gen_tree(gi, rng, depth - 1, cap)
        q, d2, c2 = gen_tree(gi, rng, depth - 1, cap)
        if c != d2:
            p = [2, p, adapter(gi, rng, c, d2)]
        return [2, p, q], d, c2
    left = rng.randint(0, cap)
    p, d, c = gen_tree(gi, rng, depth - 1, left)
    q, d2, c2 = gen_tree(gi, rng, depth - 1, cap - left)
    return [3, p, q], d + d2, c + c2


# ------------------------------------------------------------------ case streams
def case(stream, prog, expect=None, rewire=None):
    """expect: None = must evaluate; an error code = must be refused with that class."""
    return {"stream": stream, "prog": prog, "expect": expect, "rewire": rewire}


EXTRA_K = [-5, 37, 32, -16, 48, -33]
CTRL_K = [0, 1, 3, 5, 8, 11, 16, 21, 27, 31, -5, 37]


def corpus(gi):
    out = []
    add = lambda p: out.append(case("corpus", p))   # noqa: E731
    # regression: the minimal inputs of the former findings F6, F7, F8 first
    add(single(gi, Y))
    add(single(gi, [1, 1, 5]))
    add([1, single(gi, [3, S])])
    for g in range(6):
        add(single(gi, [0, g, 0]))
    for g in (SDG, TDG, YDG):
        add(single(gi, g))
    for r in range(3):
        for k in list(range(32)) + EXTRA_K:
            add(single(gi, [1, r, k]))
            add(single(gi, [4, r, k]))
    for g in [[0, g, 0] for g in range(6)] + [SDG, TDG, YDG] \
            + [[1, r, k] for r in range(3) for k in CTRL_K]:
        add(single(gi, [3, g]))
        add([1, single(gi, [3, g])])
    add(single(gi, CZ))
    add(single(gi, SWAP))
    for n in range(4):
        for bits in itertools.product([0, 1], repeat=n):
            add(single(gi, [6, list(bits)]))
            add(single(gi, [7, list(bits)]))
    for sc in (scal([(0, 1)]), scal([(8, 1)]), scal([(0, -1)]), scal([(1, 1)]), scal([(0, 0)]),
               scal([(0, 1), (8, 1)], 2), scal([(0, 3)], 2), scal([(4, 1), (12, -1)], 3),
               scal([(15, 2), (3, -1)], 4), scal([(0, 1), (4, 1), (8, 1), (12, 1)], 1)):
        add(single(gi, sc))
        add([1, single(gi, sc)])
    for k in range(-2, 4):
        add(single(gi, [9, k]))
    # hand-written circuits
    bell = then(single(gi, [6, [0, 0]]), tens(single(gi, H), ident(1)), single(gi, CX))
    cup = then(single(gi, CX), tens(single(gi, H), single(gi, [9, 1]), ident(1)),
               single(gi, [7, [0, 0]]))
    ghz = then(single(gi, [6, [0, 0, 0]]), tens(single(gi, H), ident(2)),
               tens(single(gi, CX), ident(1)), tens(ident(1), single(gi, CX)))
    snake = then(tens(ident(1), [1, cup]), tens(cup, ident(1)))
    for p in (bell, cup, [1, cup], ghz, [1, ghz], then(bell, [1, bell]), snake,
              then(single(gi, CX), single(gi, SWAP), single(gi, CX), single(gi, SWAP)),
              circ(2, [(0, H), (1, H), (0, CZ), (0, H), (1, H)]),
              circ(2, [(1, H), (0, CZ), (1, H), (0, CX)]),
              circ(3, [(0, T), (1, [3, T]), (0, [4, 0, 3]), (2, S), (1, SWAP), (0, [3, TDG])]),
              circ(1, [(0, S), (0, S), (0, Z)]), circ(1, [(0, T), (0, T), (0, SDG)]),
              circ(1, [(0, H), (0, Z), (0, H), (0, X)]),
              circ(1, [(0, [1, 2, 4]), (0, TDG)]), circ(1, [(0, Y), (0, Y)]),
              circ(1, [(0, [1, 1, 3]), (0, [1, 1, -3])]),
              tens(single(gi, [6, [1]]), single(gi, X), single(gi, [7, [1]])),
              circ(0, [(0, [6, [1, 0]]), (0, SWAP), (0, [7, [0, 1]])]),
              circ(4, [(0, CX), (2, CX), (1, CX), (0, H), (3, H), (1, SWAP), (0, [7, [0]]),
                       (2, [7, [1]])]),
              ident(0), ident(1), ident(3), [1, ident(2)], tens(ident(1), ident(2))):
        add(p)
    return out


def rewire_ops(gi, rng):
    """(program, dom, cod) of the operations handed to rewire: two-qubit boxes,
    small two-qubit circuits, and non-square ones."""
    ops = [single(gi, b) for b in
           [CZ, CX, SWAP] + [[3, g] for g in (H, S, SDG, T, TDG, Y, Z, [1, 0, 3], [1, 1, 5], [1, 2, 7])]
           + [[4, r, k] for r in range(3) for k in (5, 12)]]
    ops += [circ(2, [(0, CX), (0, H)]), circ(2, [(0, H), (1, T)]),
            circ(2, [(0, H), (1, T), (0, CX)]), circ(2, [(0, S), (1, [1, 0, 3]), (0, [4, 1, 9])]),
            circ(2, [(0, CX), (0, SWAP)]), circ(2, [(1, [1, 2, 5]), (0, scal([(8, 1)])), (0, CZ)]),
            circ(2, [(0, [7, [0]]), (0, [6, [1]])]),          # square, not unitary
            tens(single(gi, X), single(gi, [1, 1, 4])), [1, circ(2, [(0, T), (0, CX), (1, S)])]]
    square = [(p, 2, 2) for p in ops]
    extra = []
    for _ in range(6):
        layers, w = gen_layers(gi, rng, 2, rng.randint(1, 4), 3)
        extra.append((circ(2, layers), 2, w))
    nonsq = [(circ(2, [(0, [6, [0]]), (0, CX)]), 2, 3),           # Ket(0) @ Id(2) >> CX @ Id(1)
             (circ(2, [(0, CX), (0, [7, [0]])]), 2, 1),
             (single(gi, [7, [0, 1]]), 2, 0),
             (circ(2, [(1, [6, [1, 0]]), (0, CZ)]), 2, 4)]
    square += [x for x in extra if x[2] == 2]
    nonsq += [x for x in extra if x[2] != 2]
    return square, nonsq


def rewire_expect(gi, opdom, opcod, a, b, n_eff):
    """Documented contract of rewire: the exception class, or None when it must succeed."""
    if a == b or n_eff < 2 or opdom != 2:
        return gi.ERR["ValueError"]
    if abs(b - a) == 1:
        return None
    if opcod != opdom:
        return gi.ERR["NotImplementedError"]
    return None


def rewire_cases(gi, rng, tier):
    out = []
    square, nonsq = rewire_ops(gi, rng)
    for n in range(2, 6):
        for a, b in itertools.permutations(range(n), 2):
            if tier == "quick":
                if n == 5 and rng.random() < 0.7:
                    continue
                ops = rng.sample(square, 4) + [nonsq[0]] + rng.sample(nonsq[1:], 1)
            else:
                ops = square + nonsq
            for op, d, c in ops:
                doms = [[n]] + ([[]] if max(a, b) + 1 == n else [])
                for dom in doms:
                    meta = {"op": op, "a": a, "b": b, "n": n, "opdom": d, "opcod": c}
                    out.append(case("rewire", [4, op, a, b, dom],
                                    expect=rewire_expect(gi, d, c, a, b, n), rewire=meta))
    return out


def malformed(gi, rng, count):
    out = []
    val, ax = gi.ERR["ValueError"], gi.ERR["AxiomError"]
    square, nonsq = rewire_ops(gi, rng)
    while len(out) < count:
        kind = rng.choice(["offset", "offset", "then", "then", "rw-eq", "rw-dom1", "rw-width",
                           "nested"])
        if kind in ("offset", "nested"):
            n = rng.randint(0, 4)
            layers, _ = gen_layers(gi, rng, n, rng.randint(1, 6), 4)
            i = rng.randrange(len(layers))
            w = n
            for _, b in layers[:i]:
                w = w - gi.box_dom(b) + gi.box_cod(b)
            layers[i] = (w - gi.box_dom(layers[i][1]) + 1 + rng.randint(0, 2), layers[i][1])
            p = circ(n, layers)
            if kind == "nested":
                q, _, _ = gen_tree(gi, rng, 1, 2)
                p = rng.choice([[1, p], [3, q, p], [3, p, q]])
            out.append(case("malformed:" + kind, p, expect=ax))
        elif kind == "then":
            p, _, c = gen_tree(gi, rng, 1, 4)
            q, d, _ = gen_tree(gi, rng, 1, 4)
            if c == d:
                continue
            out.append(case("malformed:then", [2, p, q], expect=ax))
        elif kind == "rw-eq":
            op, d, c = rng.choice(square + nonsq)
            a = rng.randint(0, 4)
            dom = rng.choice([[], [a + 1 + rng.randint(0, 2)]])
            out.append(case("malformed:rewire a == b", [4, op, a, a, dom], expect=val,
                            rewire={"op": op, "a": a, "b": a, "n": dom[0] if dom else a + 1,
                                    "opdom": d, "opcod": c}))
        elif kind == "rw-dom1":
            op, d, c = rng.choice(square + nonsq)
            a, b = rng.choice([(0, 1), (1, 0)])
            n = rng.choice([1, 1, 0])
            out.append(case("malformed:rewire dom < 2", [4, op, a, b, [n]], expect=val,
                            rewire={"op": op, "a": a, "b": b, "n": n, "opdom": d, "opcod": c}))
        else:
            w = rng.choice([1, 3, 3, 0])
            layers, c = gen_layers(gi, rng, w, rng.randint(0, 3), 3)
            op = circ(w, layers)
            n = rng.randint(2, 4)
            a, b = rng.sample(range(n), 2)
            out.append(case("malformed:rewire op width", [4, op, a, b, [n]], expect=val,
                            rewire={"op": op, "a": a, "b": b, "n": n, "opdom": w, "opcod": c}))
    return out


def gen_cases(gi, rng, tier):
    scale = 1 if tier == "quick" else 10
    cases = corpus(gi)
    for _ in range(900 * scale):
        n = rng.randint(0, 4)
        layers, _ = gen_layers(gi, rng, n, rng.randint(1, 8), 4)
        cases.append(case("random", circ(n, layers)))
    for _ in range(500 * scale):
        p, _, _ = gen_tree(gi, rng, 2, 4)
        cases.append(case("combination", p))
    cases += rewire_cases(gi, rng, tier)
    cases += malformed(gi, rng, int(0.15 / 0.85 * len(cases)))
    return cases


# ------------------------------------------------------------------ stage 1: Std vs pytket
def stage_std(rep, gi):
    progs = [[5, code, k] for code in range(len(gi.STD_CODES)) for k in range(32)]
    answers = common.run_model("gates", progs)
    rep.programs += len(progs)
    bad = []
    for p, ans in zip(progs, answers):
        rep.count("std:checked")
        name, _, q = gi.STD_CODES[p[1]]
        if ans[0] != 0:
            bad.append({"op": name, "k": p[2], "model": ans})
            continue
        m = gi.model_to_complex(ans)
        dom, cod, arr = m[1]
        want = gi.std_unitary(p[1], p[2])
        if dom != q or cod != q or arr.size != want.size or not numpy.allclose(
                arr.reshape(want.shape), want, atol=ATOL, rtol=0):
            bad.append({"op": name, "k": p[2], "model": gi.jsonable(m),
                        "pytket": [[round(z.real, 12), round(z.imag, 12)] for z in want.flatten()]})
    n, bad_ctrl = gi.controlled_selftest()
    rep.count("std:controlled-selftest", n)
    if bad:
        rep.count("std:mismatch", len(bad))
        rep.violation("reference table Std.v disagrees with pytket Op.get_unitary() on %d of %d "
                      "(op, phase) pairs" % (len(bad), len(progs)),
                      {"broken": "coq/Quantum/Std.v vs pytket", "mismatches": bad[:10],
                       "n_mismatches": len(bad)}, found_input=False)
    if bad_ctrl:
        rep.violation("harness reference block_diag(1, U) disagrees with pytket's own controlled ops",
                      {"broken": "harness/gates_impl.py tk_unitary", "mismatches": bad_ctrl[:10]},
                      found_input=False)


# ------------------------------------------------------------------ settle
def state_stream(rep, rng, count):
    """Oracle-only stream on the real objects: evaluation is a function of the circuit alone.
    (a) What eval() returns is the caller's: overwriting the returned array in place does not change
    what the gate constants (H, S, T, X, Y, Z, CX, CZ, SWAP, Controlled(...)) evaluate to afterwards.
    (b) Basis states given with booleans, numpy integers or ints, in any order of evaluation: integer
    kets / bras / bits evaluate to the basis vectors whatever was evaluated before."""
    import numpy
    from discopy.quantum import gates as G
    consts = [("H", G.H), ("S", G.S), ("T", G.T), ("X", G.X), ("Y", G.Y), ("Z", G.Z), ("CX", G.CX), ("CZ", G.CZ),
              ("SWAP", G.SWAP), ("Controlled(Z)", G.Controlled(G.Z)), ("Rz(0.25)", G.Rz(0.25)), ("Ket(1)", G.Ket(1))]
    bad = 0

    def fail(what):
        nonlocal bad
        bad += 1
        rep.count("oracle:state:FAIL")
        if bad <= 4:
            rep.violation(what, {"oracle": "O_state"})
    for k in range(count):
        rep.count("stream:state")
        try:
            name, g = consts[k % len(consts)]
            ref = numpy.array(g.eval().array, dtype=complex).copy()
            got = g.eval()
            arr = got.array
            try:
                arr[...] = 0                      # the caller scribbles over its own result
            except (ValueError, TypeError):       # a read-only result is fine too
                pass
            again = numpy.array(g.eval().array, dtype=complex)
            if again.shape != ref.shape or not numpy.allclose(again, ref):
                fail("%s.eval() changed after the array returned by an earlier %s.eval() was overwritten in place" % (name, name))
                continue
            if len(g.dom) == len(g.cod):
                n = len(g.dom)
                prod = numpy.array((g >> g.dagger()).eval().array, dtype=complex).reshape(2 ** n, 2 ** n)
                if not numpy.allclose(prod, numpy.eye(2 ** n)):
                    fail("%s >> %s.dagger() is no longer the identity after an evaluated array was overwritten" % (name, name))
                    continue
            # (a') the dagger of a user-defined gate on several qubits whose matrix is not symmetric
            # under exchanging its qubits: conjugate transpose, alone and inside a circuit
            nq = rng.randint(1, 2)
            dim = 2 ** nq
            mat = numpy.array([[complex(rng.randint(-2, 2), rng.randint(-2, 2)) for _ in range(dim)] for _ in range(dim)])
            gate = G.QuantumGate("U%d" % k, nq, mat.flatten().tolist())
            ev = numpy.array(gate.eval().array, dtype=complex).reshape(dim, dim)
            dg = numpy.array(gate.dagger().eval().array, dtype=complex).reshape(dim, dim)
            if not numpy.allclose(dg, ev.conj().T):
                fail("the dagger of a user-defined %d-qubit gate does not evaluate to the conjugate transpose" % nq)
                continue
            inside = numpy.array((G.Ket(*[0] * nq) >> gate.dagger()).eval().array, dtype=complex).flatten()
            if not numpy.allclose(inside, ev.conj().T.T[0] if False else (ev.conj().T)[0, :] if False else numpy.array(gate.dagger().eval().array, dtype=complex).reshape(dim, dim)[0, :]):
                fail("a daggered user-defined gate evaluates differently inside a circuit")
                continue
            # (a'') a pure circuit evaluated in one call together with a mixed one is still evaluated
            # to its own unitary, whichever comes first
            from discopy.quantum.circuit import Circuit, Measure
            other = G.Ket(0) >> G.H >> Measure()
            for batch, idx in ((Circuit.eval(other, g), 1), (Circuit.eval(g, other), 0)):
                gb = batch[idx]
                if type(gb).__name__ != "Tensor" or not numpy.allclose(
                        numpy.array(gb.array, dtype=complex).flatten(), ref.flatten()):
                    fail("%s evaluated in one call together with a mixed circuit gives %s instead of its own tensor" % (
                        name, type(gb).__name__))
                    break
            else:
                gb = None
            if gb is not None:
                continue
            # (b) booleans / numpy ints first, ints afterwards
            bits = [rng.randint(0, 1) for _ in range(rng.randint(1, 3))]
            for maker in (lambda bs: G.Ket(*[bool(b) for b in bs]), lambda bs: G.Bra(*[numpy.int64(b) for b in bs]),
                          lambda bs: G.Bits(*[bool(b) for b in bs])):
                try:
                    maker(bits).eval()            # result ignored: only what it leaves behind matters
                except Exception:                 # noqa
                    pass
            want = numpy.zeros(2 ** len(bits), dtype=complex)
            want[int("".join(map(str, bits)), 2)] = 1
            for nm, box in (("Ket", G.Ket(*bits)), ("Bra", G.Bra(*bits)), ("Bits", G.Bits(*bits))):
                v = numpy.array(box.eval().array, dtype=complex).flatten()
                if v.shape != want.shape or not numpy.allclose(v, want):
                    fail("%s%r evaluates to %r after the same bits were evaluated as booleans / numpy integers" % (
                        nm, tuple(bits), list(v)))
                    break
            else:
                rep.count("oracle:state:pass")
        except Exception as exc:   # noqa
            fail("state stream raised %s: %s" % (type(exc).__name__, exc))


def settle(rep, gi, proof_ok):
    """Turn unexplained correspondence disagreements / a broken proof stage into
    violations (after the oracles had their chance to find a failing input)."""
    found = any(f for _, _, f in rep.violations)
    dis = rep.extra.get("disagreements", [])
    if dis and not found:
        first = dis[0]
        rep.violation(
            "correspondence %s no longer checks: implementation and model differ on %d case(s); "
            "no input violating the property itself was found" % (first["family"], len(dis)),
            {"broken": first["family"], "first_disagreement": first, "n_disagreements": len(dis),
             "replay": gi.snippet(first["program"])}, found_input=False)
    if not proof_ok and not found:
        rep.violation("theorems of coq/Props/C11.v no longer check",
                      {"broken": "coq/Props/C11.v", "notes": rep.notes}, found_input=False)
    rep.extra["n_disagreements"] = len(dis)
    if len(dis) > 20:
        rep.extra["disagreements"] = dis[:20]


# ------------------------------------------------------------------ the check
class Verdicts:
    """Records oracle verdicts; caps the number of replay files per oracle."""
    CAP = 3

    def __init__(self, rep, gi):
        self.rep, self.gi, self.fails = rep, gi, {}

    def ok(self, oracle):
        self.rep.count("oracle:%s:pass" % oracle)

    def fail(self, oracle, what, c, impl, model, **more):
        self.rep.count("oracle:%s:FAIL" % oracle)
        self.fails[oracle] = self.fails.get(oracle, 0) + 1
        if self.fails[oracle] > self.CAP:
            return
        p = c["prog"]
        payload = {"oracle": oracle, "stream": c["stream"], "program": p,
                   "pretty": self.gi.pretty(p), "impl": self.gi.jsonable(impl),
                   "model": self.gi.jsonable(model), "replay": self.gi.snippet(p),
                   "replay_show": self.gi.snippet_show(p)}
        payload.update(more)
        self.rep.violation("%s: %s" % (oracle, what), payload)


def close(x, y):
    return x.shape == y.shape and bool(numpy.allclose(x, y, atol=ATOL, rtol=0))


def run(tier, seed):
    import gates_impl as gi
    rep = Report("C11", tier, seed)
    if os.environ.get("VERIF_C11_SKIP_PROOF") == "1":
        proof_ok = True
        rep.notes.append("proof stage skipped (VERIF_C11_SKIP_PROOF=1): harness-only run")
    else:
        proof_ok = common.proof_stage(rep, "C11")
    rng = random.Random(seed)
    # first of all, while nothing has been evaluated in this process yet: state left behind by one
    # evaluation for the next (caches, shared buffers) shows only on the first encounter
    state_stream(rep, random.Random(seed + 111), 40 if tier == "quick" else 600)
    stage_std(rep, gi)

    cases = gen_cases(gi, rng, tier)
    # ---- the implementation
    opcache = {}
    for c in cases:
        p = c["prog"]
        if c["rewire"] is None:
            c["impl"], c["impl_dag"] = gi.observe_with_dagger(p)
        else:
            c["impl"], c["impl_dag"] = gi.observe(p), None
            key = common.to_sexp(c["rewire"]["op"])
            if key not in opcache:
                opcache[key] = gi.observe(c["rewire"]["op"])
            c["impl_op"] = opcache[key]
    # ---- the model, all programs in one go
    progs, slot = [], []
    for i, c in enumerate(cases):
        progs.append(c["prog"])
        slot.append((i, "model"))
        if c["impl_dag"] is not None:
            progs.append([1, c["prog"]])
            slot.append((i, "model_dag"))
    answers = common.run_model_parallel("gates", progs)
    rep.programs += len(progs)
    for (i, key), p, ans in zip(slot, progs, answers):
        if ans[0] == 1 and ans[1] in (7, 8):
            raise RuntimeError("model could not run %r: %r" % (p, ans))
        cases[i][key] = gi.model_to_complex(ans)

    ver = Verdicts(rep, gi)
    for c in cases:
        p, impl, model = c["prog"], c["impl"], c["model"]
        flat = gi.flatten(p)
        boxes = gi.all_boxes(p)
        # ---- bookkeeping
        rep.case(p, nontrivial=(len(boxes) >= 2 or impl[0] == 1),
                 sample={"program": gi.pretty(p), "stream": c["stream"],
                         "impl": "%d -> %d qubits" % (impl[1][0], impl[1][1]) if impl[0] == 0
                         else "raises " + gi.err_name(impl[1])})
        rep.count("stream:" + c["stream"])
        rep.count("boxes:%d" % len(boxes) if len(boxes) < 12 else "boxes:12+")
        rep.count("outcome:" + ("value" if impl[0] == 0 else gi.err_name(impl[1])))
        if impl[0] == 0:
            rep.count("width:%d->%d" % (impl[1][0], impl[1][1]))
        for b in boxes:
            rep.count("box:" + gi.KIND[b[0]])
        # ---- correspondence (not yet a violation)
        pairs = [(p, impl, model)]
        if c["impl_dag"] is not None:
            pairs.append(([1, p], c["impl_dag"], c["model_dag"]))
        corr = True
        for q, a, m in pairs:
            rep.disagreements_checked += 1
            if not gi.same_outcome(a, m, ATOL):
                corr = False
                rep.extra.setdefault("disagreements", []).append(
                    {"family": "corr:gates", "program": q, "pretty": gi.pretty(q),
                     "impl": gi.jsonable(a), "model": gi.jsonable(m)})
        rep.count("corr:" + ("agree" if corr else "DISAGREE"))
        # ---- refusals / acceptance
        if c["expect"] is not None:
            if impl == [1, c["expect"]]:
                ver.ok("O_refuse")
            else:
                ver.fail("O_refuse", "ill-formed request must raise %s but %s"
                         % (gi.err_name(c["expect"]),
                            "evaluates" if impl[0] == 0 else "raises " + gi.err_name(impl[1])),
                         c, impl, model)
            continue
        if impl[0] == 1:
            ver.fail("O_accept", "well-typed pure circuit refused with %s" % gi.err_name(impl[1]),
                     c, impl, model)
            continue
        ver.ok("O_accept")
        m_impl = gi.out_in(impl)
        m_model = gi.out_in(model) if model[0] == 0 else None
        # ---- O_ref: ordered product of the pytket matrices of the boxes
        if flat is not None:
            ref = gi.reference(flat, gi.flat_dom(p))
            if close(m_impl, ref):
                ver.ok("O_ref")
            else:
                model_fails = m_model is not None and not close(m_model, ref)
                ver.fail("O_ref", "Circuit.eval() is not the ordered product of the pytket "
                         "matrices of its boxes acting on the stated qubits", c, impl, model,
                         reference=[[round(z.real, 12), round(z.imag, 12)]
                                    for z in ref.T.flatten()],
                         model_fails_too=model_fails)
        # ---- O_unitary
        if boxes and all(gi.is_gate(b) for b in boxes):
            if impl[1][0] == impl[1][1] and close(m_impl @ m_impl.conj().T,
                                                  numpy.eye(m_impl.shape[0], dtype=complex)):
                ver.ok("O_unitary")
            else:
                ver.fail("O_unitary", "a circuit of gates only does not evaluate to a unitary",
                         c, impl, model)
        # ---- O_dagger
        dag = c["impl_dag"]
        if dag is not None:
            if dag[0] == 0 and dag[1][0] == impl[1][1] and dag[1][1] == impl[1][0] \
                    and close(gi.out_in(dag), m_impl.conj().T):
                ver.ok("O_dagger")
            else:
                mdag = c["model_dag"]
                model_fails = (m_model is not None and mdag[0] == 0
                               and not close(gi.out_in(mdag), m_model.conj().T))
                ver.fail("O_dagger", "eval(c.dagger()) is not the conjugate transpose of "
                         "eval(c)", c, impl, model, impl_dagger=gi.jsonable(dag),
                         model_dagger=gi.jsonable(mdag), model_fails_too=model_fails)
        # ---- O_rewire
        rw = c["rewire"]
        if rw is not None:
            n = rw["n"]
            if impl[1][0] != n or impl[1][1] != n - 2 + rw["opcod"]:
                ver.fail("O_rewire", "rewire yields the wrong number of wires", c, impl, model)
            elif rw["opcod"] == 2:
                g = c["impl_op"]
                if g[0] != 0:
                    ver.fail("O_rewire", "the operation itself does not evaluate", c, impl, model)
                elif close(m_impl, gi.act_on(gi.out_in(g), rw["a"], rw["b"], n)):
                    ver.ok("O_rewire")
                else:
                    ver.fail("O_rewire", "rewire(op, a, b) is not op's own evaluation acting on "
                             "qubits a and b (identity elsewhere)", c, impl, model,
                             op=gi.jsonable(g))
            else:
                rep.count("oracle:O_rewire:non-square (correspondence only)")
    rep.extra["oracle_failures"] = ver.fails
    rep.extra["impl_counts"] = dict(gi.COUNTS, unknown_classes=list(gi.UNKNOWN_CLASSES))
    settle(rep, gi, proof_ok)
    return rep.finish(
        rule="reference table: all 22 tket ops x 32 grid phases; cases: corpus (every single-box "
             "circuit: named gates plain / daggered, Rx Ry Rz CU1 CRz CRx at all 32 grid phases "
             "and some outside, Controlled of every one-qubit gate and its dagger, CZ, SWAP, "
             "Ket / Bra of all bitstrings <= 3, scalars, sqrt(2 ** k); the minimal inputs of the "
             "repaired findings F6 / F7 / F8 as regression cases; "
             "Bell, cup, GHZ, snake, ...), random well-typed circuits on 0..4 qubits with <= 8 "
             "boxes, random dagger / >> / @ combinations (width <= 4), rewire for every ordered "
             "pair a != b < n <= 5 over two-qubit boxes and circuits (square and not), ~15% "
             "malformed (offsets, >> widths, rewire a == b / dom < 2 / op width); each also "
             "daggered; non-trivial = at least 2 boxes or a refusal; distinct by program",
        trusted_base=[
            "Coq 8.16.1 kernel (coqc full .vo build; no native_compute)",
            "hand-written Gallina model coq/Quantum/*.v (Ring, Cyc32, Matrix, Gates, Std, "
            "GatesProg) of discopy/quantum/gates.py + Circuit.eval, tied to /repo only by this "
            "run's correspondence check (differential testing at 1e-9)",
            "extraction: ExtrOcamlBasic directives only; no Extract Constant; OCaml 4.13.1; "
            "runner/main.ml (tokenizer, printer, int<->Z)",
            "Python harness (generators, syntactic flattening, reference product, oracles), "
            "CPython 3.12, numpy (kron, matmul, allclose)",
            "pytket 2.18 Op.get_unitary() as the external reference for every gate matrix "
            "(both for Std.v and for the oracle's reference product)",
        ],
        assumptions=[
            "floating point: comparisons at absolute tolerance 1e-9; phases on the 32-point grid "
            "k/16 (plus a few outside it), exact in binary",
            "tensor.Functor's axes bookkeeping (tensordot / moveaxis) is C09's subject; here "
            "evaluation is compared as a whole with the model and with the reference product",
            "the model's rewire covers max(a, b) < len(dom) only (the documented use); "
            "Controlled of one-qubit targets only (Controlled.__init__ raises for anything else)",
            "no known findings: F6, F7, F8 were repaired upstream (283c08a, 648c8a7, a3ece78); "
            "every oracle failure is a violation",
        ],
        checker_cmd="make -C coq Props/C11.vo  (coqc 8.16.1, Print Assumptions parsed)")
