"""C02 -- diagrams obey the strict dagger-monoidal and sum laws as equalities."""
import random

import common
from common import Report, freeze
from props import base
import gen as G

SOF, SADD, STHEN, STENSOR, SDAGGER = range(5)


def public(outcome):
    """What == compares: dom, cod, boxes, offsets (and for sums: ordered terms)."""
    if outcome[0] != 0:
        return outcome
    kind, val = outcome[1]
    if kind == 0:
        return [0, [0, val[:4]]]
    if kind == 1:
        return [0, [1, [d[:4] for d in val]]]
    return [0, [2, [[d[:4] for d in val[0]], val[1], val[2]]]]


def D(p):
    return [0, p]


def Sm(sp):
    return [1, sp]


def laws_for(g, rng, tier):
    """Yield (law name, lhs, rhs, meta) with lhs, rhs tagged programs."""
    out = []
    # corpus: the minimal input of known finding F20, met on every run
    x = [[1, 0]]
    wb = lambda n: [G.BOX, [G.KBOX, n, x, x, 0, []]]   # noqa: E731
    u = [SOF, [wb(71), wb(72)], [x], [x]]
    s1, s2 = [SOF, [wb(73)], [x], [x]], [SOF, [wb(74)], [x], [x]]
    out.append(("sum_then_distr_r", Sm([STHEN, u, [SADD, s1, s2]]),
                Sm([SADD, [STHEN, u, s1], [STHEN, u, s2]]), {"left_terms": 2, "right_terms": (1, 1)}))
    n_rand = 150 if tier == "quick" else 2200
    for _ in range(n_rand):
        a, ia = g.diagram(n_boxes=rng.randint(0, 4))
        b, ib = g.diagram(dom=ia[1], n_boxes=rng.randint(0, 3))
        c, ic = g.diagram(dom=ib[1], n_boxes=rng.randint(0, 3))
        x, ix = g.diagram(n_boxes=rng.randint(0, 3))
        y, iy = g.diagram(n_boxes=rng.randint(0, 2))
        out.append(("then_assoc", D([G.THEN, [G.THEN, a, b], c]), D([G.THEN, a, [G.THEN, b, c]]), None))
        out.append(("then_unit_l", D([G.THEN, [G.ID, ia[0]], a]), D(a), None))
        out.append(("then_unit_r", D([G.THEN, a, [G.ID, ia[1]]]), D(a), None))
        out.append(("tensor_assoc", D([G.TENSOR, [G.TENSOR, a, x], y]), D([G.TENSOR, a, [G.TENSOR, x, y]]), None))
        out.append(("tensor_unit_l", D([G.TENSOR, [G.ID, []], a]), D(a), None))
        out.append(("tensor_unit_r", D([G.TENSOR, a, [G.ID, []]]), D(a), None))
        out.append(("tensor_whiskered", D([G.TENSOR, a, x]),
                    D([G.THEN, [G.TENSOR, a, [G.ID, ix[0]]], [G.TENSOR, [G.ID, ia[1]], x]]), None))
        out.append(("dagger_invol", D([G.DAGGER, [G.DAGGER, a]]), D(a), None))
        out.append(("dagger_then", D([G.DAGGER, [G.THEN, a, b]]), D([G.THEN, [G.DAGGER, b], [G.DAGGER, a]]), None))
        out.append(("dagger_id", D([G.DAGGER, [G.ID, ia[0]]]), D([G.ID, ia[0]]), None))
        n = len(ia[2])
        i = rng.randint(-n - 1, n + 1)
        out.append(("slice_compose", D([G.THEN, [G.SLICE, a, [], [i]], [G.SLICE, a, [i], []]]), D(a), None))
        if ia[2]:
            bx = rng.choice(ia[2])
            out.append(("box_vs_diagram", D([G.BOX, bx]), D([G.MK, bx[2], bx[3], [bx], [0]]), None))
        # ---- sums: parallel diagrams dom -> cod
        def par(dom, cod, k):
            terms = []
            for _ in range(k):
                p, info = g.diagram(dom=dom, n_boxes=rng.randint(0, 2))
                # close to cod with one box
                closing = [G.BOX, g.box(info[1], cod)]
                terms.append([G.THEN, p, closing])
            return terms
        t1, t2, t3 = g.ty(0, 2), g.ty(0, 2), g.ty(0, 2)
        ks = [rng.randint(0, 2) for _ in range(3)]
        s = [SOF, par(t1, t2, ks[0]), [t1], [t2]]
        t = [SOF, par(t1, t2, ks[1]), [t1], [t2]]
        u = [SOF, par(t2, t3, ks[2]), [t2], [t3]]
        v = [SOF, par(t3, t1, rng.randint(0, 2)), [t3], [t1]]
        out.append(("sum_then_distr_l", Sm([STHEN, [SADD, s, t], u]),
                    Sm([SADD, [STHEN, s, u], [STHEN, t, u]]), None))
        out.append(("sum_tensor_distr_l", Sm([STENSOR, [SADD, s, t], u]),
                    Sm([SADD, [STENSOR, s, u], [STENSOR, t, u]]), None))
        out.append(("sum_dagger_distr", Sm([SDAGGER, [SADD, s, t]]),
                    Sm([SADD, [SDAGGER, s], [SDAGGER, t]]), None))
        out.append(("sum_unit_r", Sm([SADD, s, [SOF, [], [t1], [t2]]]), Sm(s), None))
        out.append(("sum_unit_l", Sm([SADD, [SOF, [], [t1], [t2]], s]), Sm(s), None))
        out.append(("sum_dagger_invol", Sm([SDAGGER, [SDAGGER, s]]), Sm(s), None))
        out.append(("sum_then_assoc", Sm([STHEN, [STHEN, s, u], v]), Sm([STHEN, s, [STHEN, u, v]]), None))
        # right distributivity: v' >> (s + t); exact iff v' has at most one term (else F20)
        kv = rng.randint(0, 3)
        vp = [SOF, par(t3, t1, kv), [t3], [t1]]
        out.append(("sum_then_distr_r", Sm([STHEN, vp, [SADD, s, t]]),
                    Sm([SADD, [STHEN, vp, s], [STHEN, vp, t]]), {"left_terms": kv, "right_terms": (ks[0], ks[1])}))
        out.append(("sum_tensor_distr_r", Sm([STENSOR, vp, [SADD, s, t]]),
                    Sm([SADD, [STENSOR, vp, s], [STENSOR, vp, t]]), {"left_terms": kv, "right_terms": (ks[0], ks[1])}))
    return out


def is_f20(name, meta, impl_l, impl_r, mod_l, mod_r):
    """Known finding F20: distributivity over the right argument when the left
    factor has >= 2 terms -- same terms, different order."""
    if name not in ("sum_then_distr_r", "sum_tensor_distr_r") or not meta:
        return False
    if meta["left_terms"] < 2 or min(meta["right_terms"]) < 1:
        return False
    if freeze(impl_l) != freeze(mod_l) or freeze(impl_r) != freeze(mod_r):
        return False      # the implementation must agree with the bug-compatible model
    if impl_l[0] != 0 or impl_r[0] != 0:
        return False
    tl, tr = impl_l[1][1], impl_r[1][1]
    return (tl[1:] == tr[1:] and sorted(map(repr, tl[0])) == sorted(map(repr, tr[0]))
            and tl[0] != tr[0])


def run(tier, seed):
    import core_impl as ci
    rep = Report("C02", tier, seed)
    proof_ok = common.proof_stage(rep, "C02")
    ci.CHECK_PURITY = True      # every operation must leave its arguments as they were
    for cname in ("monoidal", "rigid"):
        cls = ci.Cls(cname)
        rng = random.Random(seed * 11 + (1 if cname == "rigid" else 0))
        g = G.G(rng, rigid=(cname == "rigid"))
        laws = laws_for(g, rng, tier)
        progs = [x for _, l, r, _ in laws for x in (l, r)]
        impl = [public(ci.observe2(cls, p)) for p in progs]
        mod = [public(m) for m in common.run_model_parallel("sums", progs)]
        for k, (name, lhs, rhs, meta) in enumerate(laws):
            il, ir, ml, mr = impl[2 * k], impl[2 * k + 1], mod[2 * k], mod[2 * k + 1]
            rep.count("law:" + name)
            rep.count("class:" + cname)
            rep.case([cname, name, lhs, rhs], nontrivial=True,
                     sample={"class": cname, "law": name, "lhs": lhs, "rhs": rhs}
                     if rep.evaluations % 1499 == 0 else None)
            rep.disagreements_checked += 2
            for side, a, b, p in (("lhs", il, ml, lhs), ("rhs", ir, mr, rhs)):
                if b == [1, 8]:
                    raise RuntimeError("model could not decode %r" % (p,))
                if b == [1, 7]:
                    continue
                if freeze(a) != freeze(b):
                    rep.extra.setdefault("disagreements", []).append(
                        {"family": "corr:core:laws", "class": cname, "law": name, "side": side,
                         "program": p, "impl": a, "model": b})
            # the law itself, on the implementation: lhs == rhs through Python's ==
            verdict = law_holds(ci, cls, lhs, rhs)
            if verdict is None:
                rep.count("law-not-applicable(refused)")
                continue
            if verdict is True:
                continue
            if isinstance(verdict, str):
                rep.violation("law %s: %s" % (name, verdict),
                              {"class": cname, "law": name, "lhs": lhs, "rhs": rhs, "impl_lhs": il, "impl_rhs": ir,
                               "replay": "cd /verif/harness && PYTHONPATH=/repo /venv/bin/python -B -c \"import core_impl as ci; "
                                         "c=ci.Cls('%s'); print(ci.interp2(c, %r)); print(ci.interp2(c, %r))\"" % (cname, lhs, rhs)})
                continue
            if is_f20(name, meta, il, ir, ml, mr):
                rep.known_finding("F20", "distributivity of >> / @ over a sum on the right fails as == when "
                                  "the left factor is a sum of two or more terms (terms agree up to order)")
                rep.count("known:F20")
                continue
            rep.violation("law %s fails: lhs != rhs" % name,
                          {"class": cname, "law": name, "lhs": lhs, "rhs": rhs, "impl_lhs": il, "impl_rhs": ir,
                           "replay": "cd /verif/harness && PYTHONPATH=/repo /venv/bin/python -B -c \"import core_impl as ci; "
                                     "c=ci.Cls('%s'); print(ci.interp2(c, %r) == ci.interp2(c, %r))\"" % (cname, lhs, rhs)})
    reuse_and_refusal_stream(rep, ci, random.Random(seed + 202), 150 if tier == "quick" else 2500)
    common.cross_check_extraction(rep, "sums", ["DV.Common.Base", "DV.Core.SumProg"], "run_sexp2", progs,
                                  random.Random(seed + 99), n=60 if tier == "quick" else 600)
    base.settle(rep, "C02", proof_ok, "C02")
    return rep.finish(
        rule="classes monoidal and rigid: random composable triples / parallel families of grown diagrams "
             "instantiated in 21 laws (associativity, units, whiskering, dagger, slicing at every depth incl. "
             "negative/overlong, box vs one-box diagram, bilinearity of sums); each law instance is a pair of "
             "programs; non-trivial = every instance; distinct by (class, law, lhs, rhs)",
        trusted_base=base.TRUSTED_CORE,
        assumptions=["lhs == rhs is decided by the implementation's own __eq__; both sides are also compared "
                     "with the model's values",
                     "F20 (right-distributivity for a multi-term left factor) is a listed known finding"],
        checker_cmd="make -C coq Props/C02.vo  (coqc 8.16.1, Print Assumptions parsed)")


def reuse_and_refusal_stream(rep, ci, rng, count):
    """Oracle-only stream on the real objects.  (a) Values are values: after `s + h`, `h + s`,
    `s >> k`, `s @ k`, `s[::-1]`, `sum(...)` the operands read as before, and the same objects used
    again give the same results (bilinearity instances built from REUSED operands).  (b) The
    refusal side of composition: `f >> Id(z)` and `Id(z) >> f` with the wrong z raise AxiomError,
    so that (f >> Id(z)) >> g and f >> (Id(z) >> g) are refused together."""
    from discopy import monoidal, rigid, cat
    bad = 0

    def snapshot(x):
        return (repr(list(x.terms)), repr(x.dom), repr(x.cod))

    def fail(what, payload):
        nonlocal bad
        bad += 1
        rep.count("oracle:reuse-refusal:FAIL")
        if bad <= 4:
            rep.violation(what, payload)
    for k in range(count):
        mod = monoidal if k % 2 == 0 else rigid
        Ty, Box, Id = mod.Ty, mod.Box, mod.Id
        names = ["x", "y", "z", "w"]

        def ty(lo, hi):
            return Ty(*[rng.choice(names) for _ in range(rng.randint(lo, hi))])
        a, b, c = ty(0, 2), ty(0, 2), ty(0, 2)
        f, g, h = Box("f", a, b), Box("g", a, b) >> Id(b), Box("h", a, b)
        kk = Box("k", b, c)
        rep.count("stream:reuse-refusal")
        try:
            s = f + g
            snap = snapshot(s)
            r1 = s + h
            if snapshot(s) != snap:
                fail("`s + h` changed the sum s itself", {"class": mod.__name__, "s": repr(s), "h": repr(h)})
                continue
            r2 = s + h
            if r1 != r2 or [repr(t) for t in r1.terms] != [repr(t) for t in (f, g, h)]:
                fail("`s + h` evaluated twice on the same objects gives different sums, or not the terms of s then h",
                     {"class": mod.__name__, "first": repr(r1), "second": repr(r2)})
                continue
            lhs = (s >> kk) + (h >> kk)
            rhs = (s + h) >> kk
            if lhs != rhs or snapshot(s) != snap:
                fail("bilinearity on reused operands: (s >> k) + (h >> k) != (s + h) >> k", {
                    "class": mod.__name__, "lhs": repr(lhs), "rhs": repr(rhs)})
                continue
            zero = monoidal.Sum([], a, b)
            z1 = zero + f
            if len(zero.terms) != 0 or len(z1.terms) != 1:
                fail("the empty sum is not a unit that can be reused: after `zero + f` it has %d term(s)" % len(zero.terms),
                     {"class": mod.__name__})
                continue
            for name, one in (("sum([f])", sum([f])), ("0 + f", 0 + f),
                              ("reduce(add, [f], 0)", __import__("functools").reduce(lambda u, v: u + v, [f], 0))):
                if not isinstance(one, cat.Sum) or len(one.terms) != 1 or one != monoidal.Sum([f]) \
                        or hash(one) != hash(monoidal.Sum([f])) or one == f:
                    fail("%s is %r: not the one-term formal sum Sum([f]) (which differs from the diagram f)" % (name, one),
                         {"class": mod.__name__})
                    break
            else:
                one = None
            if one is not None:
                continue
            d1 = s[::-1]
            if snapshot(s) != snap or d1[::-1] != s:
                fail("dagger of a sum changed the sum or is not involutive", {"class": mod.__name__})
                continue
            # (b) refusals
            wrong = ty(0, 2)
            if list(wrong.objects) != list(b.objects):
                for name, thunk in (("f >> Id(z)", lambda: f >> Id(wrong)), ("Id(z) >> k", lambda: Id(wrong) >> kk),
                                    ("(f >> Id(z)) >> k", lambda: (f >> Id(wrong)) >> kk)):
                    try:
                        r = thunk()
                    except cat.AxiomError:
                        continue
                    except Exception as exc:   # noqa
                        fail("%s with cod(f) = %r, z = %r raised %s instead of AxiomError" % (
                            name, b, wrong, type(exc).__name__), {"class": mod.__name__})
                        break
                    fail("%s with cod(f) = %r and z = %r is accepted (returns %r)" % (name, b, wrong, r),
                         {"class": mod.__name__, "replay": "f = Box('f', %r, %r); f >> Id(%r)" % (a, b, wrong)})
                    break
                else:
                    rep.count("oracle:reuse-refusal:pass")
                continue
        except Exception as exc:   # noqa
            fail("sum / refusal stream raised %s: %s" % (type(exc).__name__, exc), {"class": mod.__name__})
            continue
        rep.count("oracle:reuse-refusal:pass")


def law_holds(ci, cls, lhs, rhs):
    """True / False, None when BOTH sides are refused (the instance is not composable), or a string
    when exactly one side is refused: the two sides of a law are defined together."""
    out = []
    for side in (lhs, rhs):
        try:
            out.append((True, common.with_timeout(10.0, ci.interp2, cls, side)))
        except Exception as exc:   # noqa
            if type(exc).__name__ == "CaseTimeout":
                return None
            if type(exc).__name__ == "PurityError":
                return "an operation changed its own argument: %s" % exc
            out.append((False, exc))
    (ok_a, a), (ok_b, b) = out
    if not ok_a and not ok_b:
        return None
    if ok_a != ok_b:
        bad = b if ok_a else a
        return "%s is refused with %s: %s while the other side is a value" % (
            "rhs" if ok_a else "lhs", type(bad).__name__, bad)
    return bool(a == b) and bool(b == a)
