"""C12 -- mixed evaluation agrees with pure evaluation and the Born rule.

Stages: (0) proof stage (coq/Props/C12.v); (1) correspondence of the
bug-compatible model coq/CQ/CQMap.v (extracted, exact Cyc32 arithmetic) with
Circuit.eval(mixed=True) / eval() / is_mixed / get_counts() / measure() on every
generated request, floats against exact values at 1e-9; (2) property oracles on
the implementation's results, independent of the model:
  O_evaluates  every well-typed circuit can be evaluated as a CQMap
  O_refuse     ill-typed requests are refused (AxiomError)
  O_ref        eval(mixed=True) = independent per-wire reference evaluation
               (pytket matrices doubled, measure / discard / encode from first
               principles, plain Kronecker whiskering, axes regrouped at the end)
  O_double     pure circuit: eval(mixed=True) = conj(U) (x) U of its own eval()
  O_born       state >> Measure: the squared magnitudes of the amplitudes
  O_marginal   c >> Discard(one wire) = marginal / partial trace of eval(c)
  O_adjoint    Encode / MixedState = adjoint of Measure / Discard; eval(c.dagger())
               = adjoint of eval(c)
  O_tp         circuits of preparations, unitaries, measurements, discards,
               constructive encodings, swaps, stochastic gates preserve the trace;
               with empty domain the outcome is a probability distribution
  O_counts     get_counts() = eval(mixed=True) of init_and_discard (library's and an
               independently written one), sums to 1 on the trace-preserving class
  O_measure    measure() = squared amplitudes (pure) / the same distribution (mixed)
  O_is_mixed   is_mixed = "bits and qubits at some layer, or a mixed box"
There are no known findings: F9 (Measure(override_bits=True) could not be
evaluated) and F9b (Encode(constructive=False) / Encode(reset_bits=True) were
declared bit ** n -> qubit ** n) were found by this machinery and repaired upstream
(fix commits 77ff08b, 1971467); their minimal inputs are the first corpus cases,
as regression, and any oracle failure is a VIOLATION."""
import itertools
import os
import random

import numpy

import common
from common import Report

ATOL = 1e-9
B, Q = 0, 1


# ------------------------------------------------------------------ builders
def circ(dom, layers):
    return [0, list(dom), [[off, b] for off, b in layers]]


def num(n, d=1, j=0):
    nums = [0] * (j + 1)
    nums[j] = n
    return [nums, d]


H, S, T, X, Y, Z = ([0, g, 0] for g in range(6))
SDG = [0, 1, 1]
CX, CZ, SWAP = [3, [0, 3, 0]], [2], [5]
COPY, MATCH = [11], [12]
NOT = [10, 1, 1, [num(0), num(1), num(1), num(0)], 0]


def ket(*bits):
    return [6, list(bits)]


def bra(*bits):
    return [7, list(bits)]


def bits(*bs, dag=0):
    return [13, list(bs), dag]


def discard(*ty):
    return [14, list(ty)]


def mixedstate(*ty):
    return [15, list(ty)]


def measure(n=1, destructive=1, override=0):
    return [16, n, destructive, override]


def encode(n=1, constructive=1, reset=0):
    return [17, n, constructive, reset]


def mscalar(nums, d=1):
    return [18, list(nums), d]


def swap(a, b):
    return [19, a, b]


def rand_k(rng):
    return rng.randrange(32)


def rand_gate1(rng):
    if rng.random() < 0.55:
        g = rng.randrange(6)
        return [0, g, 1 if g in (1, 2, 4) and rng.random() < 0.35 else 0]
    return [1, rng.randrange(3), rand_k(rng)]


def rand_pure_scalar(rng):
    nums = [0] * 16
    for _ in range(rng.randint(1, 2)):
        nums[rng.randrange(16)] = rng.randint(-3, 3)
    return [8, nums, rng.choice([1, 1, 2, 3, 4])]


def rand_mixed_scalar(ci, rng):
    """rational (exactly real) or with a clearly non-zero imaginary part"""
    while True:
        if rng.random() < 0.5:
            return mscalar([rng.randint(-3, 5)], rng.choice([1, 2, 4, 3]))
        nums = [0] * 16
        nums[0] = rng.randint(-2, 2)
        nums[rng.choice([8, 8, 4, 3, 12, 13])] = rng.choice([-2, -1, 1, 2, 3])
        d = rng.choice([1, 2, 4])
        if ci.num_imag_clear(nums, d):
            return mscalar(nums, d)


def rand_row(rng, width):
    """a probability vector with denominator 4"""
    cuts = sorted(rng.randint(0, 4) for _ in range(width - 1))
    parts = [b - a for a, b in zip([0] + cuts, cuts + [4])]
    rng.shuffle(parts)
    return [num(x, 4) for x in parts]


def rand_classical(rng, m, n, stochastic=None):
    size = 2 ** (m + n)
    if stochastic is None:
        stochastic = rng.random() < 0.5
    if stochastic:
        data = [x for _ in range(2 ** m) for x in rand_row(rng, 2 ** n)]
    elif rng.random() < 0.8:
        data = [num(rng.randint(-2, 3)) for _ in range(size)]
    else:
        data = [rng.choice([num(rng.randint(-2, 2)), num(rng.choice([-1, 1, 2]), 1, 8),
                            num(1, 2), num(rng.choice([1, -1]), 1, rng.randrange(16))])
                for _ in range(size)]
    return [10, m, n, data, 0]


def runs(scan, w):
    """maximal-run offsets: every (off, length) of contiguous wires of kind w"""
    out = []
    for i in range(len(scan)):
        j = i
        while j < len(scan) and scan[j] == w:
            j += 1
            out.append((i, j - i))
    return out


def rand_layer(ci, rng, scan, tp_only=False, buggy=0.2):
    """(off, box) that fits on scan and keeps <= 2 bits and <= 2 qubits."""
    nbits, nqub = scan.count(B), scan.count(Q)
    kinds = ["g1", "g1", "g2", "ket", "measure", "measure", "discard", "classical", "copy",
             "bits", "encode", "swap", "swap"]
    if not tp_only:
        kinds += ["bra", "pscalar", "mscalar", "mixedstate", "match", "bitsdag", "classdag",
                  "classical"]
    for _ in range(60):
        k = rng.choice(kinds)
        anywhere = rng.randint(0, len(scan))
        if k == "g1" and nqub:
            return rng.choice([i for i, w in enumerate(scan) if w == Q]), rand_gate1(rng)
        if k == "g2":
            offs = [o for o, n in runs(scan, Q) if n == 2]
            if offs:
                g = rng.choice([CZ, CX, SWAP, [3, rand_gate1(rng)], [4, rng.randrange(3), rand_k(rng)]])
                return rng.choice(offs), g
        if k == "ket" and nqub < 2:
            n = rng.randint(1, 2 - nqub) if rng.random() < 0.9 else 0
            return anywhere, ket(*[rng.randrange(2) for _ in range(n)])
        if k == "bra" and nqub:
            o, n = rng.choice(runs(scan, Q))
            return o, bra(*[rng.randrange(2) for _ in range(n)])
        if k == "pscalar":
            return anywhere, rng.choice([rand_pure_scalar(rng), [9, rng.randint(-2, 3)]])
        if k == "mscalar":
            return anywhere, rand_mixed_scalar(ci, rng)
        if k == "measure" and nqub:
            o, n = rng.choice(runs(scan, Q))
            d = 1 if rng.random() < 0.6 else 0
            over = 1 if rng.random() < buggy else 0
            if over:
                if scan[o + n:o + 2 * n] != [B] * n:
                    continue
                if nbits - n + n > 2:
                    continue
                return o, measure(n, d, 1)
            if nbits + n > 2:
                continue
            return o, measure(n, d, 0)
        if k == "encode" and nbits:
            o, n = rng.choice(runs(scan, B))
            r = rng.random()
            if tp_only or r > 2 * buggy:
                if nqub + n > 2:
                    continue
                return o, encode(n, 1, 0)
            if r < buggy:                      # Encode(constructive=False): qubit ** n @ bit ** n -> qubit ** n
                if o < n or scan[o - n:o] != [Q] * n:
                    continue
                return o - n, encode(n, 0, 0)
            if nqub + n > 2:                   # Encode(reset_bits=True): bit ** n -> qubit ** n @ bit ** n
                continue
            return o, encode(n, 1, 1)
        if k == "discard":
            o = rng.randint(0, len(scan))
            n = rng.randint(0, min(3, len(scan) - o))
            return o, discard(*scan[o:o + n])
        if k == "mixedstate":
            ty = [rng.choice([B, Q]) for _ in range(rng.randint(0, 2))]
            if nbits + ty.count(B) <= 2 and nqub + ty.count(Q) <= 2:
                return anywhere, mixedstate(*ty)
        if k in ("classical", "classdag"):
            cand = [(o, n) for o, n in runs(scan, B)] + [(anywhere, 0)]
            o, m = rng.choice(cand)
            n = rng.randint(0, 2 - (nbits - m))
            g = rand_classical(rng, m, n, stochastic=True if tp_only else None)
            if k == "classdag":
                g = rand_classical(rng, n, m)
                g = [10, m, n, g[3], 1]
            return o, g
        if k == "copy" and 1 <= nbits < 2:
            return scan.index(B), COPY
        if k == "match":
            offs = [o for o, n in runs(scan, B) if n == 2]
            if offs:
                return offs[0], MATCH
        if k == "bits" and nbits < 2:
            n = rng.randint(1, 2 - nbits) if rng.random() < 0.9 else 0
            return anywhere, bits(*[rng.randrange(2) for _ in range(n)])
        if k == "bitsdag" and nbits:
            o, n = rng.choice(runs(scan, B))
            return o, bits(*[rng.randrange(2) for _ in range(n)], dag=1)
        if k == "swap" and len(scan) >= 2:
            o = rng.randrange(len(scan) - 1)
            if scan[o] == Q and scan[o + 1] == Q and rng.random() < 0.5:
                return o, SWAP
            return o, swap(scan[o], scan[o + 1])
    return rng.randint(0, len(scan)), (discard() if tp_only else rand_mixed_scalar(ci, rng))


def rand_ty(rng, max_b=2, max_q=2):
    ty = [B] * rng.randint(0, max_b) + [Q] * rng.randint(0, max_q)
    rng.shuffle(ty)
    return ty


def grow(ci, rng, dom, nboxes, tp_only=False, buggy=0.2):
    scan, layers = list(dom), []
    for _ in range(nboxes):
        off, b = rand_layer(ci, rng, scan, tp_only=tp_only, buggy=buggy)
        layers.append((off, b))
        scan = scan[:off] + ci.box_cod(b) + scan[off + len(ci.box_dom(b)):]
    return layers, scan


def all_types(max_b=2, max_q=2):
    out = []
    for n in range(max_b + max_q + 1):
        for t in itertools.product([B, Q], repeat=n):
            if t.count(B) <= max_b and t.count(Q) <= max_q:
                out.append(list(t))
    return out


# ------------------------------------------------------------------ cases
ALL_OBS = [0, 1, 2]


def case(stream, prog, obs=None, expect=None, **more):
    c = {"stream": stream, "prog": prog, "obs": list(obs if obs is not None else ALL_OBS),
         "expect": expect, "dagger": False}
    c.update(more)
    return c


def corpus(ci):
    out = []

    def add(p, obs=None, **more):
        out.append(case("corpus", p, obs=obs, **more))
    # the minimal inputs of the findings first
    add([2, [3, circ([], [(0, ket(0))]), circ([], [(0, bits(0))])], circ([Q, B], [(0, measure(1, 1, 1))])])
    add(circ([B], [(0, encode(1, 1, 1))]), dagger=True)
    add(circ([Q, B], [(0, encode(1, 0, 0))]), dagger=True)
    add(circ([], [(0, ket(0)), (1, bits(0)), (0, encode(1, 0, 0))]), dagger=True)
    add(circ([], [(0, ket(0)), (0, measure(1, 0, 0))]), dagger=True)
    add(circ([], [(0, ket(1)), (1, bits(0)), (0, measure(1, 1, 1))]), obs=[0, 1, 2, 3, 5], dagger=True)
    # every variant of the boxes of the statement, alone
    for n in range(3):
        for d in (0, 1):
            for o in (0, 1):
                add(circ(ci.box_dom(measure(n, d, o)), [(0, measure(n, d, o))]), dagger=(n <= 1))
                add(circ(ci.box_dom(encode(n, d, o)), [(0, encode(n, d, o))]), dagger=(n <= 1))
    for ty in all_types():
        if len(ty) <= 3:
            add(circ(ty, [(0, discard(*ty))]), dagger=True)
            add(circ([], [(0, mixedstate(*ty))]), dagger=True)
    for bs in ([], [0], [1], [0, 1], [1, 1]):
        add(circ([], [(0, bits(*bs))]), obs=[0, 1, 2, 3], dagger=True)
        add(circ([B] * len(bs), [(0, bits(*bs, dag=1))]))
    add(circ([B], [(0, COPY)]), obs=[0, 1, 2, 3, 5], dagger=True)
    add(circ([B, B], [(0, MATCH)]), dagger=True)
    add(circ([B], [(0, NOT)]), obs=[0, 1, 2, 3, 5], dagger=True)
    add(circ([B], [(0, [10, 1, 2, [num(k) for k in range(1, 9)], 0])]), dagger=True)
    add(circ([B, B], [(0, [10, 2, 1, [num(k) for k in range(1, 9)], 1])]), dagger=True)
    add(circ([], [(0, [10, 0, 0, [num(3)], 0])]), dagger=True)
    add(circ([B], [(0, [10, 1, 1, [num(1, 1, 8), num(2), num(1, 2), num(1, 1, 3)], 0])]), dagger=True)
    for a in (B, Q):
        for b in (B, Q):
            add(circ([a, b], [(0, swap(a, b))]), dagger=True)
    for sc in (mscalar([2]), mscalar([1], 2), mscalar([0]), mscalar([-1]),
               mscalar([0, 0, 0, 0, 0, 0, 0, 0, 1]), mscalar([1, 0, 0, 0, 0, 0, 0, 0, 1], 2),
               mscalar([0, 0, 0, 1])):
        add(circ([], [(0, sc)]), dagger=True)
    for sc in ([8, [1, 0, 0, 0, 0, 0, 0, 0, 1], 1], [8, [0, 0, 0, 2], 3], [9, 1], [9, -1], [9, 3],
               [8, [0], 1]):
        add(circ([], [(0, sc)]), dagger=True)
    for g in (H, S, SDG, T, X, Y, Z, [1, 0, 5], [1, 1, 7], [1, 2, 3]):
        add(circ([Q], [(0, g)]), obs=[0, 1, 2, 3, 4, 5], dagger=True)
    for g in (CX, CZ, SWAP, [3, SDG], [3, [1, 1, 5]], [4, 0, 3], [4, 1, 5], [4, 2, 9]):
        add(circ([Q, Q], [(0, g)]), obs=[0, 1, 2, 3, 4, 5], dagger=True)
    for bs in ([], [0], [1], [1, 0]):
        add(circ([], [(0, ket(*bs))]), obs=[0, 1, 2, 3, 4], dagger=True)
        add(circ([Q] * len(bs), [(0, bra(*bs))]), dagger=True)
    # docstring examples and hand-written circuits
    add(circ([], [(0, ket(0)), (0, H)]), obs=[0, 1, 2, 3, 4, 5])
    add(circ([], [(0, bits(1, 0)), (2, ket(0)), (0, discard(B, B, Q))]), obs=[0, 1, 2, 3, 5])
    add(circ([], [(0, ket(0, 0)), (0, H), (0, CX), (0, measure(1)), (1, measure(1))]),
        obs=[0, 1, 2, 3, 5])
    add(circ([], [(0, ket(0, 0)), (0, H), (0, CX), (0, measure(2))]), obs=[0, 1, 2, 3, 5])
    add(circ([], [(0, ket(0, 0)), (0, H), (0, CX), (1, discard(Q))]), obs=[0, 1, 2, 3, 5])
    add(circ([], [(0, ket(0, 0)), (0, H), (0, CX), (0, measure(1, 0)), (1, discard(B))]),
        obs=[0, 1, 2, 3, 5])
    add(circ([], [(0, ket(0, 0)), (0, CX), (0, [3, [1, 2, 4]]), (0, measure(1)), (1, discard(Q))]),
        obs=[0, 1, 2, 3, 5])
    add(circ([], [(0, bits(1)), (0, encode()), (0, H), (0, measure())]), obs=[0, 1, 2, 3, 5])
    add(circ([], [(0, bits(1)), (0, COPY), (1, encode()), (1, [1, 0, 4]), (1, measure()), (0, MATCH)]),
        obs=[0, 1, 2, 3, 5])
    add(circ([Q, B], [(0, swap(Q, B)), (1, measure()), (0, MATCH)]), obs=[0, 1, 2, 3, 5])
    add(circ([B, Q, B, Q], [(3, measure()), (1, H), (1, measure(1, 0)), (0, swap(B, Q))]),
        obs=[0, 1, 2, 3, 5])
    add(circ([], [(0, mixedstate(Q)), (0, measure())]), obs=[0, 1, 2, 3, 5])
    add(circ([], [(0, ket(0)), (0, H), (0, bra(0)), (0, bits(1))]), obs=[0, 1, 2])
    add(circ([], [(0, ket(1)), (0, H), (0, mscalar([1], 2)), (0, [8, [0, 0, 0, 0, 0, 0, 0, 0, 1], 1]),
                  (0, measure(1, 0))]), obs=[0, 1, 2, 3, 5])
    add(circ([Q], []), obs=[0, 1, 2, 3, 4, 5])
    add(circ([B, Q], []), obs=[0, 1, 2, 3, 5])
    add(circ([], []), obs=[0, 1, 2, 3, 4, 5])
    add([4, circ([B, Q, B, Q], [])])
    add([4, circ([Q], [(0, measure(1, 0))])])
    return out


PLACED = [H, S, SDG, [1, 1, 5], CX, [4, 1, 7], SWAP, ket(1), bra(0), bits(1), bits(0, dag=1), COPY,
          MATCH, NOT, discard(Q), discard(B), mixedstate(Q), mixedstate(B), measure(1, 1),
          measure(1, 0), measure(2, 1), measure(1, 1, 1), measure(1, 0, 1), encode(1), encode(2),
          encode(1, 0, 0), encode(1, 1, 1), mscalar([3], 4), [8, [0, 0, 0, 0, 0, 1], 1]]


def placements(ci, tier):
    """every box of PLACED (and every swap / two-wire discard) at every offset of every
    interleaving of <= 2 bits and <= 2 qubits where it fits and stays in the bounds"""
    out = []
    for scan in all_types():
        cands = list(PLACED)
        for o in range(len(scan) - 1):
            cands.append(("at", o, swap(scan[o], scan[o + 1])))
            cands.append(("at", o, discard(*scan[o:o + 2])))
        for cand in cands:
            offs = range(len(scan) + 1)
            b = cand
            if isinstance(cand, tuple):
                offs, b = [cand[1]], cand[2]
            d, c = ci.box_dom(b), ci.box_cod(b)
            for off in offs:
                if scan[off:off + len(d)] != d or off + len(d) > len(scan):
                    continue
                after = scan[:off] + c + scan[off + len(d):]
                if after.count(B) > 2 or after.count(Q) > 2:
                    continue
                out.append(case("placement", circ(scan, [(off, b)]), obs=[0, 2],
                                dagger=(len(scan) <= 2)))
    return out


def pure_layers(rng, n, nboxes):
    """layers of gates on n qubits (plus Ket / Bra / scalars now and then), <= 2 qubits"""
    w, layers = n, []
    for _ in range(nboxes):
        r = rng.random()
        if w >= 2 and r < 0.3:
            layers.append((0, rng.choice([CZ, CX, SWAP, [3, rand_gate1(rng)],
                                          [4, rng.randrange(3), rand_k(rng)]])))
        elif w >= 1 and r < 0.8:
            layers.append((rng.randrange(w), rand_gate1(rng)))
        elif r < 0.86 and w < 2:
            layers.append((rng.randint(0, w), ket(rng.randrange(2))))
            w += 1
        elif r < 0.92 and w >= 1:
            layers.append((rng.randrange(w), bra(rng.randrange(2))))
            w -= 1
        else:
            layers.append((rng.randint(0, w), rng.choice([rand_pure_scalar(rng),
                                                           [9, rng.randint(-2, 3)]])))
    return layers, w


def gen_cases(ci, rng, tier):
    scale = 1 if tier == "quick" else 8
    cases = corpus(ci) + placements(ci, tier)
    # random mixed circuits (small domains, any boxes)
    for _ in range(200 * scale):
        dom = rand_ty(rng) if rng.random() < 0.5 else rand_ty(rng, 1, 1)
        layers, _ = grow(ci, rng, dom, rng.randint(1, 6))
        cases.append(case("random", circ(dom, layers), obs=[0, 1, 2] + rng.choice([[], [3], [5], [3, 5]]),
                          dagger=rng.random() < 0.3))
    # the trace-preserving class, mostly from the empty domain
    for _ in range(140 * scale):
        dom = [] if rng.random() < 0.7 else rand_ty(rng, 1, 1)
        layers, _ = grow(ci, rng, dom, rng.randint(1, 7), tp_only=True)
        cases.append(case("tp", circ(dom, layers), obs=[0, 1, 2, 3, 5]))
    # pure circuits: doubling, measure()
    for _ in range(80 * scale):
        n = rng.randint(0, 2)
        layers, _ = pure_layers(rng, n, rng.randint(1, 6))
        cases.append(case("pure", circ([Q] * n, layers), obs=[0, 1, 2] + rng.choice([[4], [4], [3], [5], [3, 4, 5]]),
                          dagger=rng.random() < 0.3))
    # Born rule / marginals: a state, then Measure / Discard
    for _ in range(50 * scale):
        n = rng.randint(1, 2)
        layers, w = pure_layers(rng, 0, rng.randint(1, 5))
        if w == 0:
            layers.append((0, ket(*[rng.randrange(2) for _ in range(n)])))
            w = n
        state = circ([], layers)
        d = rng.randrange(2)
        cases.append(case("born", [2, state, circ([Q] * w, [(0, measure(w, d))])], born=(state, w, d)))
    for _ in range(60 * scale):
        layers, scan = grow(ci, rng, [], rng.randint(1, 5))
        if not scan:
            continue
        k = rng.randrange(len(scan))
        base = circ([], layers)
        cases.append(case("marginal", [2, base, circ(scan, [(k, discard(scan[k]))])],
                          marginal=(base, scan, k)))
    # combinations: dagger / >> / @ / init_and_discard
    for _ in range(80 * scale):
        a_dom = rand_ty(rng, 1, 1)
        la, a_cod = grow(ci, rng, a_dom, rng.randint(0, 3))
        a = circ(a_dom, la)
        r = rng.random()
        if r < 0.3:
            lb, _ = grow(ci, rng, a_cod, rng.randint(0, 3))
            p = [2, a, circ(a_cod, lb)]
        elif r < 0.6:
            b_dom = rand_ty(rng, 1, 1)
            lb, _ = grow(ci, rng, b_dom, rng.randint(0, 2))
            if rng.random() < 0.3:
                p = [3, a, circ(b_dom, lb)]
            else:
                p = [3, circ(a_dom, []), circ(b_dom, lb)] if rng.random() < 0.5 else [3, a, circ(b_dom, [])]
        elif r < 0.8:
            p = [4, a]
        else:
            p = [1, [1, a]] if rng.random() < 0.3 else [2, a, [1, a]]
        cases.append(case("combination", p, obs=[0, 1, 2] + ([3] if rng.random() < 0.3 else [])))
    cases += malformed(ci, rng, int(0.15 / 0.85 * len(cases)))
    return cases


def malformed(ci, rng, count):
    out, ax = [], ci.ERR["AxiomError"]
    while len(out) < count:
        kind = rng.choice(["offset", "kind", "kind", "then", "then"])
        dom = rand_ty(rng)
        layers, scan = grow(ci, rng, dom, rng.randint(1, 4))
        if kind == "offset":
            i = rng.randrange(len(layers))
            pre = dom
            for off, b in layers[:i]:
                pre = pre[:off] + ci.box_cod(b) + pre[off + len(ci.box_dom(b)):]
            b = layers[i][1]
            layers[i] = (len(pre) - len(ci.box_dom(b)) + 1 + rng.randint(0, 2), b)
            p = circ(dom, layers)
        elif kind == "kind":
            if not scan:
                continue
            k = rng.randrange(len(scan))
            b = rng.choice([H, measure(), discard(Q)]) if scan[k] == B else \
                rng.choice([COPY, encode(), discard(B), NOT])
            p = circ(dom, layers + [(k, b)])
        else:
            other = rand_ty(rng)
            if other == scan:
                continue
            lb, _ = grow(ci, rng, other, rng.randint(0, 2))
            p = [2, circ(dom, layers), circ(other, lb)]
        if ci.flatten(p) is not None:
            continue
        out.append(case("malformed:" + kind, p, obs=[0], expect=ax))
    return out


# ------------------------------------------------------------------ syntactic helpers
def req_types(ci, p):
    """(dom, cod) of a request that is well-typed *as the user wrote it* (declared box
    types; a dagger exchanges dom and cod), else None."""
    op = p[0]
    if op == 0:
        scan = list(p[1])
        for off, b in p[2]:
            d = ci.box_dom(b)
            if off < 0 or off + len(d) > len(scan) or scan[off:off + len(d)] != d:
                return None
            scan = scan[:off] + ci.box_cod(b) + scan[off + len(d):]
        return list(p[1]), scan
    if op == 1:
        t = req_types(ci, p[1])
        return None if t is None else (t[1], t[0])
    if op in (2, 3):
        a, b = req_types(ci, p[1]), req_types(ci, p[2])
        if a is None or b is None:
            return None
        if op == 2:
            return (a[0], b[1]) if a[1] == b[0] else None
        return a[0] + b[0], a[1] + b[1]
    if op == 4:
        t = req_types(ci, p[1])
        return None if t is None else ([], [w for w in t[1] if w == B])
    return None


def under_dagger(p, flag=False):
    """[(box as written, is it under an odd number of daggers)]"""
    op = p[0]
    if op == 0:
        return [(b, flag) for _, b in p[2]]
    if op == 1:
        return under_dagger(p[1], not flag)
    if op == 4:
        return under_dagger(p[1], flag)
    return under_dagger(p[1], flag) + under_dagger(p[2], flag)


def nonreal_mixed_scalar(ci, p):
    return any(b[0] == ci.B_MSCALAR and not ci.num_is_real(b[1]) for b in ci.all_boxes(p))


def syn_is_mixed(ci, flat):
    dom, cod, layers = flat
    scan = list(dom)
    mixed = B in scan and Q in scan
    for off, b in layers:
        scan = scan[:off] + ci.box_cod(b) + scan[off + len(ci.box_dom(b)):]
        mixed = mixed or (B in scan and Q in scan)
        t = b[0]
        if t in (ci.B_DISCARD, ci.B_MIXEDSTATE, ci.B_MEASURE, ci.B_ENCODE, ci.B_MSCALAR):
            mixed = True
        if t == ci.B_MSWAP and b[1] != b[2]:
            mixed = True
    return mixed


def cq_tensor6(v):
    """a "cq" value as an array of shape (2^c, 2^q, 2^q, 2^c', 2^q', 2^q')"""
    _, c, q, c2, q2, arr = v
    return arr.reshape(2 ** c, 2 ** q, 2 ** q, 2 ** c2, 2 ** q2, 2 ** q2)


def adjoint_value(v):
    _, c, q, c2, q2, arr = v
    n_in, n_out = c + 2 * q, c2 + 2 * q2
    a = arr.reshape((2,) * (n_in + n_out) or (1,))
    if n_in + n_out:
        a = a.transpose(list(range(n_in, n_in + n_out)) + list(range(n_in)))
    return ["cq", c2, q2, c, q, a.conj().flatten()]


def double_value(m, n, arr):
    """conj(U) (x) U in CQMap's axis order, from a plain [in.., out..] array"""
    a = arr.reshape((2,) * (m + n) or (1,))
    d = numpy.multiply.outer(a.conj(), a)                     # bra in, bra out, ket in, ket out
    if m + n:
        order = list(range(m)) + list(range(m + n, 2 * m + n)) + list(range(m, m + n)) \
            + list(range(2 * m + n, 2 * (m + n)))
        d = d.transpose(order)
    return ["cq", 0, m, 0, n, d.flatten()]


def marginal_value(v, scan, k):
    """eval(c) with wire k of its codomain (type scan) discarded, computed with numpy"""
    _, c, q, c2, q2, arr = v
    n_in = c + 2 * q
    a = arr.reshape((2,) * (n_in + c2 + 2 * q2) or (1,))
    if scan[k] == B:
        j = scan[:k].count(B)
        a = a.sum(axis=n_in + j)
        return ["cq", c, q, c2 - 1, q2, a.flatten()]
    j = scan[:k].count(Q)
    a = numpy.trace(a, axis1=n_in + c2 + j, axis2=n_in + c2 + q2 + j)
    return ["cq", c, q, c2, q2 - 1, a.flatten()]


# ------------------------------------------------------------------ implementation side
_CI = None


def _impl_case(c):
    """every request of one case on the implementation: ({key: outcome}, counters, classes)"""
    ci = _CI
    before = dict(ci.COUNTS)
    out, by_prog = {}, {}
    for key, r in c["reqs"]:
        by_prog.setdefault(common.to_sexp(r[1]), []).append((key, r))
    for group in by_prog.values():
        outs = ci.observe_many(group[0][1][1], [r[0] for _, r in group])
        for key, r in group:
            out[key] = outs[r[0]]
    return out, {k: ci.COUNTS[k] - before[k] for k in before}, list(ci.UNKNOWN_CLASSES)


def impl_parallel(ci, cases):
    global _CI
    _CI = ci
    jobs = int(os.environ.get("VERIF_C12_JOBS", "8"))
    if jobs <= 1:
        return [_impl_case(c) for c in cases]
    import multiprocessing
    with multiprocessing.get_context("fork").Pool(jobs) as pool:
        return pool.map(_impl_case, cases, chunksize=4)


# ------------------------------------------------------------------ settle
def settle(rep, ci, proof_ok):
    found = any(f for _, _, f in rep.violations)
    dis = rep.extra.get("disagreements", [])
    if dis and not found:
        first = dis[0]
        rep.violation(
            "correspondence %s no longer checks: implementation and model differ on %d request(s); "
            "no input violating the property itself was found" % (first["family"], len(dis)),
            {"broken": first["family"], "first_disagreement": first, "n_disagreements": len(dis),
             "replay": ci.snippet(first["request"])}, found_input=False)
    if not proof_ok and not found:
        rep.violation("theorems of coq/Props/C12.v no longer check",
                      {"broken": "coq/Props/C12.v", "notes": rep.notes}, found_input=False)
    rep.extra["n_disagreements"] = len(dis)
    if len(dis) > 20:
        rep.extra["disagreements"] = dis[:20]


class Verdicts:
    CAP = 3

    def __init__(self, rep, ci):
        self.rep, self.ci, self.fails = rep, ci, {}

    def ok(self, oracle):
        self.rep.count("oracle:%s:pass" % oracle)

    def fail(self, oracle, what, c, request, impl, model, **more):
        self.rep.count("oracle:%s:FAIL" % oracle)
        self.fails[oracle] = self.fails.get(oracle, 0) + 1
        if self.fails[oracle] > self.CAP:
            return
        payload = {"oracle": oracle, "stream": c["stream"], "request": request,
                   "pretty": self.ci.pretty_request(request), "impl": self.ci.jsonable(impl),
                   "model": self.ci.jsonable(model), "replay": self.ci.snippet(request)}
        payload.update(more)
        self.rep.violation("%s: %s" % (oracle, what), payload)


def mixed_sum_stream(rep, rng, count):
    """Oracle-only stream on the real objects: formal sums whose terms are partly pure and partly
    mixed.  Evaluating the sum (default arguments) gives the sum of the mixed evaluations of its
    terms - a pure term is doubled before it is added to a classical-quantum map, never added as
    amplitudes."""
    import numpy
    from discopy.quantum import gates as G
    from discopy.quantum.circuit import Measure, Discard, Id, qubit
    bad = 0
    for k in range(count):
        n = 1
        prep = G.Ket(rng.randint(0, 1)) >> rng.choice([G.H, G.X, G.Rx(0.25), G.Rz(0.125) >> G.H])
        closed = rng.random() < 0.5
        pure = prep >> G.Bra(rng.randint(0, 1)) if closed else prep
        mixed = (prep >> Discard()) if closed else (prep >> rng.choice([Measure() >> G.ClassicalGate('id', 1, 1, [1, 0, 0, 1]) >> Discard(G.bit) if False else Id(qubit), G.X]))
        if not closed:
            # same type, one term made mixed by a (trace-preserving) measure-and-encode round trip
            from discopy.quantum.circuit import Encode
            mixed = prep >> Measure() >> Encode()
        terms = [pure, mixed] if rng.random() < 0.5 else [mixed, pure]
        rep.count("stream:mixed-sums")
        what = None
        try:
            # several circuits in one eval call: each is evaluated as it would be alone
            from discopy.quantum.circuit import Circuit
            batch = Circuit.eval(terms[0], terms[1])
            alone = [terms[0].eval(), terms[1].eval()]
            for got_b, want_b in zip(batch, alone):
                if type(got_b).__name__ != type(want_b).__name__ or not numpy.allclose(
                        numpy.asarray(got_b.array, dtype=complex), numpy.asarray(want_b.array, dtype=complex), atol=ATOL):
                    what = "evaluated together with another circuit a circuit gives %s %r, alone %s %r" % (
                        type(got_b).__name__, list(numpy.asarray(got_b.array).flatten()), type(want_b).__name__,
                        list(numpy.asarray(want_b.array).flatten()))
                    break
            if what is not None:
                raise RuntimeError(what)
            total = terms[0] + terms[1]
            got = total.eval()
            want = terms[0].eval(mixed=True) + terms[1].eval(mixed=True)
            a = numpy.asarray(got.array, dtype=complex)
            b = numpy.asarray(want.array, dtype=complex)
            if type(got).__name__ != type(want).__name__ or a.shape != b.shape or not numpy.allclose(a, b, atol=ATOL):
                what = "(pure + mixed).eval() = %s %r but the sum of the mixed evaluations is %s %r" % (
                    type(got).__name__, list(a.flatten()), type(want).__name__, list(b.flatten()))
        except Exception as exc:   # noqa
            what = what or "evaluating a pure and a mixed circuit (batch / sum) raised %s: %s" % (type(exc).__name__, exc)
        if what:
            bad += 1
            rep.count("oracle:O_mixed_sum:FAIL")
            if bad <= 3:
                rep.violation("O_mixed_sum: " + what, {"oracle": "O_mixed_sum", "terms": [repr(t) for t in terms]})
        else:
            rep.count("oracle:O_mixed_sum:pass")


def scalar_box_stream(rep, ver, rng, count):
    """Oracle-only stream on the real objects: every way the library spells a pure scalar
    (scalar(z), sqrt(z), their daggers) with real, negative and complex data, alone and in front
    of a small pure circuit that is then measured.  The mixed evaluation of a pure scalar box s is
    conj(s) * s = |s.eval()|**2 (the Born rule), whatever class s has."""
    from discopy.quantum import gates as G
    from discopy.quantum.circuit import Id, Measure, Discard
    fixed = [2, 4, 0.5, 0.25, -1, -2, -0.5, 1j, 3 - 4j, -0.3 + 0.1j, 0, 1]
    bad = 0
    for i in range(count):
        z = fixed[i] if i < len(fixed) else rng.choice([
            rng.uniform(-3, 3), complex(rng.uniform(-2, 2), rng.uniform(-2, 2)),
            rng.randint(-4, 4), 1j * rng.randint(-3, 3)])
        make = rng.choice([G.sqrt, G.scalar]) if i >= 2 * len(fixed) else (G.sqrt, G.scalar)[i % 2]
        if i >= len(fixed) and i < 2 * len(fixed):
            z = fixed[i - len(fixed)]
        box = make(z)
        if rng.random() < 0.3:
            box = box.dagger()
        rep.count("stream:scalar-boxes")
        rep.count("scalar-box:" + type(box).__name__)
        what = None
        try:
            pure = complex(numpy.asarray(box.eval().array).flatten()[0])
            mixed = complex(numpy.asarray(box.eval(mixed=True).array).flatten()[0])
            if abs(mixed - abs(pure) ** 2) > ATOL:
                what = "%s.eval(mixed=True) = %r but |%s.eval()|**2 = %r" % (
                    box, mixed, box, abs(pure) ** 2)
            else:
                circuit = box @ G.Ket(0, 1) >> G.H @ G.X >> Measure() @ Discard()
                probs = numpy.asarray(circuit.eval(mixed=True).array, dtype=complex).flatten()
                want = numpy.array([abs(pure) ** 2 / 2] * 2)
                if probs.shape != want.shape or not numpy.allclose(probs, want, atol=ATOL, rtol=0):
                    what = "%s @ (fair coin) evaluates to %r instead of %r" % (
                        box, list(probs), list(want))
        except Exception as exc:   # noqa: a pure scalar always evaluates
            what = "evaluating %s raised %s: %s" % (box, type(exc).__name__, exc)
        if what is None:
            ver.ok("O_double_scalar")
        else:
            bad += 1
            rep.count("oracle:O_double_scalar:FAIL")
            if bad <= 3:
                rep.violation("O_double_scalar: " + what,
                              {"oracle": "O_double_scalar", "box": repr(box), "data": repr(z),
                               "replay": "from discopy.quantum import *; b = %r; "
                                         "b.eval(mixed=True), abs(b.eval().array) ** 2" % (box,)})


def run(tier, seed):
    import cq_impl as ci
    rep = Report("C12", tier, seed)
    if os.environ.get("VERIF_C12_SKIP_PROOF") == "1":
        proof_ok = True
        rep.notes.append("proof stage skipped (VERIF_C12_SKIP_PROOF=1): harness-only run")
    else:
        proof_ok = common.proof_stage(rep, "C12")
    rng = random.Random(seed)
    cases = gen_cases(ci, rng, tier)

    # ---- requests of every case: (key, request)
    for c in cases:
        p = c["prog"]
        reqs = [(("obs", o), [o, p]) for o in c["obs"]]
        if c["dagger"]:
            reqs.append((("dagger",), [0, [1, p]]))
        if 3 in c["obs"] or 5 in c["obs"]:
            reqs.append((("init",), [0, [4, p]]))
        if 3 in c["obs"]:
            reqs.append((("init_auto",), [1, [4, p]]))
        if "born" in c:
            reqs.append((("born",), [1, c["born"][0]]))
        if "marginal" in c:
            reqs.append((("marginal",), [0, c["marginal"][0]]))
        c["reqs"] = reqs
    # ---- the implementation (a pool of forked workers; every case is independent)
    results = impl_parallel(ci, cases)
    for c, (outs, counts, unknown) in zip(cases, results):
        c["impl"] = outs
        for k, v in counts.items():
            ci.COUNTS[k] += v
        for name in unknown:
            if name not in ci.UNKNOWN_CLASSES:
                ci.UNKNOWN_CLASSES.append(name)
    # ---- the model
    flat_reqs = [(i, key, r) for i, c in enumerate(cases) for key, r in c["reqs"]]
    answers = common.run_model_parallel("cq", [r for _, _, r in flat_reqs])
    rep.programs += len(flat_reqs)
    for c in cases:
        c["model"] = {}
    for (i, key, r), ans in zip(flat_reqs, answers):
        if ans[0] == 1 and ans[1] in (7, 8):
            raise RuntimeError("model could not run %r: %r" % (r, ans))
        cases[i]["model"][key] = ci.model_value(ans)

    ver = Verdicts(rep, ci)
    for c in cases:
        p = c["prog"]
        boxes = ci.all_boxes(p)
        main_key = ("obs", c["obs"][0])
        impl, model = c["impl"][main_key], c["model"][main_key]
        request = [c["obs"][0], p]
        rep.case(p, nontrivial=(len(boxes) >= 2 or impl[0] == 1),
                 sample={"request": ci.pretty_request(request), "stream": c["stream"],
                         "impl": ("CQ(%d, %d) -> CQ(%d, %d)" % tuple(impl[1][1:5])
                                  if impl[0] == 0 and impl[1][0] == "cq"
                                  else "raises " + ci.err_name(impl[1]) if impl[0] == 1 else impl[1][0])})
        rep.count("stream:" + c["stream"])
        rep.count("boxes:%d" % len(boxes) if len(boxes) < 10 else "boxes:10+")
        rep.count("outcome:" + ("value" if impl[0] == 0 else ci.err_name(impl[1])))
        for b in boxes:
            rep.count("box:" + ci.KIND[b[0]])
            if b[0] == ci.B_MEASURE:
                rep.count("measure:destructive=%d,override=%d" % (b[2], b[3]))
            if b[0] == ci.B_ENCODE:
                rep.count("encode:constructive=%d,reset=%d" % (b[2], b[3]))
        types = req_types(ci, p)
        if types is not None:
            rep.count("dom:%db%dq" % (types[0].count(B), types[0].count(Q)))
        # ---- correspondence, every request (not yet a violation)
        agree = True
        for key, r in c["reqs"]:
            rep.disagreements_checked += 1
            rep.count("obs:" + ci.OBS_NAME[r[0]])
            if not ci.same_outcome(c["impl"][key], c["model"][key], ATOL):
                agree = False
                rep.extra.setdefault("disagreements", []).append(
                    {"family": "corr:cq", "request": r, "pretty": ci.pretty_request(r),
                     "impl": ci.jsonable(c["impl"][key]), "model": ci.jsonable(c["model"][key])})
        rep.count("corr:" + ("agree" if agree else "DISAGREE"))
        # ---- refusals
        if c["expect"] is not None:
            if impl == [1, c["expect"]]:
                ver.ok("O_refuse")
            else:
                ver.fail("O_refuse", "ill-typed request must raise %s but %s"
                         % (ci.err_name(c["expect"]),
                            "evaluates" if impl[0] == 0 else "raises " + ci.err_name(impl[1])),
                         c, request, impl, model)
            continue
        if types is None:
            raise RuntimeError("generator produced an ill-typed request that is not marked as "
                               "malformed: %s" % ci.pretty_request(request))

        def evaluates(key, r, what):
            """O_evaluates on one request; returns the value or None."""
            a, m = c["impl"][key], c["model"][key]
            if a[0] == 0:
                ver.ok("O_evaluates")
                return a[1]
            ver.fail("O_evaluates", "%s of a well-typed circuit raises %s"
                     % (what, ci.err_name(a[1])), c, r, a, m)
            return None

        val = None
        if c["obs"][0] == 0:
            val = evaluates(main_key, request, "eval(mixed=True)")
        flat = ci.flatten(p)
        clean = True
        # ---- O_ref
        if val is not None and flat is not None and clean:
            ref = ci.reference(flat[0], flat[2])
            if ci.same_value(val, ref, ATOL):
                ver.ok("O_ref")
            else:
                ver.fail("O_ref", "eval(mixed=True) differs from the independent reference evaluation",
                         c, request, impl, model, reference=ci.jsonable([0, ref]),
                         model_fails_too=(model[0] == 0 and not ci.same_value(model[1], ref, ATOL)))
        # ---- O_is_mixed
        if ("obs", 2) in c["impl"] and flat is not None:
            a = c["impl"][("obs", 2)]
            if a[0] == 0 and a[1][1] == (1 if syn_is_mixed(ci, flat) else 0):
                ver.ok("O_is_mixed")
            else:
                ver.fail("O_is_mixed", "is_mixed disagrees with its definition", c, [2, p], a,
                         c["model"][("obs", 2)])
        # ---- O_double
        plain = c["impl"].get(("obs", 1))
        if val is not None and flat is not None and all(ci.is_pure_box(b) for _, b in flat[2]) \
                and B not in flat[0] and plain is not None:
            if plain[0] == 0 and plain[1][0] == "plain" and ci.same_value(
                    val, double_value(plain[1][1], plain[1][2], plain[1][3]), ATOL):
                ver.ok("O_double")
            else:
                ver.fail("O_double", "mixed evaluation of a pure circuit is not conj(U) (x) U of "
                         "its pure evaluation", c, request, impl, model, pure=ci.jsonable(plain))
        # ---- O_born
        if "born" in c and val is not None:
            st = c["impl"][("born",)]
            state, w, d = c["born"]
            if st[0] == 0 and st[1][0] == "plain":
                amp = st[1][3]
                prob = (amp.conj() * amp)
                got = cq_tensor6(val)
                if d:
                    want = prob
                    have = got.reshape(-1)
                else:                      # non-destructive: outcome k leaves |k><k| weighted by prob
                    have = got.reshape(2 ** w, 2 ** w, 2 ** w)
                    want = numpy.zeros_like(have)
                    for k in range(2 ** w):
                        want[k, k, k] = prob[k]
                if have.shape == want.shape and numpy.allclose(have, want, atol=ATOL, rtol=0):
                    ver.ok("O_born")
                else:
                    ver.fail("O_born", "measuring a pure state does not give the squared magnitudes "
                             "of its amplitudes", c, request, impl, model, state=ci.jsonable(st))
            else:
                ver.fail("O_born", "the pure state itself does not evaluate to a Tensor", c,
                         [1, state], st, c["model"][("born",)])
        # ---- O_marginal
        if "marginal" in c and val is not None:
            base, scan, k = c["marginal"]
            bv = c["impl"][("marginal",)]
            if bv[0] == 0 and bv[1][0] == "cq":
                if ci.same_value(val, marginal_value(bv[1], scan, k), ATOL):
                    ver.ok("O_marginal")
                else:
                    ver.fail("O_marginal", "discarding a wire is not the marginal / partial trace",
                             c, request, impl, model, before=ci.jsonable(bv))
            else:
                ver.fail("O_marginal", "the circuit before the discard does not evaluate", c,
                         [0, base], bv, c["model"][("marginal",)])
        # ---- O_adjoint
        if c["dagger"]:
            dreq = [0, [1, p]]
            dval = evaluates(("dagger",), dreq, "eval(mixed=True) of the dagger")
            if dval is not None and val is not None:
                if nonreal_mixed_scalar(ci, p):
                    rep.count("adjoint:with-non-real-mixed-scalar")
                if ci.same_value(dval, adjoint_value(val), ATOL):
                    ver.ok("O_adjoint")
                else:
                    ver.fail("O_adjoint", "eval(c.dagger()) is not the adjoint of eval(c)", c, dreq,
                             c["impl"][("dagger",)], c["model"][("dagger",)],
                             original=ci.jsonable(impl))
        # ---- O_tp
        tp = flat is not None and clean and all(ci.tp_box(b) for _, b in flat[2])
        if val is not None and tp:
            t6 = cq_tensor6(val)
            red = numpy.einsum("abcdee->abc", t6)
            want = numpy.broadcast_to(numpy.eye(t6.shape[1]), red.shape)
            good = numpy.allclose(red, want, atol=ATOL, rtol=0)
            if good and val[1] == 0 and val[2] == 0 and val[4] == 0:
                dist = val[5]
                good = bool(numpy.allclose(dist.imag, 0, atol=ATOL) and (dist.real > -ATOL).all()
                            and abs(dist.sum() - 1) < ATOL)
                rep.count("tp:distribution-checked")
            if good:
                ver.ok("O_tp")
            else:
                ver.fail("O_tp", "a circuit of preparations, unitaries, measurements, discards and "
                         "stochastic gates does not preserve the trace / does not give a "
                         "probability distribution", c, request, impl, model)
        # ---- O_counts / O_measure (mixed path)
        for obs, name in ((3, "get_counts()"), (5, "measure(mixed=True)")):
            key = ("obs", obs)
            if key not in c["impl"]:
                continue
            got = evaluates(key, [obs, p], name)
            if got is None or flat is None:
                continue
            oracle = "O_counts" if obs == 3 else "O_measure"
            iflat = ci.init_and_discard_flat(flat)
            good, why = True, ""
            if obs == 3:
                # get_counts() reads init_and_discard().eval(): a plain Tensor when that circuit
                # is not mixed (then pure scalars / post-selections enter as amplitudes)
                auto = c["impl"][("init_auto",)]
                if auto[0] != 0:
                    good, why = False, "init_and_discard().eval() raises"
                elif not (got[1].shape == auto[1][-1].shape
                          and numpy.allclose(got[1], auto[1][-1].real, atol=ATOL, rtol=0)):
                    good, why = False, "differs from init_and_discard().eval()"
                born_applies = syn_is_mixed(ci, iflat) or not any(
                    ci.is_pure_box(b) for _, b in iflat[2])
                if not born_applies:
                    rep.count("side:get_counts-of-a-non-mixed-circuit-with-pure-boxes (amplitudes, "
                              "not judged against the mixed evaluation)")
            else:
                born_applies = True
            init = c["impl"][("init",)]
            if good and born_applies:
                if init[0] != 0:
                    good, why = False, "init_and_discard().eval(mixed=True) raises"
                elif init[1][0] != "cq" or init[1][1:3] != [0, 0] or init[1][4] != 0:
                    good, why = False, "init_and_discard() is not a map from CQ() to bits"
                elif not (got[1].shape == init[1][5].shape
                          and numpy.allclose(got[1], init[1][5].real, atol=ATOL, rtol=0)):
                    good, why = False, "differs from the mixed evaluation of init_and_discard()"
            if good and born_applies:
                ref = ci.reference(iflat[0], iflat[2])
                if not (got[1].shape == ref[5].shape
                        and numpy.allclose(got[1], ref[5].real, atol=ATOL, rtol=0)):
                    good, why = False, ("differs from the independent reference of "
                                        "Bits(0)/Ket(0) >> c >> Discard")
            if good and tp and (abs(got[1].sum() - 1) > ATOL or (got[1].real < -ATOL).any()):
                good, why = False, "is not a probability distribution on a trace-preserving circuit"
            if good:
                ver.ok(oracle)
            else:
                ver.fail(oracle, "%s %s" % (name, why), c, [obs, p], c["impl"][key], c["model"][key],
                         init=ci.jsonable(init))
        # ---- O_measure (pure path)
        if ("obs", 4) in c["impl"] and flat is not None and clean:
            got = evaluates(("obs", 4), [4, p], "measure()")
            pure = all(ci.is_pure_box(b) for _, b in flat[2]) and B not in flat[0]
            if got is not None and pure:
                ref = ci.gi.reference([(off, b) for off, b in flat[2]], len(flat[0]))   # [out, in]
                want = numpy.abs(ref[:, 0]) ** 2
                if got[1].shape == want.shape and numpy.allclose(got[1], want, atol=ATOL, rtol=0):
                    ver.ok("O_measure")
                else:
                    ver.fail("O_measure", "measure() of a pure circuit is not the squared magnitudes "
                             "of the amplitudes of Ket(0..0) >> c", c, [4, p], c["impl"][("obs", 4)],
                             c["model"][("obs", 4)])
    scalar_box_stream(rep, ver, rng, 120 if tier == "quick" else 1200)
    mixed_sum_stream(rep, rng, 40 if tier == "quick" else 500)
    rep.extra["oracle_failures"] = ver.fails
    rep.extra["impl_counts"] = dict(ci.COUNTS, unknown_classes=list(ci.UNKNOWN_CLASSES))
    settle(rep, ci, proof_ok)
    return rep.finish(
        rule="cases: corpus (minimal inputs of the repaired F9 / F9b; every variant of Measure / Encode for n <= 2 "
             "and all flags, Discard / MixedState of every type of <= 3 wires, Bits, Copy, Match, "
             "ClassicalGates with integer / complex / stochastic data and daggered, the four Swaps, "
             "pure and mixed scalars, gates; docstring examples, Bell / teleport-like circuits), "
             "placements (29 boxes + swaps + two-wire discards at every offset of every interleaving "
             "of <= 2 bits and <= 2 qubits), random mixed circuits (<= 6 boxes, <= 2 bits + 2 qubits "
             "at every layer, grid phases k/16), the trace-preserving class from the empty domain, "
             "pure circuits, state >> Measure (Born), c >> Discard(wire) (marginals), dagger / >> / @ "
             "/ init_and_discard combinations, ~15% ill-typed; requests: eval(mixed=True), eval(), "
             "is_mixed, get_counts(), measure(), measure(mixed=True), eval of the dagger; "
             "non-trivial = at least 2 boxes or a refusal; distinct by program",
        trusted_base=[
            "Coq 8.16.1 kernel (coqc full .vo build; no native_compute)",
            "hand-written Gallina model coq/CQ/CQMap.v (+ coq/Quantum/* of C11) of "
            "discopy/quantum/cqmap.py, circuit.py (eval, is_mixed, init_and_discard, get_counts, "
            "measure, Measure/Encode/Discard/MixedState), gates.py (ClassicalGate, Bits, Scalar), "
            "tied to /repo only by this run's correspondence check (differential testing at 1e-9)",
            "extraction: ExtrOcamlBasic directives only; no Extract Constant; OCaml 4.13.1; "
            "runner/main.ml (tokenizer, printer, int<->Z)",
            "Python harness (generators, syntactic typing, per-wire reference evaluation, oracles), "
            "CPython 3.12, numpy (kron, matmul, einsum, trace, allclose)",
            "pytket 2.18 Op.get_unitary() as the reference for every gate matrix in the oracle",
        ],
        assumptions=[
            "floating point: comparisons at absolute tolerance 1e-9; phases on the 32-point grid "
            "k/16; classical data / scalars are exact rationals or small cyclotomic integers",
            "tensor.Functor's evaluation of CQMap.tensor's swap network is C09/C10's subject; the "
            "model computes the closed form (proved equal to the network on the model level) and "
            "the whole evaluation is compared",
            "the DISCOPY_VERIF hook is on: a VerifHookError (ill-typed diagram built by the library) "
            "is reported as AxiomError and is a failure of O_evaluates",
            "no known findings: F9 and F9b were repaired upstream (77ff08b, 1971467), every oracle "
            "failure is a violation; Scalar.dagger keeps is_mixed since 58fd18f and O_adjoint judges "
            "circuits with non-real mixed scalars too; "
            "get_counts() of a NON-mixed circuit reads the plain tensor (amplitudes): judged "
            "against init_and_discard().eval() only, unless the circuit has no pure box",
            "probabilities being non-negative is checked numerically (oracle), not proved: the "
            "abstract *-ring has no order",
        ],
        checker_cmd="make -C coq Props/C12.vo  (coqc 8.16.1, Print Assumptions parsed)")
