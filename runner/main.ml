(* Line-oriented driver for an extracted model: reads one S-expression of
   integers per line, applies the model's [run_sexp], prints the answer.
   No logic about diagrams lives here: only int <-> Z conversion, a tokenizer
   and a printer. *)
open Model

let rec pos_of_int n =
  if n = 1 then XH
  else if n land 1 = 0 then XO (pos_of_int (n lsr 1))
  else XI (pos_of_int (n lsr 1))
let z_of_int n = if n = 0 then Z0 else if n > 0 then Zpos (pos_of_int n) else Zneg (pos_of_int (- n))
let rec int_of_pos = function
  | XH -> 1 | XO p -> 2 * int_of_pos p | XI p -> 2 * int_of_pos p + 1
let int_of_z = function Z0 -> 0 | Zpos p -> int_of_pos p | Zneg p -> - (int_of_pos p)

(* decimal big integers are not needed by any model: all wire integers fit in 62 bits *)
let parse (s : string) : sexp =
  let n = String.length s in
  let pos = ref 0 in
  let rec skip () = if !pos < n && (s.[!pos] = ' ' || s.[!pos] = '\t' || s.[!pos] = '\r') then (incr pos; skip ()) in
  let rec item () =
    skip ();
    if !pos >= n then failwith "eof"
    else if s.[!pos] = '(' then begin
      incr pos;
      let acc = ref [] in
      let rec loop () =
        skip ();
        if !pos >= n then failwith "unclosed"
        else if s.[!pos] = ')' then incr pos
        else begin acc := item () :: !acc; loop () end in
      loop (); L (List.rev !acc)
    end else begin
      let st = !pos in
      if s.[!pos] = '-' then incr pos;
      while !pos < n && s.[!pos] >= '0' && s.[!pos] <= '9' do incr pos done;
      if !pos = st then failwith "bad token";
      I (z_of_int (int_of_string (String.sub s st (!pos - st))))
    end in
  item ()

let rec print buf = function
  | I z -> Buffer.add_string buf (string_of_int (int_of_z z))
  | L l ->
    Buffer.add_char buf '(';
    List.iteri (fun i x -> if i > 0 then Buffer.add_char buf ' '; print buf x) l;
    Buffer.add_char buf ')'

let () =
  try
    while true do
      let line = input_line stdin in
      let out =
        try
          let buf = Buffer.create 256 in
          print buf (run_sexp (parse line)); Buffer.contents buf
        with
        | Stack_overflow -> "(2 0)"
        | Failure m -> "(2 1)" in
      print_string out; print_newline ()
    done
  with End_of_file -> ()
