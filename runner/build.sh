#!/bin/sh
# build.sh <name> <ExtractFile.v> [entry point, default run_sexp]: extract coq/Extract/<ExtractFile>.v (which must
# emit <name>_model.ml) and link it with main.ml into runner/bin/<name>
set -e
name=$1; vfile=$2; entry=${3:-run_sexp}
here=$(cd "$(dirname "$0")" && pwd)
gen=$here/gen/$name.$$
mkdir -p "$gen" "$here/bin"
trap 'rm -rf "$gen"' EXIT
cd "$gen"
timeout 600 coqc -Q "$here/../coq" DV "$here/../coq/Extract/$vfile" >/dev/null
rm -f "$here/../coq/Extract/${vfile%.v}.vo" "$here/../coq/Extract/${vfile%.v}.glob" "$here/../coq/Extract/.${vfile%.v}.aux" "$here/../coq/Extract/${vfile%.v}.vos" "$here/../coq/Extract/${vfile%.v}.vok"
mv ${name}_model.ml model.ml; mv ${name}_model.mli model.mli
sed "s/run_sexp (parse line)/$entry (parse line)/" "$here/main.ml" > main.ml
# link next to the target, then rename: a check that is executing the old binary keeps it
ocamlfind ocamlopt -O3 -w -a model.mli model.ml main.ml -o "$here/bin/.$name.$$" 2>/dev/null || ocamlfind ocamlopt -w -a model.mli model.ml main.ml -o "$here/bin/.$name.$$"
mv -f "$here/bin/.$name.$$" "$here/bin/$name"
