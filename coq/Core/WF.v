(* Well-typedness of a diagram value: the statement of C01.  Definitions only. *)
From Coq Require Import List ZArith Bool Lia.
Import ListNotations.
Require Import DV.Common.Base DV.Core.Diagram.
Open Scope Z_scope.

(* reading the layers from type a reaches exactly type b, each layer finding its
   own domain (left ++ dom box ++ right) in the current type *)
Fixpoint chain (a : ty) (ls : list layer) (b : ty) : Prop :=
  match ls with
  | [] => a = b
  | l :: ls' => a = ldom l /\ chain (lcod l) ls' b
  end.

Definition la_wf (a : larrow) : Prop := chain (la_dom a) (la_ls a) (la_cod a).

(* the three clauses of C01: (1) reading boxes/offsets from dom reaches cod and
   each box finds its domain at its offset -- expressed through the layer view;
   (2)-(3) the layer view agrees with boxes and offsets *)
Definition wf (d : diagram) : Prop :=
  la_dom (dlayers d) = ddom d /\ la_cod (dlayers d) = dcod d /\
  la_wf (dlayers d) /\
  dboxes d = map lbox (la_ls (dlayers d)) /\
  doffs d = map (fun l => len (lleft l)) (la_ls (dlayers d)).

(* an independent, range-checked reading of (dom, boxes, offsets): no slicing
   tricks.  `reads a bs offs b` : from type a, the boxes at the offsets lead to b *)
Fixpoint reads (a : ty) (bs : list box) (offs : list Z) (b : ty) : Prop :=
  match bs, offs with
  | [], [] => a = b
  | bx :: bs', off :: offs' =>
      0 <= off /\
      exists l r, a = l ++ bdom bx ++ r /\ len l = off /\ reads (l ++ bcod bx ++ r) bs' offs' b
  | _, _ => False
  end.

(* the type reached after reading the first k layers *)
Fixpoint type_at (t : ty) (ls : list layer) (k : nat) : ty :=
  match k, ls with
  | S k', l :: ls' => type_at (lcod l) ls' k'
  | _, _ => t
  end.
