(* C02: the strict dagger-monoidal laws hold as equalities of the returned values
   (Leibniz equality of the whole record, layer view included, which is stronger
   than the == of the implementation that compares dom, cod, boxes, offsets). *)
From Coq Require Import List ZArith Bool Lia.
Import ListNotations.
Require Import DV.Common.Base DV.Common.ListLemmas DV.Core.Diagram DV.Core.WF DV.Core.DiagramLemmas.
Open Scope Z_scope.

(* boxes as the library builds them: swaps, cups and caps are never flagged as
   daggers and carry their canonical interned names *)
Definition box_ok (b : box) : Prop :=
  match bk b with
  | KBox => True
  | KSwap => bdag b = false
  | KCup => bdag b = false /\ bname b = -2
  | KCap => bdag b = false /\ bname b = -3
  end.
Definition boxes_ok (d : diagram) : Prop := Forall box_ok (dboxes d).

Lemma box_dagger_invol b : box_ok b -> box_dagger (box_dagger b) = b.
Proof.
  destruct b as [k n d c g t]. unfold box_ok, box_dagger; cbn.
  destruct k; cbn; intros H.
  - now rewrite negb_involutive.
  - now subst.
  - destruct H; now subst.
  - destruct H; now subst.
Qed.

Lemma box_dagger_ok b : box_ok b -> box_ok (box_dagger b).
Proof. destruct b as [k n d c g t]. unfold box_ok, box_dagger; cbn. destruct k; cbn; tauto. Qed.

Lemma layer_dagger_invol l : box_ok (lbox l) -> layer_dagger (layer_dagger l) = l.
Proof.
  destruct l as [[a b] c]. unfold layer_dagger, lleft, lbox, lright; cbn. intros H.
  now rewrite box_dagger_invol.
Qed.

(* ------------------------------------------------------------ explicit forms *)
Lemma of_layers_id d : wf d -> of_layers (dlayers d) = d.
Proof.
  intros (W1 & W2 & _ & W4 & W5). destruct d as [dm cd bs os la]. cbn in *.
  unfold of_layers. now rewrite W1, W2, <- W4, <- W5.
Qed.

Lemma py_slice_rev_all {A} (l : list A) : py_slice_rev l None None = rev l.
Proof.
  unfold py_slice_rev, clip_rev. replace (-1 + 1) with 0 by lia. cbn [Z.to_nat skipn].
  replace (len l - 1 - -1) with (len l) by lia. unfold len. rewrite Nat2Z.id. now rewrite firstn_all.
Qed.

Lemma ddagger_eq d : ddagger d =
  of_layers (LA (la_cod (dlayers d)) (la_dom (dlayers d)) (map layer_dagger (rev (la_ls (dlayers d))))).
Proof. unfold ddagger, dslice_rev, la_slice_rev. now rewrite py_slice_rev_all. Qed.

Definition whisk_r (x : ty) (l : layer) : layer := (lleft l, lbox l, lright l ++ x).
Definition whisk_l (x : ty) (l : layer) : layer := (x ++ lleft l, lbox l, lright l).

Lemma dtensor_eq a b : wf a -> wf b ->
  dtensor a b = Ok (D (ddom a ++ ddom b) (dcod a ++ dcod b) (dboxes a ++ dboxes b)
                      (doffs a ++ map (fun n => n + len (dcod a)) (doffs b))
                      (LA (ddom a ++ ddom b) (dcod a ++ dcod b)
                          (map (whisk_r (ddom b)) (la_ls (dlayers a)) ++
                           map (whisk_l (dcod a)) (la_ls (dlayers b))))).
Proof.
  intros (A1 & A2 & A3 & A4 & A5) (B1 & B2 & B3 & B4 & B5). unfold dtensor.
  unfold la_wf in A3, B3. rewrite A1, A2 in A3. rewrite B1, B2 in B3.
  pose proof (chain_whisker_r _ _ _ (ddom b) A3) as C1.
  pose proof (chain_whisker_l _ _ _ (dcod a) B3) as C2.
  rewrite (la_extend_chain _ (la_id (ddom a ++ ddom b)) _ C1). cbn [bind la_id la_dom la_cod la_ls app].
  match goal with |- context [la_extend ?acc _] => rewrite (la_extend_chain _ acc _ C2) end.
  reflexivity.
Qed.

Lemma dthen_eq a b : la_cod (dlayers a) = la_dom (dlayers b) ->
  dthen a b = Ok (D (ddom a) (dcod b) (dboxes a ++ dboxes b) (doffs a ++ doffs b)
                    (LA (la_dom (dlayers a)) (la_cod (dlayers b)) (la_ls (dlayers a) ++ la_ls (dlayers b)))).
Proof. intros H. unfold dthen. now rewrite la_then_eq. Qed.

(* ------------------------------------------------------------ composition *)
Theorem dthen_assoc a b c :
  (do x <- dthen a b; dthen x c) = (do y <- dthen b c; dthen a y).
Proof.
  unfold dthen, la_then.
  destruct (ty_eqb (la_cod (dlayers a)) (la_dom (dlayers b))) eqn:E1;
  destruct (ty_eqb (la_cod (dlayers b)) (la_dom (dlayers c))) eqn:E2; cbn;
    rewrite ?E1, ?E2; cbn; try reflexivity.
  now rewrite !app_assoc.
Qed.

Theorem dthen_id_l a : wf a -> dthen (did (ddom a)) a = Ok a.
Proof.
  intros (W1 & _). unfold dthen, la_then; cbn. rewrite W1, ty_eqb_refl. cbn.
  destruct a as [dm cd bs os [ld lc ls]]. cbn in *. now subst.
Qed.

Theorem dthen_id_r a : wf a -> dthen a (did (dcod a)) = Ok a.
Proof.
  intros (_ & W2 & _). unfold dthen, la_then; cbn. rewrite W2, ty_eqb_refl. cbn.
  destruct a as [dm cd bs os [ld lc ls]]. cbn in *. subst. now rewrite !app_nil_r.
Qed.

(* ------------------------------------------------------------ tensor *)
Lemma wf_D_tensor a b : wf a -> wf b -> forall d, dtensor a b = Ok d -> wf d.
Proof. intros Ha Hb d H. destruct (dtensor_wf _ _ _ Ha Hb H) as (W & _). exact W. Qed.

Definition tensor_val (a b : diagram) : diagram :=
  D (ddom a ++ ddom b) (dcod a ++ dcod b) (dboxes a ++ dboxes b)
    (doffs a ++ map (fun n => n + len (dcod a)) (doffs b))
    (LA (ddom a ++ ddom b) (dcod a ++ dcod b)
        (map (whisk_r (ddom b)) (la_ls (dlayers a)) ++ map (whisk_l (dcod a)) (la_ls (dlayers b)))).

Lemma dtensor_val a b : wf a -> wf b -> dtensor a b = Ok (tensor_val a b) /\ wf (tensor_val a b).
Proof.
  intros Ha Hb. pose proof (dtensor_eq a b Ha Hb) as E. split; [exact E|].
  destruct (dtensor_ok a b Ha Hb) as (x & Ex & Wx & _). rewrite E in Ex. inversion Ex; subst x. exact Wx.
Qed.

Theorem dtensor_assoc a b c : wf a -> wf b -> wf c ->
  (do x <- dtensor a b; dtensor x c) = (do y <- dtensor b c; dtensor a y).
Proof.
  intros Ha Hb Hc.
  destruct (dtensor_val a b Ha Hb) as [E1 W1]. destruct (dtensor_val b c Hb Hc) as [E2 W2].
  rewrite E1, E2. cbn [bind].
  destruct (dtensor_val _ c W1 Hc) as [E3 _]. destruct (dtensor_val a _ Ha W2) as [E4 _].
  rewrite E3, E4. f_equal. unfold tensor_val. cbn [ddom dcod dboxes doffs dlayers la_ls].
  rewrite !map_app, !map_map.
  f_equal; rewrite <- ?app_assoc; try reflexivity.
  - f_equal. f_equal. apply map_ext. intros n. rewrite len_app. lia.
  - f_equal. f_equal; [|f_equal].
    + apply map_ext. intros l. unfold whisk_r, lleft, lbox, lright; cbn. now rewrite <- app_assoc.
    + apply map_ext. intros l. unfold whisk_l, lleft, lbox, lright; cbn. now rewrite <- app_assoc.
Qed.

Lemma map_id_ext {A} (f : A -> A) l : (forall x, f x = x) -> map f l = l.
Proof. intros H. induction l as [|x l IH]; cbn; [reflexivity|]. now rewrite H, IH. Qed.

Theorem dtensor_unit_l a : wf a -> dtensor (did []) a = Ok a.
Proof.
  intros Ha. rewrite (dtensor_eq _ _ (did_wf []) Ha). cbn [did ddom dcod dboxes doffs dlayers la_id la_ls map app].
  destruct Ha as (W1 & W2 & _ & _ & _).
  destruct a as [dm cd bs os [ld lc ls]]. cbn in *. subst. f_equal. f_equal.
  - apply map_id_ext. intros n. try rewrite len_nil. lia.
  - f_equal. apply map_id_ext. intros [[l b] r]. reflexivity.
Qed.

Theorem dtensor_unit_r a : wf a -> dtensor a (did []) = Ok a.
Proof.
  intros Ha. rewrite (dtensor_eq _ _ Ha (did_wf [])). cbn [did ddom dcod dboxes doffs dlayers la_id la_ls map].
  destruct Ha as (W1 & W2 & _ & _ & _).
  destruct a as [dm cd bs os [ld lc ls]]. cbn in *. subst. rewrite !app_nil_r. f_equal. f_equal. f_equal.
  apply map_id_ext. intros [[l b] r].
  unfold whisk_r, lleft, lbox, lright; cbn. now rewrite app_nil_r.
Qed.

(* a @ b is the left-to-right whiskered composite a @ Id(dom b) >> Id(cod a) @ b *)
Theorem dtensor_whiskered a b : wf a -> wf b ->
  dtensor a b = (do x <- dtensor a (did (ddom b)); do y <- dtensor (did (dcod a)) b; dthen x y).
Proof.
  intros Ha Hb.
  rewrite (dtensor_eq a (did (ddom b)) Ha (did_wf _)). cbn [bind].
  rewrite (dtensor_eq (did (dcod a)) b (did_wf _) Hb). cbn [bind].
  rewrite dthen_eq by reflexivity. rewrite (dtensor_eq a b Ha Hb).
  cbn [did ddom dcod dboxes doffs dlayers la_id la_dom la_cod la_ls map app]. now rewrite !app_nil_r.
Qed.

(* ------------------------------------------------------------ dagger *)
Lemma map_layer_dagger_invol ls : Forall box_ok (map lbox ls) ->
  map (fun x => layer_dagger (layer_dagger x)) ls = ls.
Proof.
  induction ls as [|l ls IH]; cbn; intros H; [reflexivity|].
  inversion H; subst. rewrite layer_dagger_invol by assumption. f_equal. auto.
Qed.

Theorem ddagger_invol d : wf d -> boxes_ok d -> ddagger (ddagger d) = d.
Proof.
  intros W Hb. rewrite (ddagger_eq (ddagger d)). rewrite (ddagger_eq d).
  cbn [of_layers dlayers la_dom la_cod la_ls].
  rewrite <- map_rev, rev_involutive, map_map.
  rewrite map_layer_dagger_invol.
  - transitivity (of_layers (dlayers d)); [destruct (dlayers d); reflexivity|apply of_layers_id, W].
  - destruct W as (_ & _ & _ & W4 & _). unfold boxes_ok in Hb. now rewrite W4 in Hb.
Qed.

Theorem ddagger_id t : ddagger (did t) = did t.
Proof. reflexivity. Qed.

Theorem ddagger_then a b d : dthen a b = Ok d ->
  dthen (ddagger b) (ddagger a) = Ok (ddagger d).
Proof.
  intros H. destruct (dthen_inv _ _ _ H) as [Hm ->].
  rewrite !ddagger_eq. cbn [dlayers la_dom la_cod la_ls].
  rewrite dthen_eq by (cbn; auto). unfold of_layers. cbn [ddom dcod dboxes doffs dlayers la_dom la_cod la_ls].
  now rewrite rev_app_distr, !map_app.
Qed.

(* ------------------------------------------------------------ slicing *)
Theorem slice_compose d i : wf d -> (i <= length (dboxes d))%nat ->
  dthen (dslice d None (Some (Z.of_nat i))) (dslice d (Some (Z.of_nat i)) None) = Ok d.
Proof.
  intros W Hi. pose proof W as (W1 & W2 & W3 & W4 & W5).
  assert (Hi' : (i <= length (la_ls (dlayers d)))%nat) by (rewrite W4, map_length in Hi; exact Hi).
  unfold dslice. rewrite la_slice_prefix, la_slice_suffix by auto.
  rewrite dthen_eq by reflexivity. unfold of_layers. cbn [ddom dcod dboxes doffs dlayers la_dom la_cod la_ls].
  rewrite <- !map_app, firstn_skipn, <- W4, <- W5, W1, W2.
  destruct d as [dm cd bs os [ld lc ls]]. cbn in *. now subst.
Qed.

(* a box equals the one-box diagram that wraps it (what Box.__eq__ / Diagram.__eq__ compare) *)
Theorem box_is_one_box_diagram b d : mk (bdom b) (bcod b) [b] [0] = Ok d -> deqb d (dbox b) = true.
Proof.
  intros H. destruct (mk_fields _ _ _ _ _ H) as (F1 & F2 & F3 & F4).
  apply deqb_eq. cbn. auto.
Qed.
