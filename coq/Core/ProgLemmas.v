(* Closure of well-typedness under every program of public-API calls (C01). *)
From Coq Require Import List ZArith Bool Lia.
Import ListNotations.
Require Import DV.Common.Base DV.Common.ListLemmas DV.Core.Diagram DV.Core.WF
  DV.Core.DiagramLemmas DV.Core.Rewriting DV.Core.RewritingLemmas DV.Core.Foliate DV.Core.FoliateLemmas DV.Core.Perm
  DV.Core.Route DV.Core.PermLemmas DV.Core.Rigid DV.Core.Functor DV.Core.Prog.
Open Scope Z_scope.

(* ------------------------------------------------------------ rigid *)
Lemma cups_loop_wf factory rev l r n : forall result i d,
  wf result -> cups_loop factory rev l r result i n = Ok d -> wf d.
Proof.
  induction n as [|n IH]; cbn [cups_loop]; intros result i d W H.
  - inversion H; subst; auto.
  - destruct (factory _ _) as [c|]; [|discriminate]. cbn [bind] in H.
    destruct (dtensor _ (dbox c)) as [t1|] eqn:E1; [|discriminate]. cbn [bind] in H.
    destruct (dtensor_wf _ _ _ (did_wf _) (dbox_wf c) E1) as (W1 & _).
    destruct (dtensor t1 _) as [lay|] eqn:E2; [|discriminate]. cbn [bind] in H.
    destruct (dtensor_wf _ _ _ W1 (did_wf _) E2) as (W2 & _).
    destruct (if rev then dthen lay result else dthen result lay) as [r'|] eqn:E3; [|discriminate].
    cbn [bind] in H. apply (IH r' (S i) d); [|exact H].
    destruct rev; [eapply dthen_wf in E3|eapply dthen_wf in E3]; eauto; tauto.
Qed.

Theorem dcups_wf l r d : dcups l r = Ok d -> wf d.
Proof.
  unfold dcups. destruct (negb _); [discriminate|]. apply cups_loop_wf, did_wf.
Qed.

Theorem dcaps_wf l r d : dcaps l r = Ok d -> wf d.
Proof.
  unfold dcaps. destruct (negb _); [discriminate|]. apply cups_loop_wf, did_wf.
Qed.

Ltac step H x E :=
  match type of H with
  | (do _ <- ?e; _) = Ok _ => destruct e as [x|] eqn:E; [cbn [bind] in H|discriminate]
  end.

Theorem dtranspose_wf d left d' : wf d -> dtranspose d left = Ok d' -> wf d'.
Proof.
  intros W H. unfold dtranspose in H. destruct left.
  - step H caps E1. step H a E2. step H b0 E3. step H b E4. step H cups E5. step H c E6. step H ab E7.
    pose proof (dcaps_wf _ _ _ E1) as W1. pose proof (dcups_wf _ _ _ E5) as W5.
    destruct (dtensor_wf _ _ _ (did_wf _) W1 E2) as (W2 & _).
    destruct (dtensor_wf _ _ _ (did_wf _) W E3) as (W3 & _).
    destruct (dtensor_wf _ _ _ W3 (did_wf _) E4) as (W4 & _).
    destruct (dtensor_wf _ _ _ W5 (did_wf _) E6) as (W6 & _).
    destruct (dthen_wf _ _ _ W2 W4 E7) as (W7 & _).
    destruct (dthen_wf _ _ _ W7 W6 H) as (W8 & _). exact W8.
  - step H caps E1. step H a E2. step H b0 E3. step H b E4. step H cups E5. step H c E6. step H ab E7.
    pose proof (dcaps_wf _ _ _ E1) as W1. pose proof (dcups_wf _ _ _ E5) as W5.
    destruct (dtensor_wf _ _ _ W1 (did_wf _) E2) as (W2 & _).
    destruct (dtensor_wf _ _ _ (did_wf _) W E3) as (W3 & _).
    destruct (dtensor_wf _ _ _ W3 (did_wf _) E4) as (W4 & _).
    destruct (dtensor_wf _ _ _ (did_wf _) W5 E6) as (W6 & _).
    destruct (dthen_wf _ _ _ W2 W4 E7) as (W7 & _).
    destruct (dthen_wf _ _ _ W7 W6 H) as (W8 & _). exact W8.
Qed.

(* ------------------------------------------------------------ functors *)
Definition ar_wf (m : list (box * diagram)) : Prop := Forall (fun bd => wf (snd bd)) m.

Lemma lookup_ar_wf m b d : ar_wf m -> lookup_ar m b = Ok d -> wf d.
Proof.
  induction m as [|[k v] m IH]; cbn; intros W H; [discriminate|].
  inversion W; subst. destruct (box_eqb k b); [inversion H; subst; auto|auto].
Qed.

Lemma f_box_wf Fn b d : ar_wf (far Fn) -> f_box Fn b = Ok d -> wf d.
Proof.
  intros W H. unfold f_box in H. destruct (bk b).
  - destruct (bdag b).
    + step H x E. inversion H; subst. apply ddagger_wf. eapply lookup_ar_wf; eauto.
    + eapply lookup_ar_wf; eauto.
  - step H l E1. step H r E2. apply (dswap_spec _ _ _ H).
  - step H l E1. step H r E2. apply (dcups_wf _ _ _ H).
  - step H l E1. step H r E2. apply (dcaps_wf _ _ _ H).
Qed.

Lemma f_loop_wf Fn bs : forall scan result offs d, ar_wf (far Fn) -> wf result ->
  f_loop Fn scan result bs offs = Ok d -> wf d.
Proof.
  induction bs as [|b bs IH]; intros scan result offs d WF W H.
  - cbn in H. inversion H; subst; auto.
  - destruct offs as [|off offs]; [cbn in H; inversion H; subst; auto|].
    cbn [f_loop] in H. step H fl E1. step H fr E2. step H fb E3. step H t1 E4. step H t2 E5. step H r' E6.
    pose proof (f_box_wf _ _ _ WF E3) as W3.
    destruct (dtensor_wf _ _ _ (did_wf _) W3 E4) as (W4 & _).
    destruct (dtensor_wf _ _ _ W4 (did_wf _) E5) as (W5 & _).
    destruct (dthen_wf _ _ _ W W5 E6) as (W6 & _).
    eapply IH; eauto.
Qed.

Theorem f_apply_wf Fn d d' : ar_wf (far Fn) -> f_apply Fn d = Ok d' -> wf d'.
Proof.
  intros WF H. unfold f_apply in H. step H fd E. eapply f_loop_wf; eauto. apply did_wf.
Qed.

(* ------------------------------------------------------------ programs *)
Definition wf_value (v : value) : Prop :=
  match v with VD d => wf d | VL ds => Forall wf ds end.

Scheme prog_mut := Induction for prog Sort Prop
with arlist_mut := Induction for arlist Sort Prop.

Lemma as_diagram_ok r d : as_diagram r = Ok d -> r = Ok (VD d).
Proof. destruct r as [[x|x]|]; cbn; intros H; inversion H; auto. Qed.

Ltac sub H x E :=
  match type of H with
  | (do _ <- as_diagram (run ?p); _) = Ok _ =>
      destruct (as_diagram (run p)) as [x|] eqn:E; [cbn [bind] in H; apply as_diagram_ok in E|discriminate]
  end.
Ltac ret H := 
  match type of H with
  | (do d <- ?e; Ok (VD d)) = Ok ?v =>
      let x := fresh "x" in let E := fresh "E" in
      destruct e as [x|] eqn:E; [cbn [bind] in H; inversion H; subst v; clear H; cbn [wf_value]|discriminate]
  end.

Theorem run_wf : forall p v, run p = Ok v -> wf_value v.
Proof.
  apply (prog_mut
    (fun p => forall v, run p = Ok v -> wf_value v)
    (fun a => forall m, run_ars a = Ok m -> ar_wf m)).
  - (* PId *) intros t v H. inversion H; subst. apply did_wf.
  - (* PBox *) intros b v H. inversion H; subst. apply dbox_wf.
  - (* PMk *) intros dom cod bs offs v H. cbn [run] in H. ret H. eapply mk_wf; eauto.
  - (* PThen *) intros p IHp q IHq v H. cbn [run] in H. ret H. sub E a Ea. sub E b Eb.
    eapply dthen_wf; [apply (IHp _ Ea)|apply (IHq _ Eb)|exact E].
  - (* PTensor *) intros p IHp q IHq v H. cbn [run] in H. ret H. sub E a Ea. sub E b Eb.
    eapply dtensor_wf; [apply (IHp _ Ea)|apply (IHq _ Eb)|exact E].
  - (* PDagger *) intros p IHp v H. cbn [run] in H. ret H. sub E a Ea. inversion E; subst.
    apply ddagger_wf, (IHp _ Ea).
  - (* PSlice *) intros p IHp s e v H. cbn [run] in H. ret H. sub E a Ea. inversion E; subst.
    apply dslice_wf, (IHp _ Ea).
  - (* PSliceRev *) intros p IHp s e v H. cbn [run] in H. ret H. sub E a Ea. inversion E; subst.
    apply dslice_rev_wf, (IHp _ Ea).
  - (* PGetItem *) intros p IHp i v H. cbn [run] in H. ret H. sub E a Ea.
    eapply dgetitem_wf; [apply (IHp _ Ea)|exact E].
  - (* PInterchange *) intros p IHp i j l v H. cbn [run] in H. ret H. sub E a Ea.
    eapply interchange_wf; [apply (IHp _ Ea)|exact E].
  - (* PNormalize *) intros p IHp l v H. cbn [run] in H. sub H a Ea.
    destruct (normalize _ a l) as [tr|] eqn:En; [cbn [bind] in H|discriminate].
    destruct (Nat.ltb _ _); [discriminate|]. inversion H; subst. cbn [wf_value].
    pose proof (normalize_wf _ _ _ _ (IHp _ Ea) En) as F.
    eapply Forall_impl; [|exact F]. cbn. tauto.
  - (* PNormalForm *) intros p IHp l v H. cbn [run] in H. ret H. sub E a Ea.
    eapply normal_form_wf; [apply (IHp _ Ea)|exact E].
  - (* PSwap *) intros l r v H. cbn [run] in H. ret H. apply (dswap_spec _ _ _ E).
  - (* PPermutation *) intros perm dom v H. cbn [run] in H. ret H. apply (dpermutation_spec _ _ _ E).
  - (* PPermute *) intros p IHp perm v H. cbn [run] in H. ret H. sub E a Ea.
    unfold dpermute in E. step E pm Ep.
    eapply dthen_wf; [apply (IHp _ Ea)|apply (dpermutation_spec _ _ _ Ep)|exact E].
  - (* PCups *) intros l r v H. cbn [run] in H. ret H. apply (dcups_wf _ _ _ E).
  - (* PCaps *) intros l r v H. cbn [run] in H. ret H. apply (dcaps_wf _ _ _ E).
  - (* PTranspose *) intros p IHp l v H. cbn [run] in H. ret H. sub E a Ea.
    eapply dtranspose_wf; [apply (IHp _ Ea)|exact E].
  - (* PFunctor *) intros obs ars IHa p IHp v H. cbn [run] in H. ret H. sub E a Ea.
    step E m Em. eapply f_apply_wf; [|exact E]. cbn [far]. apply IHa. reflexivity.
  - (* PFoliate *) intros p IHp v H. cbn [run] in H. sub H a Ea.
    destruct (foliate a) as [[steps slices]|] eqn:Ef; [cbn [bind] in H|discriminate].
    inversion H; subst. cbn [wf_value fst].
    destruct (foliate_wf _ _ _ (IHp _ Ea) Ef) as [F1 _].
    eapply Forall_impl; [|exact F1]. cbn. tauto.
  - (* PFoliation *) intros p IHp v H. cbn [run] in H. sub H a Ea.
    destruct (foliate a) as [[steps slices]|] eqn:Ef; [cbn [bind] in H|discriminate].
    inversion H; subst. cbn [wf_value snd].
    destruct (foliate_wf _ _ _ (IHp _ Ea) Ef) as [_ F2]. exact F2.
  - (* ANil *) intros m H. inversion H; subst. constructor.
  - (* ACons *) intros b img IHi rest IHr m H. cbn [run_ars] in H.
    destruct (as_diagram (run img)) as [d|] eqn:Ed; [cbn [bind] in H; apply as_diagram_ok in Ed|discriminate].
    step H m' Em. inversion H; subst. constructor; [apply (IHi _ Ed)|apply IHr; reflexivity].
Qed.
