(* monoidal.Diagram.swap / permutation / permute (shared by rigid, tensor,
   circuit and zx through ar_factory / swap_factory). *)
From Coq Require Import List ZArith Bool Lia.
Import ListNotations.
Require Import DV.Common.Base DV.Core.Diagram.
Open Scope Z_scope.

(* monoidal.Swap(left, right) with len(left) == len(right) == 1 *)
Definition swap_box (l r : ty) : res box :=
  if (len l =? 1) && (len r =? 1)
  then Ok (Box KSwap (-1) (l ++ r) (r ++ l) false None)
  else Err ValueError.

(* boxes = [Swap(left, right[i:i+1]) for i, _ in enumerate(right)] *)
Fixpoint swap_row (l : ty) (r : ty) : res (list box) :=
  match r with
  | [] => Ok []
  | x :: r' => do b <- swap_box l [x]; do bs <- swap_row l r'; Ok (b :: bs)
  end.

Fixpoint zrange (start : Z) (n : nat) : list Z :=
  match n with O => [] | S n' => start :: zrange (start + 1) n' end.

(* Diagram.swap(left, right): recursion on len(left) *)
Fixpoint dswap (l r : ty) : res diagram :=
  match l with
  | [] => Ok (did r)
  | [x] => do bs <- swap_row [x] r;
           mk ([x] ++ r) (r ++ [x]) bs (zrange 0 (length r))
  | x :: l' =>
      do s1 <- dswap l' r;
      do a <- dtensor (did [x]) s1;
      do s2 <- (do bs <- swap_row [x] r; mk ([x] ++ r) (r ++ [x]) bs (zrange 0 (length r)));
      do b <- dtensor s2 (did l');
      dthen a b
  end.

(* perm.index(i) *)
Fixpoint zindex (x : Z) (l : list Z) : option nat :=
  match l with
  | [] => None
  | y :: l' => if y =? x then Some O else option_map S (zindex x l')
  end.

(* set(range(len(perm))) != set(perm) *)
Definition is_perm (perm : list Z) : bool :=
  forallb (fun x => (0 <=? x) && (x <? len perm)) perm
  && forallb (fun i => existsb (Z.eqb i) perm) (zrange 0 (length perm)).

(* one iteration of the selection loop *)
Definition perm_step (d : diagram) (perm : list Z) (i : nat) : res (diagram * list Z) :=
  match zindex (Z.of_nat i) perm with
  | None => Err ValueError
  | Some j =>
      let iz := Z.of_nat i in let jz := Z.of_nat j in
      let c := dcod d in
      do s <- dswap (py_slice c (Some iz) (Some jz)) (py_slice c (Some jz) (Some (jz + 1)));
      do t1 <- dtensor (did (py_slice c None (Some iz))) s;
      do t2 <- dtensor t1 (did (py_slice c (Some (jz + 1)) None));
      do d' <- dthen d t2;
      Ok (d', py_slice perm None (Some iz) ++ [iz] ++ py_slice perm (Some iz) (Some jz)
                ++ py_slice perm (Some (jz + 1)) None)
  end.

Fixpoint perm_loop (d : diagram) (perm : list Z) (i n : nat) : res diagram :=
  match n with
  | O => Ok d
  | S n' => do r <- perm_step d perm i; perm_loop (fst r) (snd r) (S i) n'
  end.

Definition dpermutation (perm : list Z) (dom : ty) : res diagram :=
  if negb (is_perm perm) then Err ValueError
  else if negb (len dom =? len perm) then Err ValueError
  else perm_loop (did dom) perm 0 (length dom).

(* d.permute(perm...) *)
Definition dpermute (d : diagram) (perm : list Z) : res diagram :=
  do p <- dpermutation perm (ddom d); dthen d p.
